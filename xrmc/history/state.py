"""Observable state vector of the interpreter as far as xrspatial can see / change it (engine E2).

Re-derived at run time by walking `xrspatial.*`, so new containers / defaults / dispatchers are picked up."""
import importlib
import inspect
import pkgutil

import numpy as np

from ..core.digest import digest

SKIP = (".tests", "gpu_rtx", ".datasets", "__main__", ".esri")


def modules():
    import xrspatial
    mods = [xrspatial]
    for m in pkgutil.walk_packages(xrspatial.__path__, "xrspatial."):
        if any(s in m.name for s in SKIP):
            continue
        try:
            mods.append(importlib.import_module(m.name))
        except Exception:
            pass
    return mods


def _is_mutable_default(d):
    if isinstance(d, (list, dict, set, np.ndarray, np.random.RandomState)):
        return True
    if hasattr(np.random, "Generator") and isinstance(d, np.random.Generator):
        return True
    # any other object carrying instance state (a cache object, a counter, ...) - but not functions / types / modules
    return (hasattr(d, "__dict__") and not callable(d) and not isinstance(d, type)
            and type(d).__module__ not in ("builtins",))


def _default_digest(d):
    if isinstance(d, np.ndarray):
        return digest(d)
    if isinstance(d, np.random.RandomState):
        st = d.get_state()
        return digest((st[0], st[1], st[2], st[3], st[4]))
    if hasattr(np.random, "Generator") and isinstance(d, np.random.Generator):
        return digest(repr(d.bit_generator.state))
    if isinstance(d, (list, dict, set)):
        return digest(_content(d))
    try:
        return digest(_content(vars(d)))
    except Exception:
        return digest(repr(d))


def _content(v):
    if isinstance(v, dict):
        return {repr(k): _content(x) for k, x in v.items()}
    if isinstance(v, (list, tuple)):
        return [_content(x) for x in v]
    if isinstance(v, (set, frozenset)):
        return sorted(repr(x) for x in v)
    if callable(v):
        code = getattr(v, "__code__", None)
        return ("callable", getattr(v, "__qualname__", type(v).__name__), None if code is None else code.co_code)
    return v


def vector():
    """-> dict component -> digest.  Components:
    reg:<module>.<name>        module-level dict/list/set (registries, tables)
    def:<module>.<func>[i]     mutable default argument of a module-level function
    arr:<module>.<name>        module-level ndarray (scratch buffers; informational)
    glb:<module>.<name>        module-level scalar constants (frozen into jitted code at compile time)
    opt:<module>.<name>        numba dispatcher target options (parallel etc.)
    sig:<module>.<name>        numba dispatcher compiled signatures (expected to grow)
    rng                        global numpy RNG state
    """
    from numba.core.dispatcher import Dispatcher
    vec = {}
    for m in modules():
        mn = m.__name__
        for k, v in list(vars(m).items()):
            if k.startswith("__"):
                continue
            if isinstance(v, (dict, list, set)):
                vec["reg:%s.%s" % (mn, k)] = digest(_content(v))
            elif isinstance(v, np.ndarray):
                vec["arr:%s.%s" % (mn, k)] = digest(v)
            elif isinstance(v, (int, float, str, bool, tuple)) and not isinstance(v, type):
                vec["glb:%s.%s" % (mn, k)] = digest(_content(v))
            elif isinstance(v, Dispatcher):
                if getattr(v.py_func, "__module__", None) == mn:
                    vec["opt:%s.%s" % (mn, k)] = digest(sorted((a, repr(b)) for a, b in v.targetoptions.items()))
                    vec["sig:%s.%s" % (mn, k)] = digest(sorted(str(s) for s in v.signatures))
            if inspect.isfunction(v) and v.__module__ == mn:
                for i, d in enumerate(v.__defaults__ or ()):
                    if _is_mutable_default(d):
                        vec["def:%s.%s[%d]" % (mn, k, i)] = _default_digest(d)
                for kk, d in (v.__kwdefaults__ or {}).items():
                    if _is_mutable_default(d):
                        vec["def:%s.%s[%s]" % (mn, k, kk)] = _default_digest(d)
    st = np.random.get_state()
    vec["rng"] = digest((st[0], st[1], st[2], st[3], st[4]))
    return vec


STABLE_PREFIXES = ("reg:", "def:", "glb:", "opt:")


def stable_diff(before, after):
    """components that must not change across a call (registries, mutable defaults, frozen globals, target options)."""
    out = []
    for k in sorted(set(before) | set(after)):
        if k.startswith(STABLE_PREFIXES) and before.get(k) != after.get(k):
            out.append(k)
    return out


def parallel_kernels():
    """[(module, name)] of numba dispatchers compiled with parallel=True (E3e gate)."""
    from numba.core.dispatcher import Dispatcher
    out = []
    for m in modules():
        for k, v in vars(m).items():
            if isinstance(v, Dispatcher) and getattr(v.py_func, "__module__", None) == m.__name__ \
                    and v.targetoptions.get("parallel"):
                out.append((m.__name__, k))
    return sorted(out)


def dispatcher_count():
    from numba.core.dispatcher import Dispatcher
    n = 0
    for m in modules():
        for k, v in vars(m).items():
            if isinstance(v, Dispatcher) and getattr(v.py_func, "__module__", None) == m.__name__:
                n += 1
    return n
