"""Covering sequences for history exploration: de Bruijn sequences B(k, n) contain every length-n word over
k letters exactly once as a (cyclic) window, i.e. an Eulerian circuit of the (n-1)-dimensional de Bruijn graph;
B(k, 2) is an Eulerian circuit of the complete digraph with self-loops (every ordered pair adjacent once)."""


def de_bruijn(k, n):
    """FKM algorithm; returns the cyclic sequence (length k**n) as a list of ints."""
    if k == 1:
        return [0]
    a = [0] * (k * n)
    seq = []

    def db(t, p):
        if t > n:
            if n % p == 0:
                seq.extend(a[1:p + 1])
        else:
            a[t] = a[t - p]
            db(t + 1, p)
            for j in range(a[t - p] + 1, k):
                a[t] = j
                db(t + 1, t)
    db(1, 1)
    return seq


def linear_cover(k, n):
    """linear sequence of length k**n + n - 1 containing every length-n word exactly once as a window."""
    s = de_bruijn(k, n)
    return s + s[:n - 1]


def segments(seq, n, nseg):
    """cut into <= nseg pieces overlapping by n-1 so that every length-n window lies inside one piece."""
    windows = len(seq) - n + 1
    per = -(-windows // nseg)
    out = []
    for start in range(0, windows, per):
        out.append(seq[start:min(len(seq), start + per + n - 1)])
    return out


def selftest():
    for k, n in ((2, 2), (3, 2), (3, 3), (5, 2), (4, 3)):
        s = linear_cover(k, n)
        assert len(s) == k ** n + n - 1
        wins = [tuple(s[i:i + n]) for i in range(len(s) - n + 1)]
        assert len(set(wins)) == k ** n == len(wins)
        for nseg in (1, 3, 7):
            segs = segments(s, n, nseg)
            w2 = [tuple(g[i:i + n]) for g in segs for i in range(len(g) - n + 1)]
            assert sorted(w2) == sorted(wins)
    return True
