"""Fresh-interpreter oracle: the digest a call produces when it is the ONLY library call of a new process.

`python -m xrmc.history.fresh <tier> <letter> [<letter> ...]` runs each letter twice in THIS fresh process (first
letter only is 'fresh'; used with one letter per process) and prints one JSON line per letter."""
import json
import os
import subprocess
import sys
import time

VERIF = os.path.dirname(os.path.dirname(os.path.dirname(os.path.abspath(__file__))))


def run_dir():
    d = os.environ.get("XRMC_RUN_DIR")
    if not d:
        d = os.path.join(VERIF, ".xrmc_tmp", "adhoc_%d" % os.getpid())
        os.environ["XRMC_RUN_DIR"] = d
    os.makedirs(d, exist_ok=True)
    return d


def child_env(extra=None):
    env = dict(os.environ)
    root = os.path.realpath(env.get("XRMC_REPO", "/repo"))
    env["PYTHONPATH"] = os.pathsep.join([root, VERIF])
    env["PYTHONHASHSEED"] = "0"
    env["NUMBA_DISABLE_JIT"] = "0"
    env["PYTHONWARNINGS"] = "ignore"
    for k in ("OMP_NUM_THREADS", "OPENBLAS_NUM_THREADS", "MKL_NUM_THREADS"):
        env[k] = "1"
    if extra:
        env.update(extra)
    return env


def compute_many(tier, letter_list, extra_env=None, timeout=1800):
    """spawn ONE fresh interpreter running the letters in order -> list of dicts"""
    r = subprocess.run([sys.executable, "-m", "xrmc.history.fresh", tier] + list(letter_list), capture_output=True,
                       text=True, env=child_env(extra_env), cwd=VERIF, timeout=timeout)
    out = [json.loads(line) for line in r.stdout.splitlines() if line.startswith("{")]
    if len(out) != len(letter_list):
        raise RuntimeError("fresh interpreter for %r failed: rc=%s\n%s" % (letter_list, r.returncode, r.stderr[-1500:]))
    return out


def compute(tier, letter, extra_env=None, timeout=900):
    """spawn a fresh interpreter for one letter -> dict"""
    return compute_many(tier, [letter], extra_env, timeout)[0]


def get(tier, letter):
    """cached per run (XRMC_RUN_DIR); computed on demand when missing (e.g. ./check --replay)."""
    path = os.path.join(run_dir(), "fresh_%s_%s.json" % (tier, letter.replace("/", "_")))
    if os.path.exists(path):
        with open(path) as f:
            return json.load(f)
    res = compute(tier, letter)
    tmp = path + ".%d.tmp" % os.getpid()
    with open(tmp, "w") as f:
        json.dump(res, f)
    os.replace(tmp, path)
    return res


def main(argv):
    import warnings
    warnings.filterwarnings("ignore")
    tier, names = argv[0], argv[1:]
    import dask
    sched = os.environ.get("XRMC_DASK", "synchronous")
    if ":" in sched:
        kind, n = sched.split(":")
        dask.config.set(scheduler=kind, num_workers=int(n))
    else:
        dask.config.set(scheduler=sched)
    import xrspatial
    root = os.path.realpath(os.environ.get("XRMC_REPO", "/repo"))
    assert os.path.realpath(xrspatial.__file__).startswith(root + os.sep), (xrspatial.__file__, root)
    from . import letters, state
    L = letters.build_letters(tier)
    for name in names:
        fn = L[name][0]
        v0 = state.vector()
        t0 = time.time()
        try:
            d1 = letters.result_digest(fn())
            err = None
        except Exception as e:
            d1, err = "EXC:%s" % type(e).__name__, repr(e)[:300]
        t1 = time.time() - t0
        v1 = state.vector()
        try:
            d2 = letters.result_digest(fn())
        except Exception as e:
            d2 = "EXC:%s" % type(e).__name__
        v2 = state.vector()
        print(json.dumps(dict(letter=name, digest=d1, digest_repeat=d2, error=err, first_call_s=round(t1, 3),
                              stable_changes=state.stable_diff(v0, v1) + state.stable_diff(v1, v2),
                              rng_changed=v0["rng"] != v1["rng"])), flush=True)


if __name__ == "__main__":
    main(sys.argv[1:])
