"""Alphabet of closed public calls for the history explorer (engine E2).

Every letter builds its inputs from literals (fresh arrays on every invocation) and returns the call's result.
Letters are chosen to COLLIDE: the same function with different targets / max_distance / metric / mode /
kernel shape / k / dtype / backend, so that any state kept between calls (closure caches, specialisation tables,
mutable defaults, module tables, RNG) would be hit by a neighbour in the history."""
import numpy as np


def _base(shape=(5, 6), dtype="f8"):
    h, w = shape
    i, j = np.meshgrid(np.arange(h), np.arange(w), indexing="ij")
    a = 10.0 * np.sin(1.7 * i + 0.3) + 7.0 * np.cos(2.3 * j + 1.1) + 0.37 * i * j
    if np.dtype(dtype).kind in "iu":
        a = np.round(np.abs(a))
    return a.astype(dtype)


def _targets(dtype="f8"):
    a = np.zeros((5, 6), dtype=dtype)
    a[0, 4] = 2
    a[3, 1] = 3
    a[4, 5] = 2
    return a


def _zones():
    return np.array([[1, 1, 2, 2, 3, 3], [1, 2, 2, 3, 3, 3], [1, 1, 2, 2, 2, 3], [4, 4, 1, 1, 2, 3], [4, 4, 4, 1, 1, 3]], dtype="i8")


def _cats():
    return (_zones().T.reshape(5, 6) * 7 % 3).astype("f8")


def _da(a, chunks=None, dims=("y", "x"), attrs=None):
    import xarray as xr
    h, w = a.shape[-2:]
    data = a
    if chunks is not None:
        import dask.array as da
        data = da.from_array(a, chunks=chunks)
    return xr.DataArray(data, dims=dims, coords={dims[-2]: 4.0 - np.arange(h), dims[-1]: 0.5 * np.arange(w)},
                        attrs=dict(attrs or {}))


def _fin(r):
    """materialise lazy results."""
    if hasattr(r, "compute"):
        return r.compute()          # scheduler comes from dask.config (synchronous unless a grid run says otherwise)
    return r


def build_letters(tier="quick", dry=False):
    """dry=True: only the names/flags are wanted (no xrspatial import; the lambdas are never called)."""
    if not dry:
        import xarray as xr
        import xrspatial as xs
        from xrspatial import classify, convolution, focal, local, multispectral as ms, zonal
        from xrspatial.experimental import polygonize
        from xrspatial.utils import ngjit
    else:
        def ngjit(f):
            return f

    k33 = np.ones((3, 3))
    k35 = np.array([[1, 0, 1, 1, 0], [0, 1, 1, 0, 1], [1, 1, 0, 1, 1.0]])

    @ngjit
    def red_range(kv):
        return np.nanmax(kv) - np.nanmin(kv)

    @ngjit
    def red_sumsq(kv):
        return np.nansum(kv * kv)

    CH = ((2, 3), (3, 3))
    L = {}

    def add(name, fn, core=False, quick=True):
        L[name] = (fn, core, quick)

    # --- proximity family: per-call closures, mutable default target_values=[] ------------------
    add("proximity", lambda: xs.proximity(_da(_targets())), core=True)
    add("proximity_md1.5", lambda: xs.proximity(_da(_targets()), max_distance=1.5), core=True)
    add("proximity_tv2", lambda: xs.proximity(_da(_targets()), target_values=[2]), core=True)
    add("proximity_manhattan", lambda: xs.proximity(_da(_targets()), distance_metric="MANHATTAN"), quick=False)
    add("allocation", lambda: xs.allocation(_da(_targets())), core=True)
    add("direction", lambda: xs.direction(_da(_targets())), quick=False)
    add("proximity_i4", lambda: xs.proximity(_da(_targets("i4"))), quick=False)
    add("proximity_dask_md1.5", lambda: _fin(xs.proximity(_da(_targets(), CH), max_distance=1.5)))
    add("direction_md2_tv3", lambda: xs.direction(_da(_targets()), max_distance=2.0, target_values=[3]), quick=False)
    add("allocation_great_circle", lambda: xs.allocation(_da(_targets()), distance_metric="GREAT_CIRCLE"), quick=False)
    # --- focal: kernel shapes, reducers, mutable default excludes=[nan] -------------------------
    add("apply_3x3", lambda: focal.apply(_da(_base()), k33), core=True)
    add("apply_3x5_range", lambda: focal.apply(_da(_base()), k35, red_range), core=True)
    add("apply_3x3_sumsq_i4", lambda: focal.apply(_da(_base(dtype="i4")), k33, red_sumsq), quick=False)
    add("mean_default", lambda: focal.mean(_da(_base())), core=True)
    add("mean_p2_excl0", lambda: focal.mean(_da(np.where(_base() > 8, 0.0, _base())), passes=2, excludes=[0]), quick=False)
    add("focal_stats_default", lambda: focal.focal_stats(_da(_base()), k33))
    add("focal_stats_max", lambda: focal.focal_stats(_da(_base()), k35, stats_funcs=["max"]), quick=False)
    add("focal_stats_dup_names", lambda: focal.focal_stats(_da(_base()), k33, stats_funcs=["mean", "max", "sum", "mean", "range"]))
    add("hotspots_3x3", lambda: focal.hotspots(_da(_base()), k33))
    add("hotspots_3x5_dask", lambda: _fin(focal.hotspots(_da(_base(), CH), k35)), quick=False)
    add("convolution_3x5", lambda: convolution.convolution_2d(_da(_base()), k35 * 0.25), quick=False)
    # --- zonal -------------------------------------------------------------------------------------
    add("stats_default", lambda: zonal.stats(_da(_zones()), _da(_base())), core=True)
    add("stats_custom", lambda: zonal.stats(_da(_zones()), _da(_base()), stats_funcs={"rng": lambda z: z.max() - z.min()}), quick=False)
    add("stats_ids_nodata", lambda: zonal.stats(_da(_zones()), _da(np.round(_base())), zone_ids=[3, 1], nodata_values=7), quick=False)
    add("stats_dask", lambda: _fin(zonal.stats(_da(_zones(), CH), _da(_base(), CH))), quick=False)
    add("crosstab", lambda: zonal.crosstab(_da(_zones()), _da(_cats())))
    add("crosstab_pct_ids", lambda: zonal.crosstab(_da(_zones()), _da(_cats()), zone_ids=[1, 3], agg="percentage"), quick=False)
    add("crosstab_dask", lambda: _fin(zonal.crosstab(_da(_zones(), CH), _da(_cats(), CH))), quick=False)
    add("regions_4", lambda: zonal.regions(_da(_zones().astype("f8")), neighborhood=4))
    add("regions_8", lambda: zonal.regions(_da(_zones().astype("f8")), neighborhood=8), quick=False)
    # --- classify: k / bin counts ------------------------------------------------------------------
    add("reclassify_3", lambda: classify.reclassify(_da(_base()), bins=[-5, 0, 20], new_values=[1, 2, 3]), core=True)
    add("reclassify_5", lambda: classify.reclassify(_da(_base()), bins=[-9, -5, 0, 5, 20], new_values=[1, 2, 3, 4, 5]), quick=False)
    add("quantile_3", lambda: classify.quantile(_da(_base()), k=3), quick=False)
    add("natural_breaks_3", lambda: classify.natural_breaks(_da(_base()), k=3), quick=False)
    add("natural_breaks_5", lambda: classify.natural_breaks(_da(_base()), k=5), quick=False)
    # sub-sampling branch (num_sample < size) draws from an RNG: must be a function of the arguments only
    add("natural_breaks_sample12_k3", lambda: classify.natural_breaks(_da(_base()), num_sample=12, k=3))
    add("natural_breaks_sample20_k4", lambda: classify.natural_breaks(_da(_base()), num_sample=20, k=4))
    add("equal_interval_3", lambda: classify.equal_interval(_da(_base()), k=3))
    add("equal_interval_5", lambda: classify.equal_interval(_da(_base()), k=5), quick=False)
    add("binary", lambda: classify.binary(_da(np.round(_base())), [1, 3, 7]), quick=False)
    # --- polygonize: type-based comparison generation ----------------------------------------------
    add("polygonize_int", lambda: polygonize(_da(_zones())))
    add("polygonize_float_c8", lambda: polygonize(_da(_zones().astype("f8") * 0.5), connectivity=8), quick=False)
    add("polygonize_mask", lambda: polygonize(_da(_zones()), mask=_da((_zones() != 2))), quick=False)
    # --- generators (global RNG) -------------------------------------------------------------------
    add("perlin_s5", lambda: xs.perlin(_da(np.zeros((5, 6)))), core=True)
    add("perlin_s6", lambda: xs.perlin(_da(np.zeros((5, 6))), seed=6))
    add("perlin_s0", lambda: xs.perlin(_da(np.zeros((5, 6))), seed=0))                     # parameter at its boundary value
    add("terrain_s0", lambda: xs.generate_terrain(_da(np.zeros((5, 6))), seed=0), quick=False)
    add("generate_terrain", lambda: xs.generate_terrain(_da(np.zeros((5, 6)))), quick=False)
    # seeded generators are functions of seed, shape AND extent: same shape, different windows of one full extent
    add("terrain_full_extent_ne", lambda: xs.generate_terrain(_da(np.zeros((5, 6))), x_range=(250, 500), y_range=(250, 500),
                                                               full_extent=(0, 0, 500, 500)))
    add("terrain_full_extent_sw", lambda: xs.generate_terrain(_da(np.zeros((5, 6))), x_range=(0, 250), y_range=(0, 250),
                                                               full_extent=(0, 0, 500, 500), seed=10))
    add("terrain_seed3_dask", lambda: _fin(xs.generate_terrain(_da(np.zeros((5, 6)), CH), seed=3)), quick=False)
    add("perlin_freq23", lambda: xs.perlin(_da(np.zeros((5, 6))), freq=(2, 3)), quick=False)
    # --- pathfinding / viewshed --------------------------------------------------------------------
    add("a_star_8", lambda: xs.a_star_search(_da(np.abs(_base()) + 1), (4.0, 0.0), (0.0, 2.5), barriers=[]), quick=False)
    add("a_star_4_barriers", lambda: xs.a_star_search(_da(np.round(np.abs(_base()))), (4.0, 0.0), (0.0, 2.5), barriers=[3.0],
                                                       connectivity=4, snap_start=True, snap_goal=True), quick=False)
    add("viewshed", lambda: xs.viewshed(_da(np.abs(_base())), x=1.0, y=2.0, observer_elev=3), quick=False)
    # --- terrain ops: dtype / backend specialisations ----------------------------------------------
    add("slope_f4", lambda: xs.slope(_da(_base(dtype="f4"))), quick=False)
    add("slope_i4", lambda: xs.slope(_da(_base(dtype="i4"))), core=True)
    add("slope_dask", lambda: _fin(xs.slope(_da(_base(), CH))), quick=False)
    add("aspect_f8", lambda: xs.aspect(_da(_base())), quick=False)
    add("curvature_i4", lambda: xs.curvature(_da(_base(dtype="i4"))), quick=False)
    add("hillshade", lambda: xs.hillshade(_da(_base())), quick=False)
    add("ndvi_f4", lambda: ms.ndvi(_da(_base(dtype="f4")), _da(_base(dtype="f4").T.reshape(5, 6).copy())))
    add("ndvi_u1", lambda: ms.ndvi(_da(_base(dtype="u1")), _da(_base(dtype="u1")[::-1].copy())), quick=False)
    add("evi", lambda: ms.evi(_da(_base()), _da(_base()[::-1].copy()), _da(_base()[:, ::-1].copy())), quick=False)
    # --- local ---------------------------------------------------------------------------------------

    def _ds():
        return xr.Dataset({"a": _da(np.round(_base())), "b": _da(np.round(_base()[::-1]).copy()),
                           "c": _da(np.round(_base()[:, ::-1]).copy())})
    add("local_cell_stats", lambda: local.cell_stats(_ds(), func="max"), quick=False)
    add("local_combine", lambda: local.combine(_ds()), quick=False)
    add("local_rank", lambda: local.rank(xr.merge([_ds(), (_da(_zones() % 3 + 1)).rename("ref")]), "ref"), quick=False)

    if tier == "quick":
        return {k: (f, c) for k, (f, c, q) in L.items() if q}
    return {k: (f, c) for k, (f, c, q) in L.items()}


def letter_names(tier="quick"):
    """(all names, core names) without importing xrspatial."""
    L = build_letters(tier, dry=True)
    return list(L), [k for k, (f, c) in L.items() if c]


def result_digest(r):
    """digest of a result; a DataArray's `name` is left out (Dask-backed results inherit the graph token as name)."""
    import xarray as xr
    from ..core.digest import digest
    if isinstance(r, tuple):
        r = list(r)
    if isinstance(r, xr.DataArray):
        r = r.rename(None)
    return digest(r)
