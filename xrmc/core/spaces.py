"""Finite spaces with rank/unrank bijections (engine E1).

Everything here is pure combinatorics: no numpy arrays are built until a check asks
for one, and every space is enumerated by integer rank so that it can be cut into
index ranges for worker processes and so that a single case is replayable by rank.
"""
import itertools
from functools import lru_cache


def unrank_product(rank, radices):
    """Mixed-radix digits of `rank`, least significant digit LAST (like itertools.product)."""
    digits = [0] * len(radices)
    for i in range(len(radices) - 1, -1, -1):
        r = radices[i]
        digits[i] = rank % r
        rank //= r
    if rank:
        raise IndexError("rank out of range for product space")
    return digits


def rank_product(digits, radices):
    rank = 0
    for d, r in zip(digits, radices):
        if not 0 <= d < r:
            raise ValueError("digit out of range")
        rank = rank * r + d
    return rank


def product_size(radices):
    n = 1
    for r in radices:
        n *= r
    return n


def grid_letters(rank, ncells, nletters):
    """Letters (indices into an alphabet) of the rank-th grid with `ncells` cells."""
    return unrank_product(rank, [nletters] * ncells)


@lru_cache(maxsize=None)
def compositions(n):
    """All ordered tuples of positive ints summing to n (= all chunkings of an axis of length n).
    Order: by number of parts, then lexicographic; the single chunk (n,) comes first."""
    if n == 0:
        return ((),)
    out = []
    for mask in range(2 ** (n - 1)):
        parts = []
        run = 1
        for i in range(n - 1):
            if mask >> i & 1:
                parts.append(run)
                run = 1
            else:
                run += 1
        parts.append(run)
        out.append(tuple(parts))
    out.sort(key=lambda p: (len(p), p))
    return tuple(out)


def chunkings(h, w):
    """All (row_chunks, col_chunks) pairs for an h x w raster."""
    return [(a, b) for a in compositions(h) for b in compositions(w)]


def ordered_sublists(items, maxlen, minlen=0):
    """All ordered selections without repetition of length minlen..maxlen."""
    out = []
    for k in range(minlen, maxlen + 1):
        out.extend(itertools.permutations(items, k))
    return out


def subsets(items, minlen=0, maxlen=None):
    items = list(items)
    if maxlen is None:
        maxlen = len(items)
    out = []
    for k in range(minlen, maxlen + 1):
        out.extend(itertools.combinations(items, k))
    return out


def placements(ncells, k):
    """All k-subsets of cell indices (deviation placements)."""
    return list(itertools.combinations(range(ncells), k))


class SumSpace:
    """Disjoint union of (name, size) parts with global rank <-> (part, local rank)."""

    def __init__(self, parts):
        self.parts = list(parts)
        self.offsets = []
        off = 0
        for _, size in self.parts:
            self.offsets.append(off)
            off += size
        self.size = off

    def locate(self, rank):
        if not 0 <= rank < self.size:
            raise IndexError(rank)
        lo, hi = 0, len(self.parts) - 1
        while lo < hi:
            mid = (lo + hi + 1) // 2
            if self.offsets[mid] <= rank:
                lo = mid
            else:
                hi = mid - 1
        return lo, rank - self.offsets[lo]


def selftest():
    # rank/unrank bijection
    rad = [3, 1, 4, 2]
    seen = set()
    for r in range(product_size(rad)):
        d = unrank_product(r, rad)
        assert rank_product(d, rad) == r
        seen.add(tuple(d))
    assert len(seen) == product_size(rad)
    assert [tuple(unrank_product(r, [2, 2])) for r in range(4)] == list(itertools.product(range(2), repeat=2))
    for n in range(1, 8):
        cs = compositions(n)
        assert len(cs) == 2 ** (n - 1) and len(set(cs)) == len(cs)
        assert all(sum(c) == n and min(c) >= 1 for c in cs)
        assert cs[0] == (n,)
    assert len(chunkings(4, 5)) == 8 * 16
    assert len(ordered_sublists([1, 2, 3], 2)) == 1 + 3 + 6
    s = SumSpace([("a", 3), ("b", 0), ("c", 5)])
    assert s.size == 8
    got = [s.locate(i) for i in range(8)]
    assert got == [(0, 0), (0, 1), (0, 2), (2, 0), (2, 1), (2, 2), (2, 3), (2, 4)]
    return True
