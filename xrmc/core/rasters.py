"""Helpers to build the rasters the checks feed to the public API."""
import numpy as np
import xarray as xr

from .spaces import unrank_product


def grid(rank, shape, alphabet, dtype=None):
    """rank-th grid of `shape` over `alphabet` (row-major, last cell varies fastest)."""
    n = shape[0] * shape[1]
    letters = unrank_product(rank, [len(alphabet)] * n)
    a = np.array([alphabet[i] for i in letters], dtype=dtype if dtype is not None else float)
    return a.reshape(shape)


def dataarray(arr, ys=None, xs=None, dims=("y", "x"), attrs=None, name=None, chunks=None, extra_coords=None):
    """DataArray with explicit coordinates (default: unit-spaced, y ascending from 0)."""
    h, w = arr.shape[-2:]
    if ys is None:
        ys = np.arange(h, dtype=float)
    if xs is None:
        xs = np.arange(w, dtype=float)
    data = arr
    if chunks is not None:
        import dask.array as da
        data = da.from_array(arr, chunks=chunks)
    coords = {dims[-2]: np.asarray(ys, dtype=float), dims[-1]: np.asarray(xs, dtype=float)}
    if extra_coords:
        coords.update(extra_coords)
    return xr.DataArray(data, dims=dims, coords=coords, attrs=dict(attrs or {}), name=name)


# two fixed generic rasters: all cells distinct, no accidental symmetry or arithmetic progression
def generic(shape, variant=0, dtype=np.float64):
    h, w = shape
    i, j = np.meshgrid(np.arange(h), np.arange(w), indexing="ij")
    if variant == 0:
        a = 10.0 * np.sin(1.7 * i + 0.3) + 7.0 * np.cos(2.3 * j + 1.1) + 0.37 * i * j + 1.0 / (1 + i + 2 * j)
    else:
        a = (i * 7 + j * 13) % 11 + 0.5 * np.sqrt(2.0 + i) * (j + 1) - 3.0 * ((i + 2 * j) % 3)
    if np.issubdtype(np.dtype(dtype), np.integer):
        a = np.round(a * 3).astype(dtype)
    return a.astype(dtype)


def same(a, b, rtol=0.0, atol=0.0):
    """NaN-aware comparison; exact (bitwise on values, NaN == NaN) when rtol=atol=0."""
    a = np.asarray(a)
    b = np.asarray(b)
    if a.shape != b.shape:
        return False
    if a.dtype.kind in "fc" or b.dtype.kind in "fc":
        na, nb = np.isnan(a), np.isnan(b)
        if not np.array_equal(na, nb):
            return False
        if rtol == 0 and atol == 0:
            return bool(np.array_equal(a[~na], b[~nb]))
        x, y = a[~na].astype(float), b[~nb].astype(float)
        inf = np.isinf(x) | np.isinf(y)
        if not np.array_equal(x[inf], y[inf]):
            return False
        return bool(np.all(np.abs(x[~inf] - y[~inf]) <= atol + rtol * np.abs(y[~inf])))
    return bool(np.array_equal(a, b))
