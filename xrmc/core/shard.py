"""Per-shard accumulator handed to Space.run(); merged by the runner."""
import json

import numpy as np

from .digest import digest64

MAX_VIOL_PER_SHARD = 5
MAX_SAMPLES_PER_SHARD = 2
OUTCOME_CAP = 400_000


def jsonable(o):
    """Best-effort conversion of cases (arrays, tuples, numpy scalars, NaN) to JSON-able objects."""
    if o is None or isinstance(o, (bool, str)):
        return o
    if isinstance(o, (int, np.integer)):
        return int(o)
    if isinstance(o, (float, np.floating)):
        f = float(o)
        if f != f:
            return "nan"
        if f in (float("inf"), float("-inf")):
            return "inf" if f > 0 else "-inf"
        return f
    if isinstance(o, np.ndarray):
        return {"__ndarray__": jsonable(o.tolist()), "dtype": str(o.dtype), "shape": list(o.shape)}
    if isinstance(o, dict):
        return {str(k): jsonable(v) for k, v in o.items()}
    if isinstance(o, (list, tuple, set, frozenset)):
        return [jsonable(v) for v in o]
    if isinstance(o, (np.bool_,)):
        return bool(o)
    try:
        import pandas as pd
        if isinstance(o, pd.DataFrame):
            return {"__dataframe__": jsonable(o.reset_index().to_dict(orient="list"))}
    except Exception:
        pass
    try:
        import xarray as xr
        if isinstance(o, xr.DataArray):
            return {"__dataarray__": jsonable(np.asarray(o.values)),
                    "coords": {str(k): jsonable(np.asarray(v.values)) for k, v in o.coords.items()},
                    "attrs": jsonable(dict(o.attrs)), "dims": list(map(str, o.dims))}
    except Exception:
        pass
    return repr(o)


def from_jsonable(o):
    """Inverse of `jsonable` for the scalar / list / ndarray subset (used by replay payloads)."""
    if isinstance(o, str):
        if o == "nan":
            return float("nan")
        if o == "inf":
            return float("inf")
        if o == "-inf":
            return float("-inf")
        return o
    if isinstance(o, list):
        return [from_jsonable(v) for v in o]
    if isinstance(o, dict):
        if "__ndarray__" in o:
            return np.array(from_jsonable(o["__ndarray__"]), dtype=o["dtype"]).reshape(o["shape"])
        return {k: from_jsonable(v) for k, v in o.items()}
    return o


class Shard:
    """Counters and findings of one index range of one space.

    evaluations       cases generated (one per explored configuration)
    transitions       implementation calls / task executions
    validated         definite reference predictions compared with the implementation
    ties              comparisons skipped by the tie rule
    outcomes          set of 64-bit digests of observed outputs (distinct outcomes)
    nontrivial        set of 64-bit digests of non-trivial cases (rule stated by the check)
    """

    def __init__(self, space_name, lo, hi, known_keys=(), known_sigs=()):
        self.space = space_name
        self._known_keys = frozenset(known_keys)
        self._known_sigs = frozenset(known_sigs)
        self.known_hits = {}
        self.viol_classes = {}
        self.lo, self.hi = lo, hi
        self.evaluations = 0
        self.transitions = 0
        self.validated = 0
        self.ties = 0
        self.outcomes = set()
        self.nontrivial = set()
        self.outcomes_capped = False
        self.violations = []
        self.n_violations = 0
        self.samples = []
        self.counters = {}
        self.notes = []
        self.wall = 0.0

    # ---- counting -------------------------------------------------------------------------
    def case(self, outcome=None, nontrivial=True, case_id=None, calls=1):
        """Register one explored case. `outcome` is hashed into the distinct-outcome set;
        a non-trivial case adds its digest (outcome + case id when given) to `nontrivial`."""
        self.evaluations += 1
        self.transitions += calls
        if outcome is not None:
            d = outcome if isinstance(outcome, int) else digest64(outcome)
            if len(self.outcomes) < OUTCOME_CAP:
                self.outcomes.add(d)
            else:
                self.outcomes_capped = True
            if nontrivial:
                if len(self.nontrivial) < OUTCOME_CAP:
                    self.nontrivial.add(d if case_id is None else digest64((case_id, d)))
                else:
                    self.outcomes_capped = True
        elif nontrivial and case_id is not None:
            if len(self.nontrivial) < OUTCOME_CAP:
                self.nontrivial.add(digest64(case_id))

    def ok(self, n=1):
        self.validated += n

    def tie(self, n=1):
        self.ties += n

    def calls(self, n=1):
        self.transitions += n

    def count(self, key, n=1):
        self.counters[key] = self.counters.get(key, 0) + n

    def note(self, text):
        if text not in self.notes and len(self.notes) < 20:
            self.notes.append(text)

    def sample(self, obj):
        if len(self.samples) < MAX_SAMPLES_PER_SHARD:
            self.samples.append(jsonable(obj))

    def want_sample(self):
        return len(self.samples) < MAX_SAMPLES_PER_SHARD

    # ---- findings -------------------------------------------------------------------------
    def violation(self, rank, key, message, case=None, sig=None, observed=None, expected=None):
        """Report a property violation.

        rank     rank of the failing case inside this space (replay handle)
        key      stable, input-specific identity of the failing case (matched against known findings)
        sig      optional call-site signature for defects that fail on every input of a call site
        """
        key = str(key)
        if key in self._known_keys or (sig is not None and sig in self._known_sigs):
            k = key if key in self._known_keys else sig
            self.known_hits[k] = self.known_hits.get(k, 0) + 1
            return
        self.n_violations += 1
        cls = sig if sig is not None else "|".join(key.split("|")[:2])
        self.viol_classes[cls] = self.viol_classes.get(cls, 0) + 1
        if self.viol_classes[cls] <= 2 and len(self.violations) < 4 * MAX_VIOL_PER_SHARD:
            self.violations.append({
                "space": self.space, "rank": int(rank), "shard_lo": int(self.lo), "key": str(key), "sig": sig,
                "message": str(message)[:2000],
                "case": jsonable(case), "observed": jsonable(observed), "expected": jsonable(expected),
            })

    def to_dict(self):
        d = {k: v for k, v in self.__dict__.items() if not k.startswith("_")}
        return d


def dumps(o):
    return json.dumps(o, indent=1, sort_keys=False, default=repr)
