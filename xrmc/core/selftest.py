"""Framework self-test (MANIFEST.setup_cmd): space bijections, digest determinism, shard/known-finding
bookkeeping, replay determinism of the runner on a toy space, evidence schema validation."""
import json
import os
import sys
import tempfile

import numpy as np

from . import spaces
from .digest import digest
from .shard import Shard, from_jsonable, jsonable


def main():
    spaces.selftest()
    a = np.array([[1.0, np.nan], [np.inf, -0.0]])
    assert digest(a) == digest(a.copy()) and digest(a) != digest(a.T.copy())
    assert digest({"b": 1, "a": [a]}) == digest({"a": [a], "b": 1})
    back = from_jsonable(json.loads(json.dumps(jsonable(a))))
    assert np.array_equal(back, a, equal_nan=True)
    s = Shard("t", 0, 4, known_keys={"k1"}, known_sigs={"s1"})
    s.violation(0, "k1", "known by key")
    s.violation(1, "k2", "known by sig", sig="s1")
    s.violation(2, "k3", "new")
    assert s.n_violations == 1 and s.known_hits == {"k1": 1, "s1": 1} and s.violations[0]["key"] == "k3"
    # schedule-explorer determinism: same choice sequence twice => identical observations
    from ..sched import dask_explorer, interleave, parallel_gate
    from ..history import sequences
    dask_explorer.selftest()
    sequences.selftest()
    interleave.selftest()
    parallel_gate.selftest()
    print("xrmc selftest ok")
    return 0


if __name__ == "__main__":
    sys.exit(main())
