"""Space = finite, ranked set of cases + a driver that runs a rank range on the real code."""


class Space:
    name = ""
    mode = "jit"        # 'jit' (compiled numba kernels) or 'interp' (NUMBA_DISABLE_JIT=1, same sources)
    size = 0
    grain = None        # cases per shard (None: chosen by the runner)
    weight = 1.0        # relative cost per case (only used to order shards: heavy first)

    def setup(self):
        """Called once per worker process before the first run() of this space (imports, JIT warm-up)."""

    def run(self, lo, hi, out):
        raise NotImplementedError

    def describe(self, rank):
        return {"space": self.name, "rank": rank}


class FnSpace(Space):
    """Space whose cases are handled one at a time by fn(rank, out, ctx)."""

    def __init__(self, name, size, fn, mode="jit", grain=None, setup=None, weight=1.0, describe=None):
        self.name, self.size, self.fn, self.mode, self.grain = name, int(size), fn, mode, grain
        self._setup, self.weight, self._describe = setup, weight, describe
        self.ctx = None

    def setup(self):
        self.ctx = self._setup() if self._setup else None

    def run(self, lo, hi, out):
        fn, ctx = self.fn, self.ctx
        for rank in range(lo, hi):
            fn(rank, out, ctx)

    def describe(self, rank):
        if self._describe:
            return self._describe(rank)
        return {"space": self.name, "rank": rank}
