"""known_findings.json: genuine defects recorded (not repaired) + defects repaired by fix: commits.

The file is committed and NEVER written at run time.  A `findings` entry suppresses exactly
the violations whose input-specific `key` (or, for call-site defects that fail on every input,
whose `sig`) it lists; a `fixed` entry suppresses nothing.
"""
import json
import os

ROOT = os.path.dirname(os.path.dirname(os.path.dirname(os.path.abspath(__file__))))
PATH = os.path.join(ROOT, "known_findings.json")


def load_all():
    if not os.path.exists(PATH):
        return {"findings": [], "fixed": []}
    with open(PATH) as f:
        return json.load(f)


def load(prop):
    """-> (keys: dict key->entry, sigs: dict sig->entry) for one property."""
    data = load_all()
    keys, sigs = {}, {}
    for e in data.get("findings", []):
        if e.get("property") != prop:
            continue
        for k in e.get("keys", []):
            keys[k] = e
        if e.get("keys_file"):
            with open(os.path.join(ROOT, e["keys_file"])) as f:
                for k in json.load(f):
                    keys[k] = e
        for s in e.get("sigs", []):
            sigs[s] = e
    return keys, sigs
