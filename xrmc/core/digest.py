"""Canonical digests of results / states (numpy, pandas, xarray, dask, containers)."""
import hashlib
import struct

import numpy as np


def _upd_array(h, x):
    x = np.asarray(x)
    h.update(b"A" + str(x.dtype).encode() + str(x.shape).encode())
    if x.dtype == object:
        h.update(repr(x.tolist()).encode())
    else:
        h.update(np.ascontiguousarray(x).tobytes())


def update(h, v):
    import pandas as pd
    import xarray as xr
    try:
        import dask.array as da
    except Exception:  # pragma: no cover
        da = None
    if v is None:
        h.update(b"N")
    elif isinstance(v, (bool, np.bool_)):
        h.update(b"b1" if v else b"b0")
    elif isinstance(v, (int, np.integer)):
        h.update(b"i" + str(int(v)).encode())
    elif isinstance(v, (float, np.floating)):
        h.update(b"f" + struct.pack("<d", float(v)))
    elif isinstance(v, str):
        h.update(b"s" + v.encode())
    elif isinstance(v, bytes):
        h.update(b"y" + v)
    elif isinstance(v, np.ndarray):
        _upd_array(h, v)
    elif da is not None and isinstance(v, da.Array):
        h.update(b"D" + repr(v.chunks).encode())
        _upd_array(h, v.compute(scheduler="synchronous"))
    elif isinstance(v, xr.DataArray):
        h.update(b"X" + repr(v.dims).encode() + repr(v.name).encode())
        update(h, v.data)
        for c in sorted(v.coords, key=str):
            h.update(b"c" + str(c).encode() + repr(v.coords[c].dims).encode())
            _upd_array(h, v.coords[c].values)
        update(h, dict(v.attrs))
    elif isinstance(v, xr.Dataset):
        h.update(b"XS")
        for k in v.data_vars:
            h.update(str(k).encode())
            update(h, v[k])
        update(h, dict(v.attrs))
    elif isinstance(v, pd.DataFrame):
        h.update(b"F" + repr(list(v.columns)).encode() + repr(list(v.index)).encode())
        for c in v.columns:
            _upd_array(h, v[c].to_numpy())
    elif isinstance(v, pd.Series):
        h.update(b"S" + repr(list(v.index)).encode())
        _upd_array(h, v.to_numpy())
    elif isinstance(v, dict):
        h.update(b"{")
        for k in sorted(v, key=repr):
            h.update(repr(k).encode())
            update(h, v[k])
        h.update(b"}")
    elif isinstance(v, (list, tuple)):
        h.update(b"[" if isinstance(v, list) else b"(")
        for i in v:
            update(h, i)
        h.update(b"]")
    elif isinstance(v, (set, frozenset)):
        h.update(b"<")
        for i in sorted(v, key=repr):
            update(h, i)
        h.update(b">")
    elif callable(v):
        h.update(b"callable:" + getattr(v, "__qualname__", type(v).__name__).encode())
    else:
        if hasattr(v, "compute") and hasattr(v, "__dask_graph__"):
            update(h, v.compute(scheduler="synchronous"))
        else:
            h.update(b"r" + repr(v).encode())


def digest(v):
    h = hashlib.blake2b(digest_size=16)
    update(h, v)
    return h.hexdigest()


def digest64(v):
    """64-bit integer digest (for distinct-outcome sets)."""
    h = hashlib.blake2b(digest_size=8)
    update(h, v)
    return int.from_bytes(h.digest(), "little")


def bytes64(b):
    return int.from_bytes(hashlib.blake2b(b, digest_size=8).digest(), "little")
