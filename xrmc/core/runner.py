"""Shard runner: cuts every space of a check into index ranges, explores all of them in spawned
worker processes (fresh interpreters with a fixed environment), merges the shard reports,
re-executes every reported violation twice from its replay handle, writes evidence."""
import argparse
import hashlib
import importlib
import json
import multiprocessing as mp
import os
import random
import shutil
import subprocess
import sys
import threading
import time
import traceback

from . import findings as findings_mod
from .shard import Shard, dumps, jsonable

VERIF = os.path.dirname(os.path.dirname(os.path.dirname(os.path.abspath(__file__))))
EVIDENCE_DIR = os.path.join(VERIF, "evidence")
REPLAY_DIR = os.path.join(VERIF, "replays")
MAX_REPORTED = 6
GLOBAL_OUTCOME_CAP = 3_000_000


def repo_root():
    return os.path.realpath(os.environ.get("XRMC_REPO", "/repo"))


def check_module(prop):
    return importlib.import_module("xrmc.checks.%s" % prop.lower())


# ------------------------------------------------------------------------------------------------
# worker side
# ------------------------------------------------------------------------------------------------
_W = {}


def _worker_init(prop, tier, root, mode):
    # An exception escaping a Pool initializer makes the pool respawn workers forever: trap it and
    # surface it as a harness error from the first task instead.
    try:
        _worker_init_inner(prop, tier, root, mode)
    except BaseException:
        _W["init_error"] = traceback.format_exc()


def _worker_init_inner(prop, tier, root, mode):
    import warnings
    warnings.filterwarnings("ignore")
    # spawn copies the parent's sys.path into the child, so PYTHONPATH alone does not decide which
    # tree is imported: put the tree under test first explicitly (PathFinder precedes the editable finder).
    for p in (VERIF, root):
        while p in sys.path:
            sys.path.remove(p)
        sys.path.insert(0, p)
    assert "numba" not in sys.modules, "numba imported before the worker could select its mode"
    os.environ["NUMBA_DISABLE_JIT"] = "1" if mode == "interp" else "0"
    os.environ["PYTHONWARNINGS"] = "ignore"
    for k in ("OMP_NUM_THREADS", "OPENBLAS_NUM_THREADS", "MKL_NUM_THREADS"):
        os.environ[k] = "1"
    os.environ["PYTHONPATH"] = os.pathsep.join([root, VERIF])      # for grandchildren (fresh-interpreter oracle)
    assert os.environ.get("PYTHONHASHSEED") == "0", "run through ./check (PYTHONHASHSEED=0 must be set at interpreter start)"
    try:
        import dask
        dask.config.set(scheduler="synchronous")
    except Exception:
        pass
    import xrspatial
    here = os.path.realpath(xrspatial.__file__)
    assert here.startswith(root + os.sep), "xrspatial imported from %s, not from %s" % (here, root)
    mod = check_module(prop)
    _W["mod"] = mod
    _W["spaces"] = {s.name: s for s in mod.build(tier)}
    _W["ready"] = set()
    _W["known"] = findings_mod.load(prop)
    _W["mode"] = mode


def _worker_run(task):
    name, lo, hi = task
    if "init_error" in _W:
        out = Shard(name, lo, lo)
        out.harness_error = "worker initialisation failed:\n" + _W["init_error"]
        return out.to_dict()
    sp = _W["spaces"][name]
    keys, sigs = _W["known"]
    out = Shard(name, lo, hi, keys.keys(), sigs.keys())
    t0 = time.time()
    try:
        if name not in _W["ready"]:
            sp.setup()
            _W["ready"].add(name)
        sp.run(lo, hi, out)
    except BaseException:  # harness failure inside a shard: never silently dropped
        out.harness_error = traceback.format_exc()
    out.wall = time.time() - t0
    return out.to_dict()


def _make_pool(prop, tier, mode, nproc, maxtasks=None):
    """Workers configure their own environment (numba mode, thread counts) in _worker_init BEFORE numba is
    imported, so nothing process-global is mutated here: pools of different modes may coexist (confirmation
    threads) and workers respawned later (maxtasksperchild) start in the right mode too."""
    ctx = mp.get_context("spawn")
    os.environ["PYTHONHASHSEED"] = "0"      # read by the children at interpreter start
    if maxtasks is None and getattr(check_module(prop), "FRESH_WORKERS", False):
        maxtasks = 1      # every shard runs in a brand-new interpreter (history exploration)
    return ctx.Pool(nproc, initializer=_worker_init, initargs=(prop, tier, repo_root(), mode), maxtasksperchild=maxtasks)


# ------------------------------------------------------------------------------------------------
# parent side
# ------------------------------------------------------------------------------------------------
def _tree_id(root):
    try:
        head = subprocess.run(["git", "-C", root, "rev-parse", "HEAD"], capture_output=True, text=True).stdout.strip()
        diff = subprocess.run(["git", "-C", root, "diff", "HEAD", "--", "xrspatial"], capture_output=True).stdout
        return {"head": head, "worktree_diff_sha1": hashlib.sha1(diff).hexdigest() if diff else None}
    except Exception as e:  # pragma: no cover
        return {"error": repr(e)}


def _shards(space, nproc, seed):
    size = space.size
    if size <= 0:
        return []
    grain = space.grain or max(1, -(-size // (nproc * 6)))
    tasks = [(space.name, lo, min(size, lo + grain)) for lo in range(0, size, grain)]
    random.Random(seed).shuffle(tasks)
    return tasks


def _merge(acc, sh):
    for k in ("evaluations", "transitions", "validated", "ties", "n_violations"):
        acc[k] += sh[k]
    acc["wall_cpu"] += sh["wall"]
    if len(acc["outcomes"]) < GLOBAL_OUTCOME_CAP:
        acc["outcomes"] |= sh["outcomes"]
    else:
        acc["capped"] = True
    if len(acc["nontrivial"]) < GLOBAL_OUTCOME_CAP:
        acc["nontrivial"] |= sh["nontrivial"]
    else:
        acc["capped"] = True
    acc["capped"] = acc["capped"] or sh["outcomes_capped"]
    for k, v in sh["counters"].items():
        acc["counters"][k] = acc["counters"].get(k, 0) + v
    for k, v in sh["known_hits"].items():
        acc["known_hits"][k] = acc["known_hits"].get(k, 0) + v
    for k, v in sh.get("viol_classes", {}).items():
        acc["viol_classes"][k] = acc["viol_classes"].get(k, 0) + v
    for n in sh["notes"]:
        if n not in acc["notes"] and len(acc["notes"]) < 25:
            acc["notes"].append(n)
    acc["violations"].extend(sh["violations"])
    acc["samples"].extend(sh["samples"])
    acc["explored"] += sh["hi"] - sh["lo"]


def _new_acc():
    return dict(evaluations=0, transitions=0, validated=0, ties=0, n_violations=0, wall_cpu=0.0,
                outcomes=set(), nontrivial=set(), capped=False, counters={}, known_hits={}, viol_classes={}, notes=[],
                violations=[], samples=[], explored=0)


def explore(prop, tier, seed, nproc, only=None, budget=None, log=sys.stderr):
    mod = check_module(prop)
    spaces = mod.build(tier)
    names = [s.name for s in spaces]
    assert len(set(names)) == len(names), "duplicate space names"
    if only:
        spaces = [s for s in spaces if any(o in s.name for o in only)]
    t_start = time.time()
    per_space = {s.name: _new_acc() for s in spaces}
    harness_errors = []
    caps = []
    for phase, mode in [(ph, m) for ph in sorted({getattr(s, "phase", 0) for s in spaces}) for m in ("jit", "interp")]:
        group = [s for s in spaces if s.mode == mode and getattr(s, "phase", 0) == phase]
        if not group:
            continue
        tasks = []
        for s in sorted(group, key=lambda s: -s.weight):
            tasks.extend(_shards(s, nproc, seed))
        if not tasks:
            continue
        n = min(nproc, len(tasks))
        pool = _make_pool(prop, tier, mode, n)
        done = 0
        try:
            for sh in pool.imap_unordered(_worker_run, tasks):
                done += 1
                if sh.get("harness_error"):
                    harness_errors.append((sh["space"], sh["lo"], sh["hi"], sh["harness_error"]))
                    if len(harness_errors) >= 3:
                        caps.append("aborted after 3 harness errors")
                        break
                _merge(per_space[sh["space"]], sh)
                if log and (done % max(1, len(tasks) // 10) == 0 or done == len(tasks)):
                    print("[%s %s %s] %d/%d shards, %.0fs" % (prop, tier, mode, done, len(tasks),
                                                              time.time() - t_start), file=log, flush=True)
                if budget and time.time() - t_start > budget:
                    caps.append("wall budget %ds hit in mode %s after %d/%d shards" % (budget, mode, done, len(tasks)))
                    pool.terminate()
                    break
        finally:
            pool.terminate()
            pool.join()
    return mod, spaces, per_space, harness_errors, caps, time.time() - t_start


def _replay_once(prop, tier, mode, space, lo, hi):
    pool = _make_pool(prop, tier, mode, 1)
    try:
        return pool.apply(_worker_run, ((space, lo, hi),))
    finally:
        pool.terminate()
        pool.join()


def _viol_identity(v):
    return (v["space"], v["rank"], v["key"], v["sig"])


def confirm(prop, tier, spaces, viol):
    """Re-execute a reported violation twice in fresh interpreters; both runs must report the same violation.
    First the failing case alone; if that does not reproduce it, the shard prefix [shard_lo, rank] is replayed as a
    history (a defect that needs earlier calls of the same process — a cache, a mutated default — shows only then)."""
    mode = {s.name: s.mode for s in spaces}[viol["space"]]
    attempts = [(viol["rank"], viol["rank"] + 1)]
    if viol.get("shard_lo", viol["rank"]) < viol["rank"]:
        attempts.append((viol["shard_lo"], viol["rank"] + 1))
    seen = []
    for lo, hi in attempts:
        seen = []
        for _ in range(2):
            sh = _replay_once(prop, tier, mode, viol["space"], lo, hi)
            if sh.get("harness_error"):
                seen.append("harness error during replay: " + sh["harness_error"][-400:])
                continue
            ids = [_viol_identity(v) for v in sh["violations"]]
            seen.append(_viol_identity(viol) in ids or
                        any(v["key"] == viol["key"] for v in sh["violations"]) or
                        (sh["n_violations"] > len(sh["violations"]) and lo < viol["rank"]))
        if all(x is True for x in seen):
            viol["replay_range"] = [lo, hi]
            return True, seen
    return False, seen


def write_replay(prop, tier, viol, tree):
    d = os.path.join(REPLAY_DIR, prop)
    os.makedirs(d, exist_ok=True)
    h = hashlib.sha1(("%s|%s|%s" % (viol["space"], viol["rank"], viol["key"])).encode()).hexdigest()[:12]
    path = os.path.join(d, "%s.json" % h)
    payload = dict(property_id=prop, tier=tier, tree=tree, **viol)
    with open(path, "w") as f:
        f.write(dumps(payload))
    test = os.path.join(d, "test_replay_%s.py" % h)
    with open(test, "w") as f:
        f.write("# generated: replays one recorded counterexample without the explorer\n"
                "import sys\nsys.path.insert(0, %r)\nfrom xrmc.core.runner import replay\n\n\n"
                "def test_replay_%s():\n    assert replay(%r) == 0, 'property %s violated (see %s)'\n"
                % (VERIF, h, path, prop, path))
    return path


def replay(path, log=sys.stdout):
    with open(path) as f:
        v = json.load(f)
    prop, tier = v["property_id"], v["tier"]
    mod = check_module(prop)
    spaces = mod.build(tier)
    mode = {s.name: s.mode for s in spaces}[v["space"]]
    lo, hi = v.get("replay_range") or [v["rank"], v["rank"] + 1]
    sh = _replay_once(prop, tier, mode, v["space"], lo, hi)
    if sh.get("harness_error"):
        print("HARNESS-ERROR during replay:\n" + sh["harness_error"], file=log)
        return 2
    hits = [x for x in sh["violations"] if x["key"] == v["key"]]
    if hits:
        print("VIOLATION property=%s replay=%s" % (prop, path), file=log)
        print("  " + hits[0]["message"], file=log)
        return 1
    if sh["known_hits"]:
        print("KNOWN-FINDING: property=%s %s" % (prop, ", ".join(sh["known_hits"])), file=log)
        return 0
    print("not reproduced: %s rank %s holds on this tree" % (v["space"], v["rank"]), file=log)
    return 0


def validate_evidence(path):
    code = ("import json,sys,jsonschema;"
            "jsonschema.validate(json.load(open(sys.argv[1])), json.load(open(sys.argv[2])))")
    schema = "/root/.vp/EVIDENCE.schema.json"
    if not os.path.exists(schema):
        schema = os.path.join(VERIF, "xrmc", "core", "EVIDENCE.schema.json")
    try:
        r = subprocess.run(["python3-vt", "-c", code, path, schema], capture_output=True, text=True, timeout=120)
    except (FileNotFoundError, subprocess.TimeoutExpired):
        return None, "python3-vt unavailable"
    return r.returncode == 0, r.stderr[-2000:]


def run_check(prop, tier="quick", seed=0, nproc=None, only=None, budget=None, write=True):
    nproc = nproc or int(os.environ.get("XRMC_WORKERS", min(16, os.cpu_count() or 1)))
    root = repo_root()
    tree = _tree_id(root)
    run_dir = os.path.join(VERIF, ".xrmc_tmp", "%s_%s_%d" % (prop, tier, os.getpid()))
    os.makedirs(run_dir, exist_ok=True)
    os.environ["XRMC_RUN_DIR"] = run_dir
    try:
        return _run_check(prop, tier, seed, nproc, only, budget, write, root, tree)
    finally:
        shutil.rmtree(run_dir, ignore_errors=True)


def _run_check(prop, tier, seed, nproc, only, budget, write, root, tree):
    mod, spaces, per_space, herrs, caps, wall = explore(prop, tier, seed, nproc, only, budget)
    keys, sigs = findings_mod.load(prop)

    total = _new_acc()
    space_rows = []
    for s in spaces:
        a = per_space[s.name]
        for k in ("evaluations", "transitions", "validated", "ties", "n_violations", "explored"):
            total[k] += a[k]
        total["outcomes"] |= a["outcomes"]
        total["nontrivial"] |= {hash((s.name, x)) for x in a["nontrivial"]}
        total["capped"] = total["capped"] or a["capped"]
        for k, v in a["counters"].items():
            total["counters"][k] = total["counters"].get(k, 0) + v
        for k, v in a["known_hits"].items():
            total["known_hits"][k] = total["known_hits"].get(k, 0) + v
        for k, v in a["viol_classes"].items():
            total["viol_classes"][k] = total["viol_classes"].get(k, 0) + v
        total["notes"].extend(n for n in a["notes"] if n not in total["notes"] and len(total["notes"]) < 60)
        total["violations"].extend(a["violations"])
        space_rows.append(dict(name=s.name, mode=s.mode, size=s.size, explored=a["explored"],
                               exhaustive=a["explored"] == s.size, evaluations=a["evaluations"],
                               impl_calls=a["transitions"], validated=a["validated"], tie_skipped=a["ties"],
                               distinct_outcomes=len(a["outcomes"]), distinct_nontrivial=len(a["nontrivial"]),
                               violations=a["n_violations"], cpu_s=round(a["wall_cpu"], 1)))

    # ---- violations: confirm by double replay, write replay artefacts --------------------------------
    status = 0
    lines = []
    reported = []
    uniq = {}
    for v in sorted(total["violations"], key=lambda v: (v["space"], v["rank"], v["key"])):
        uniq.setdefault((v["space"], v["key"]), v)
    # report round-robin over violation classes (call-site signature or key prefix) so that distinct defects all surface
    by_class = {}
    for v in uniq.values():
        cls = v["sig"] if v["sig"] is not None else "|".join(v["key"].split("|")[:2])
        by_class.setdefault(cls, []).append(v)
    cand = []
    while len(cand) < MAX_REPORTED and any(by_class.values()):
        for cls in sorted(by_class):
            if by_class[cls] and len(cand) < MAX_REPORTED:
                cand.append(by_class[cls].pop(0))
    from concurrent.futures import ThreadPoolExecutor
    with ThreadPoolExecutor(max(1, len(cand))) as ex:
        confirmed = list(ex.map(lambda v: confirm(prop, tier, spaces, v), cand))
    for v, (ok, seen) in zip(cand, confirmed):
        if not ok:
            herrs.append((v["space"], v["rank"], v["rank"] + 1,
                          "violation %r not reproduced identically on replay (%r): nondeterminism in harness" % (v["key"], seen)))
            continue
        path = write_replay(prop, tier, v, tree)
        reported.append(v)
        lines.append("VIOLATION property=%s replay=%s" % (prop, path))
        lines.append("  [%s #%d] %s" % (v["space"], v["rank"], v["message"].splitlines()[0][:300]))
        status = 1
    for k, n in sorted(total["known_hits"].items()):
        e = keys.get(k) or sigs.get(k) or {}
        lines.append("KNOWN-FINDING: property=%s %s — %s (%d case(s) this run)" % (prop, k, e.get("what", ""), n))
    if herrs:
        status = 2 if status == 0 else status
        for h in herrs[:5]:
            lines.append("HARNESS-ERROR property=%s space=%s range=[%s,%s)\n%s" % (prop, h[0], h[1], h[2], h[3]))

    exhaustive = all(r["exhaustive"] for r in space_rows) and not caps and not herrs
    rng = random.Random(seed)
    samples = []
    for s in spaces:
        a = per_space[s.name]
        if a["samples"]:
            samples.append({"space": s.name, "case": rng.choice(a["samples"])})
    if not samples:
        samples = [{"space": s.name, "case": jsonable(s.describe(0))} for s in spaces[:3] if s.size]

    coverage = dict(
        states=total["evaluations"],
        transitions=total["transitions"],
        traces_validated_against_impl=total["validated"],
        evaluations=total["evaluations"],
        distinct_nontrivial=len(total["nontrivial"]),
        distinct_outcomes=len(total["outcomes"]),
        distinct_counts_are_lower_bounds=bool(total["capped"]),
        tie_skipped=total["ties"],
        rule=getattr(mod, "RULE", ""),
        exhaustive=bool(exhaustive),
        caps_hit=caps,
        bounds=getattr(mod, "BOUNDS", {}).get(tier, getattr(mod, "BOUNDS", {})),
        spaces=space_rows,
        counters=total["counters"],
        known_findings_hit=total["known_hits"],
        violation_classes=total["viol_classes"],
        notes=total["notes"],
        samples=samples or [{"note": "no case executed"}],
        tree=tree,
        workers=nproc,
    )
    if hasattr(mod, "finalize"):
        coverage.update(mod.finalize(tier, coverage) or {})
    ev = dict(property_id=prop, tier=tier, seed=int(seed), level=getattr(mod, "LEVEL", "model_checking"),
              coverage=coverage, assumptions=list(getattr(mod, "ASSUMPTIONS", [])), wall_s=round(wall, 2),
              violations=total["n_violations"])
    if write and not only and not os.environ.get("XRMC_REPO"):     # mutation runs never touch the evidence
        os.makedirs(EVIDENCE_DIR, exist_ok=True)
        path = os.path.join(EVIDENCE_DIR, "%s.json" % prop)
        tmp = path + ".tmp"
        with open(tmp, "w") as f:
            f.write(dumps(ev))
        os.replace(tmp, path)
        ok, err = validate_evidence(path)
        if ok is False:
            lines.append("HARNESS-ERROR evidence file does not validate: %s" % err)
            status = status or 2
    for ln in lines:
        print(ln, flush=True)
    if total["viol_classes"]:
        print("violation classes (call-site signature or key prefix: count):", flush=True)
        for k, v in sorted(total["viol_classes"].items(), key=lambda kv: -kv[1])[:60]:
            print("   %6d  %s" % (v, k), flush=True)
    print("%s %s: %d cases, %d impl calls, %d validated, %d ties, %d distinct outcomes, "
          "%d violations, exhaustive=%s, %.1fs" % (prop, tier, total["evaluations"], total["transitions"],
                                                    total["validated"], total["ties"], len(total["outcomes"]),
                                                    total["n_violations"], exhaustive, wall), flush=True)
    for r in space_rows:
        print("   %-34s size=%-9d explored=%-9d validated=%-9d ties=%-7d outcomes=%-7d viol=%-5d cpu=%ss"
              % (r["name"], r["size"], r["explored"], r["validated"], r["tie_skipped"],
                 r["distinct_outcomes"], r["violations"], r["cpu_s"]), flush=True)
    return status


def main(argv=None):
    ap = argparse.ArgumentParser(prog="check")
    ap.add_argument("prop", nargs="?")
    ap.add_argument("--tier", default=os.environ.get("VERIF_TIER", "quick"), choices=["quick", "thorough"])
    ap.add_argument("--replay")
    ap.add_argument("--only", action="append", help="dev: restrict to spaces whose name contains this (no evidence written)")
    ap.add_argument("--workers", type=int)
    ap.add_argument("--budget", type=int, help="wall-clock cap in seconds (reported in evidence when hit)")
    ap.add_argument("--selftest", action="store_true")
    a = ap.parse_args(argv)
    if a.selftest:
        from . import selftest
        return selftest.main()
    if a.replay:
        return replay(a.replay)
    if not a.prop:
        ap.error("property id required")
    seed = int(os.environ.get("VERIF_SEED", "0") or 0)
    return run_check(a.prop.upper(), a.tier, seed, a.workers, a.only, a.budget)


if __name__ == "__main__":
    sys.exit(main())
