"""Reference models for C19: sphere-point identity, ellipse / annulus masks by exact rationals,
the distance-unit table and the radius-string grammar.  Nothing here imports xrspatial."""
import math
import re
from fractions import Fraction

import numpy as np

EARTH_RADIUS = 6378137.0          # radius documented by great_circle_distance (default argument)

# ------------------------------------------------------------------------------------------------
# sphere
# ------------------------------------------------------------------------------------------------


def same_sphere_point(lon1, lat1, lon2, lat2):
    """Do two (longitude, latitude) pairs in degrees name the same point of the sphere?
    Exact for the coordinates used by the check (multiples of 0.5 degree and a few generic points):
    equal latitude and either a pole (every longitude is the same point) or longitudes that differ
    by a multiple of 360 degrees (the antimeridian: -180 == 180)."""
    if lat1 != lat2:
        return False
    if abs(lat1) == 90:
        return True
    return (lon1 - lon2) % 360 == 0


def sphere_angle(lon1, lat1, lon2, lat2):
    """Central angle by the vector formula atan2(|u x v|, u . v) (not the haversine formula)."""
    def vec(lon, lat):
        lo, la = math.radians(lon), math.radians(lat)
        return (math.cos(la) * math.cos(lo), math.cos(la) * math.sin(lo), math.sin(la))
    u, v = vec(lon1, lat1), vec(lon2, lat2)
    cx = (u[1] * v[2] - u[2] * v[1], u[2] * v[0] - u[0] * v[2], u[0] * v[1] - u[1] * v[0])
    return math.atan2(math.sqrt(cx[0] ** 2 + cx[1] ** 2 + cx[2] ** 2), u[0] * v[0] + u[1] * v[1] + u[2] * v[2])


# ------------------------------------------------------------------------------------------------
# kernels
# ------------------------------------------------------------------------------------------------
def semi_axis(radius, cellsize):
    """Whole number of cells that fit in `radius`: floor(radius / cellsize), exact."""
    return math.floor(Fraction(radius) / Fraction(cellsize))


def float_semi_axis(radius, cellsize):
    """The same by float division (used only to detect a tie: float and exact floors disagree)."""
    return int(float(radius) / float(cellsize))


def ellipse_mask(a, b):
    """0/1 mask, shape (2b+1, 2a+1), of the integer offsets (i rows, j columns) with
    (j/a)^2 + (i/b)^2 <= 1, evaluated with exact rationals.  A zero semi-axis degenerates the ellipse
    to the segment (or point) on the other axis, which is the whole window."""
    m = np.zeros((2 * b + 1, 2 * a + 1), dtype=np.int64)
    for i in range(-b, b + 1):
        for j in range(-a, a + 1):
            if a == 0 or b == 0:
                inside = True              # window is already the segment j == 0 (or i == 0)
            else:
                inside = Fraction(j, a) ** 2 + Fraction(i, b) ** 2 <= 1
            m[i + b, j + a] = 1 if inside else 0
    return m


def circle_mask(cellsize_x, cellsize_y, radius):
    """Documented circle_kernel: ellipse with semi-axes floor(radius/cellsize_x) columns and
    floor(radius/cellsize_y) rows (docstring example circle_kernel(1, 2, 3) -> 3 x 7 with only the centre
    column set in rows +-1)."""
    a, b = semi_axis(radius, cellsize_x), semi_axis(radius, cellsize_y)
    return ellipse_mask(a, b), a, b


def metric_mask(cellsize_x, cellsize_y, radius):
    """Alternative reading (NOT asserted, only counted): cells whose centre offset in map units lies in the
    disc, (j*cellsize_x)^2 + (i*cellsize_y)^2 <= radius^2, on the same window."""
    a, b = semi_axis(radius, cellsize_x), semi_axis(radius, cellsize_y)
    cx, cy, r = Fraction(cellsize_x), Fraction(cellsize_y), Fraction(radius)
    m = np.zeros((2 * b + 1, 2 * a + 1), dtype=np.int64)
    for i in range(-b, b + 1):
        for j in range(-a, a + 1):
            m[i + b, j + a] = 1 if (j * cx) ** 2 + (i * cy) ** 2 <= r ** 2 else 0
    return m


def annulus_mask(cellsize_x, cellsize_y, outer, inner):
    """Outer circle minus the inner circle placed at the centre of the outer window."""
    mo, ao, bo = circle_mask(cellsize_x, cellsize_y, outer)
    mi, ai, bi = circle_mask(cellsize_x, cellsize_y, inner)
    assert ai <= ao and bi <= bo
    pad = np.zeros_like(mo)
    pad[bo - bi:bo + bi + 1, ao - ai:ao + ai + 1] = mi
    out = mo - pad
    assert out.min() >= 0          # an ellipse with smaller semi-axes lies inside the larger one
    return out


# ------------------------------------------------------------------------------------------------
# units and radius strings
# ------------------------------------------------------------------------------------------------
METRE, KILOMETRE, FOOT, MILE = 1.0, 1000.0, 0.3048, 1609.344      # international foot / mile, exact
# spellings of the library's unit table (convolution.UNITS on the pinned tree), by unit of the statement
UNIT_SPELLINGS = {
    "meter": METRE, "meters": METRE, "m": METRE,
    "kilometer": KILOMETRE, "kilometers": KILOMETRE, "km": KILOMETRE,
    "foot": FOOT, "feet": FOOT, "ft": FOOT,
    "miles": MILE, "mls": MILE, "ml": MILE,
}
# spellings whose acceptance the statement leaves open: rejecting them (ValueError) or converting them
# with the natural factor are both accepted; converting to anything else is a violation
OPEN_SPELLINGS = {"KM": KILOMETRE,      # upper case: the table is lower case
                  "mile": MILE}         # listed in the library's error text, missing from its table
UNKNOWN_UNITS = ("parsec",)

_PLAIN = re.compile(r"-?(\d+\.?\d*|\.\d+)\Z")
_SCI = re.compile(r"-?(\d+\.?\d*|\.\d+)[eE][-+]?\d+\Z")


def classify_radius_string(number, sep, unit):
    """-> (verdict, metres) with verdict in {'convert', 'reject', 'open'}.

    convert  positive plain decimal number + unit of the table (or no unit: metres)  -> number * factor
    reject   non-positive number, non-numeric number, unknown unit                    -> ValueError
    open     scientific notation, upper-case unit, 'mile', blank after a bare number  -> ValueError or number * factor
    """
    is_open = False
    if _PLAIN.match(number):
        value = float(number)
    elif _SCI.match(number):
        value = float(number)
        is_open = True
    else:
        return "reject", None
    if value <= 0:
        return "reject", None
    if unit == "":
        factor = METRE
        if sep:
            is_open = True         # '1 ' : number followed by a blank and nothing else
    elif unit in UNIT_SPELLINGS:
        factor = UNIT_SPELLINGS[unit]
    elif unit in OPEN_SPELLINGS:
        factor = OPEN_SPELLINGS[unit]
        is_open = True
    else:
        return "reject", None
    return ("open" if is_open else "convert"), value * factor


def natural_magnitude(number, unit):
    """Rough size in metres of what a string would mean if it were accepted (only used to choose a cell size
    that keeps the kernel small when the implementation wrongly accepts a string)."""
    try:
        v = abs(float(number)) or 1.0
    except ValueError:
        v = 1.0
    f = UNIT_SPELLINGS.get(unit, OPEN_SPELLINGS.get(unit, 1.0))
    return v * f
