"""Reference model for grid path finding (C14): Dijkstra on a 4-/8-connected cell graph, a validator that
reads a result raster as ONE chain of steps, nearest-crossable-cell sets for snapping, nearest-centre cell
of a coordinate.  Pure Python + math; nothing is imported from the library under test.

Move set (the one the property speaks of): a step goes from a crossable cell to a crossable 4-neighbour
(length 1) or, under 8-connectivity, to a crossable diagonal neighbour (length sqrt 2).  A diagonal step
only requires its two end cells to be crossable ("corner cutting" is allowed, as in the implementation).

Cells are numbered row-major: cell c = (c // w, c % w).  `crossable` is a flat sequence of bools.
"""
import heapq
import math

SQRT2 = math.sqrt(2.0)
INF = float("inf")
TOL = 1e-9

STEPS4 = ((-1, 0, 1.0), (1, 0, 1.0), (0, -1, 1.0), (0, 1, 1.0))
STEPS8 = STEPS4 + ((-1, -1, SQRT2), (-1, 1, SQRT2), (1, -1, SQRT2), (1, 1, SQRT2))


def steps(conn):
    if conn == 4:
        return STEPS4
    if conn == 8:
        return STEPS8
    raise ValueError("connectivity must be 4 or 8")


def dijkstra(crossable, h, w, conn, src):
    """Least total step length from cell `src` to every cell (INF: no route; all INF when src is blocked)."""
    dist = [INF] * (h * w)
    if not crossable[src]:
        return dist
    dist[src] = 0.0
    heap = [(0.0, src)]
    st = steps(conn)
    while heap:
        d, c = heapq.heappop(heap)
        if d > dist[c]:
            continue
        y, x = divmod(c, w)
        for dy, dx, ln in st:
            ny, nx = y + dy, x + dx
            if 0 <= ny < h and 0 <= nx < w:
                n = ny * w + nx
                if crossable[n] and d + ln < dist[n]:
                    dist[n] = d + ln
                    heapq.heappush(heap, (d + ln, n))
    return dist


def free_distance(h, w, conn, a, b):
    """Least total step length between cells a and b when every cell is crossable."""
    dy = abs(a // w - b // w)
    dx = abs(a % w - b % w)
    if conn == 4:
        return float(dy + dx)
    return float(max(dy, dx) - min(dy, dx)) + SQRT2 * min(dy, dx)


def read_chain(values, crossable, h, w, conn, tol=TOL):
    """Read a result raster (flat list of floats, NaN = not on the path).

    -> ("empty",)                           every cell is NaN
       ("chain", start, goal, cost, ncells) the non-NaN cells, ordered by value, are one chain: the first has
                                            value 0, every next one is a 4-/8-neighbour of the previous one and
                                            its value is larger by exactly the step length, all are crossable
       ("bad", reason)                      anything else
    """
    cells = sorted((v, c) for c, v in enumerate(values) if v == v)
    if not cells:
        return ("empty",)
    v0, c0 = cells[0]
    if abs(v0) > tol:
        return ("bad", "no cell has value 0: the smallest value is %r at cell %r" % (v0, divmod(c0, w)))
    diag_ok = conn == 8
    pv, pc = None, None
    for v, c in cells:
        if not crossable[c]:
            return ("bad", "the path enters the non-crossable cell %r" % (divmod(c, w),))
        if pc is not None:
            dy = abs(c // w - pc // w)
            dx = abs(c % w - pc % w)
            if dy + dx == 1:
                ln = 1.0
            elif dy == 1 and dx == 1 and diag_ok:
                ln = SQRT2
            else:
                return ("bad", "cell %r (value %r) follows cell %r (value %r) but is not a %d-neighbour of it"
                        % (divmod(c, w), v, divmod(pc, w), pv, conn))
            if abs((v - pv) - ln) > tol:
                return ("bad", "step %r -> %r has length %r but the value grows by %r"
                        % (divmod(pc, w), divmod(c, w), ln, v - pv))
        pv, pc = v, c
    return ("chain", c0, pc, pv, len(cells))


def nearest_crossable(crossable, h, w, ref_y, ref_x, wy=1.0, wx=1.0, rel=1e-9):
    """Crossable cells at the least distance sqrt((wy*(y-ref_y))^2 + (wx*(x-ref_x))^2) from the reference
    position (in cell units); all cells within a relative `rel` of the minimum are returned (ties)."""
    d2 = [((wy * (c // w - ref_y)) ** 2 + (wx * (c % w - ref_x)) ** 2, c) for c in range(h * w) if crossable[c]]
    if not d2:
        return []
    best = min(d2)[0]
    return [c for d, c in d2 if d <= best * (1 + rel)]


def nearest_index(coords, p):
    """Index of the coordinate (cell centre) nearest to p and the margin to the runner-up
    (|d2 - d1|; INF for a single coordinate)."""
    ds = sorted((abs(float(c) - p), k) for k, c in enumerate(coords))
    margin = ds[1][0] - ds[0][0] if len(ds) > 1 else INF
    return ds[0][1], margin


def judge(obs, starts, goals, dist_from, w, tol=TOL):
    """Compare a read_chain() reading with the reference.

    starts / goals   acceptable start / goal cells (several when snapping has equidistant candidates; empty when
                     the end point is blocked and not snapped, or nothing is crossable)
    dist_from(s)     Dijkstra distances from cell s
    -> list of problems (empty = the result is one of the acceptable ones)
    """
    if obs[0] == "bad":
        return [obs[1]]
    routes = [(s, g, dist_from(s)[g]) for s in starts for g in goals]
    if obs[0] == "empty":
        if not routes or any(d == INF for _, _, d in routes):
            return []
        s, g, d = routes[0]
        return ["every cell is NaN but a route of length %r joins start %r and goal %r"
                % (d, divmod(s, w), divmod(g, w))]
    _, s, g, cost, _ = obs
    if not routes:
        return ["a path is returned although an end point is not crossable (and not snapped)"]
    if s not in starts:
        return ["the path starts (value 0) in cell %r, expected %s"
                % (divmod(s, w), " or ".join(str(divmod(c, w)) for c in starts))]
    if g not in goals:
        return ["the path ends in cell %r, expected %s"
                % (divmod(g, w), " or ".join(str(divmod(c, w)) for c in goals))]
    d = dist_from(s)[g]
    if d == INF:
        return ["a path is returned but no route joins %r and %r" % (divmod(s, w), divmod(g, w))]
    if abs(cost - d) > tol:
        return ["the goal's value is %r but the shortest route from %r to %r has length %r"
                % (cost, divmod(s, w), divmod(g, w), d)]
    return []


def selftest():
    T, F = True, False
    # 3x3 with a wall in the middle column except the bottom row
    cr = [T, F, T,
          T, F, T,
          T, T, T]
    d8 = dijkstra(cr, 3, 3, 8, 0)
    assert abs(d8[2] - (1 + SQRT2 + SQRT2 + 1)) < 1e-12          # (0,0)->(1,0)->(2,1)->(1,2)->(0,2)
    d4 = dijkstra(cr, 3, 3, 4, 0)
    assert d4[2] == 6.0
    assert dijkstra(cr, 3, 3, 4, 1) == [INF] * 9
    # corner cutting: diagonal between two crossable cells whose common neighbours are both blocked
    cc = [T, F,
          F, T]
    assert abs(dijkstra(cc, 2, 2, 8, 0)[3] - SQRT2) < 1e-15 and dijkstra(cc, 2, 2, 4, 0)[3] == INF
    nan = float("nan")
    assert read_chain([nan] * 4, cc, 2, 2, 8) == ("empty",)
    assert read_chain([0.0, nan, nan, SQRT2], cc, 2, 2, 8) == ("chain", 0, 3, SQRT2, 2)
    assert read_chain([0.0, nan, nan, SQRT2], cc, 2, 2, 4)[0] == "bad"
    assert read_chain([0.0, 1.0, nan, nan], cc, 2, 2, 8)[0] == "bad"       # enters a blocked cell
    assert read_chain([0.5, nan, nan, nan], cc, 2, 2, 8)[0] == "bad"       # no zero
    assert read_chain([0.0, nan, nan, 1.0], cc, 2, 2, 8)[0] == "bad"       # wrong increment
    assert read_chain([0.0, nan, nan, 0.0], cc, 2, 2, 8)[0] == "bad"       # two starts
    assert nearest_crossable(cc, 2, 2, 0, 1) == [0, 3] and nearest_crossable(cc, 2, 2, 0, 0) == [0]
    assert nearest_crossable([F, F, F, T], 2, 2, 0, 0) == [3] and nearest_crossable([F] * 4, 2, 2, 0, 0) == []
    assert nearest_index([0.0, 0.1, 0.2, 0.30000000000000004], 0.2)[0] == 2
    assert nearest_index([3.0, 2.0, 1.0], 1.49)[0] == 2
    assert free_distance(3, 3, 8, 0, 7) == 1.0 + SQRT2 and free_distance(3, 3, 4, 0, 8) == 4.0
    df = lambda s: dijkstra(cc, 2, 2, 8, s)
    assert judge(("chain", 0, 3, SQRT2, 2), [0], [3], df, 2) == []
    assert judge(("empty",), [0], [3], df, 2) != [] and judge(("empty",), [], [3], df, 2) == []
    assert judge(("chain", 0, 3, 2.0, 2), [0], [3], df, 2) != []
    return True
