"""O(n^2) reference evaluation of the line-of-sight model of viewshed (property C05).

Model (index space: x = column, y = -row, observer at the centre of cell (vr, vc)):
* a cell spans the bearings between its ENTER corner (the corner of minimum bearing seen from the
  observer, counter-clockwise sweep) and its EXIT corner (maximum bearing); both are found geometrically
  with integer cross products of doubled coordinates - no quadrant table;
* elevation of a corner = mean of the 4 cells sharing it when all 4 exist, else the cell's own elevation;
* gradient of a point = atan((elevation - observer height) / horizontal distance), distances in map units
  (column offset * ew, row offset * ns); over the span of a cell the gradient is interpolated linearly in
  the bearing: enter corner -> centre -> exit corner;
* a cell T is visible iff no cell C strictly nearer than T (squared centre distance) whose span contains
  the bearing of T's centre has an interpolated gradient larger than T's own centre gradient (T's centre
  raised by target_elev); value = 90 + atan2(dz, d) degrees if visible, -1 otherwise, 180 for the observer.

Tie rule: a comparison whose sides are within EPS, or a blocker C that touches T's bearing only with the
boundary of its span (whether the span is closed is not fixed by the model), makes the cell a TIE unless a
definite blocker exists anyway.  Exception: a blocker evaluated without interpolation arithmetic (same bearing
as its centre, or corner gradient == centre gradient) that is exactly == T's gradient is a definite non-blocker
(flat terrain: 0 == 0).  Nothing here is imported from xrspatial.
"""
import math

import numpy as np
from numba import njit

EPS = 1e-9
VISIBLE, HIDDEN, TIE, OBSERVER = 1, 0, -1, 2


@njit
def _wrap(a):
    while a > math.pi:
        a -= 2 * math.pi
    while a <= -math.pi:
        a += 2 * math.pi
    return a


@njit
def line_of_sight(r, vr, vc, observer_elev, target_elev, ew, ns, eps):
    """r: float64 (H, W) terrain without NaN.  -> (state int8 (H, W), value float64 (H, W)); state is
    VISIBLE / HIDDEN / TIE / OBSERVER, value the vertical angle every non-hidden cell must hold."""
    H, W = r.shape
    n = H * W
    zv = r[vr, vc] + observer_elev
    state = np.zeros((H, W), np.int8)
    value = np.full((H, W), -1.0)
    state[vr, vc] = OBSERVER
    value[vr, vc] = 180.0
    cu = np.zeros(n, np.int64); cv = np.zeros(n, np.int64)          # centre, doubled coordinates
    eu = np.zeros(n, np.int64); ev = np.zeros(n, np.int64)          # enter corner
    xu = np.zeros(n, np.int64); xv = np.zeros(n, np.int64)          # exit corner
    k = np.zeros(n); g0 = np.zeros(n); g1 = np.zeros(n); g2 = np.zeros(n); gt = np.zeros(n)
    a0 = np.zeros(n); a2 = np.zeros(n); bc = np.zeros(n)
    for i in range(H):
        for j in range(W):
            if i == vr and j == vc:
                continue
            c = i * W + j
            u = 2 * (j - vc)
            v = 2 * (vr - i)
            cu[c] = u; cv[c] = v
            dx = (j - vc) * ew
            dy = (i - vr) * ns
            k[c] = dx * dx + dy * dy
            g1[c] = math.atan((r[i, j] - zv) / math.sqrt(k[c]))
            gt[c] = math.atan((r[i, j] + target_elev - zv) / math.sqrt(k[c]))
            bc[c] = math.atan2(v, u)
            value[i, j] = 90.0 + math.degrees(math.atan2(r[i, j] + target_elev - zv, math.sqrt(k[c])))
            for su in (-1, 1):
                for sv in (-1, 1):
                    pu = u + su; pv = v + sv
                    first = True; last = True       # is p the corner of minimum / maximum bearing?
                    for tu in (-1, 1):
                        for tv in (-1, 1):
                            cr = pu * (v + tv) - pv * (u + tu)      # > 0: the other corner is counter-clockwise of p
                            if cr < 0:
                                first = False
                            if cr > 0:
                                last = False
                    if not (first or last):
                        continue
                    ci = i - sv; cj = j + su        # the diagonal neighbour across this corner
                    e = r[i, j]
                    if 0 <= ci < H and 0 <= cj < W:
                        e = (r[ci, cj] + r[ci, j] + r[i, cj] + r[i, j]) / 4.0
                    px = 0.5 * pu * ew; py = 0.5 * pv * ns
                    g = math.atan((e - zv) / math.sqrt(px * px + py * py))
                    a = _wrap(math.atan2(pv, pu) - bc[c])
                    if first:
                        eu[c] = pu; ev[c] = pv; g0[c] = g; a0[c] = a
                    else:
                        xu[c] = pu; xv[c] = pv; g2[c] = g; a2[c] = a
    for t in range(n):
        if t == vr * W + vc:
            continue
        hidden = False
        tie = False
        for c in range(n):
            if c == vr * W + vc or not k[c] < k[t]:
                continue
            s0 = eu[c] * cv[t] - ev[c] * cu[t]       # > 0: T's bearing is past C's enter corner
            s2 = cu[t] * xv[c] - cv[t] * xu[c]       # > 0: T's bearing is before C's exit corner
            if s0 < 0 or s2 < 0:
                continue
            side = cu[c] * cv[t] - cv[c] * cu[t]     # sign of (T's bearing - C's centre bearing)
            d = _wrap(bc[t] - bc[c])
            if side == 0:
                g = g1[c]; exact = True
            elif side < 0:
                g = g1[c] + (g0[c] - g1[c]) * (d / a0[c]); exact = g0[c] == g1[c]
            else:
                g = g1[c] + (g2[c] - g1[c]) * (d / a2[c]); exact = g2[c] == g1[c]
            if g > gt[t] + eps:
                if s0 > 0 and s2 > 0:
                    hidden = True
                    break
                tie = True
            elif g >= gt[t] - eps and not (exact and g == gt[t]):
                tie = True
        i = t // W; j = t % W
        state[i, j] = HIDDEN if hidden else (TIE if tie else VISIBLE)
    return state, value
