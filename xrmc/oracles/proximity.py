"""Brute-force nearest-target reference for proximity / allocation / direction (C06, C07).

Nothing here imports xrspatial.  The model is the definition itself:

* a cell is a *target* when its value is non-zero and finite (default) or, with explicit
  `target_values`, when its value is a member of that list;
* dist(cell, t) is the metric evaluated on the cells' (x, y) coordinates:
  EUCLIDEAN sqrt(dx^2+dy^2), MANHATTAN |dx|+|dy|, GREAT_CIRCLE the arc between (lon=x, lat=y) points
  on a sphere of radius 6378137 m (the radius hard-coded in xrspatial.proximity.great_circle_distance);
* D*(cell) = min over targets of dist(cell, t)  (+inf when there is no target);
* bearing(cell, t), the convention pinned by the docstring example of xrspatial.direction():
  0 is reserved for t == cell; otherwise the compass angle, in degrees in (0, 360], measured in the
  coordinate plane clockwise from the direction of DECREASING y coordinate ("north" = 360),
  90 = increasing x ("east"), 180 = increasing y coordinate ("south"), 270 = decreasing x ("west").
  (In the docstring example y = [4,3,2,1,0]: the cell at y=0 below the target at y=2 reports 180 and
  the cell at y=4 above it reports 360, i.e. the y axis is treated as pointing south.)  The bearing is
  planar for every metric, GREAT_CIRCLE included.
"""
import math

import numpy as np

EARTH_RADIUS = 6378137.0          # xrspatial/proximity.py: great_circle_distance(..., radius=6378137)
METRICS = ("EUCLIDEAN", "MANHATTAN", "GREAT_CIRCLE")


# ---- scalar definitions (the boring ones) ----------------------------------------------------------
def euclidean(x1, y1, x2, y2):
    return math.sqrt((x1 - x2) * (x1 - x2) + (y1 - y2) * (y1 - y2))


def manhattan(x1, y1, x2, y2):
    return abs(x1 - x2) + abs(y1 - y2)


def great_circle(x1, y1, x2, y2, radius=EARTH_RADIUS):
    """Arc length between (lon x1, lat y1) and (lon x2, lat y2), degrees in, metres out.
    atan2 form of the spherical distance (well conditioned from 0 to the antipode); it is the same
    quantity as the haversine formula the library uses, computed differently."""
    p1, p2 = math.radians(y1), math.radians(y2)
    dl = math.radians(x2 - x1)
    a = math.cos(p2) * math.sin(dl)
    b = math.cos(p1) * math.sin(p2) - math.sin(p1) * math.cos(p2) * math.cos(dl)
    c = math.sin(p1) * math.sin(p2) + math.cos(p1) * math.cos(p2) * math.cos(dl)
    return radius * math.atan2(math.sqrt(a * a + b * b), c)


def haversine(x1, y1, x2, y2, radius=EARTH_RADIUS):
    """Textbook haversine (used only to cross-check great_circle in selftest)."""
    p1, p2 = math.radians(y1), math.radians(y2)
    s = math.sin((p2 - p1) / 2) ** 2 + math.cos(p1) * math.cos(p2) * math.sin(math.radians(x2 - x1) / 2) ** 2
    return radius * 2 * math.asin(min(1.0, math.sqrt(s)))


DIST = {"EUCLIDEAN": euclidean, "MANHATTAN": manhattan, "GREAT_CIRCLE": great_circle}


def distance(metric, x1, y1, x2, y2):
    return DIST[metric](float(x1), float(y1), float(x2), float(y2))


def bearing(x1, y1, x2, y2):
    """Bearing from (x1, y1) to (x2, y2) in the convention of the module docstring."""
    dx, dy = float(x2) - float(x1), float(y2) - float(y1)
    if dx == 0.0 and dy == 0.0:
        return 0.0
    b = math.degrees(math.atan2(dx, -dy)) % 360.0
    return 360.0 if b == 0.0 else b


# ---- per-grid tables --------------------------------------------------------------------------------
def cell_coords(ys, xs):
    """Row-major (x, y) coordinate of every cell of the len(ys) x len(xs) raster."""
    return [(float(x), float(y)) for y in ys for x in xs]


def pair_tables(ys, xs, metric):
    """(D, B): n x n float64 matrices, D[i, j] = dist(cell i, cell j), B[i, j] = bearing(cell i -> cell j),
    cells numbered row-major."""
    pts = cell_coords(ys, xs)
    n = len(pts)
    D = np.zeros((n, n))
    B = np.zeros((n, n))
    f = DIST[metric]
    for i, (xi, yi) in enumerate(pts):
        for j, (xj, yj) in enumerate(pts):
            D[i, j] = f(xi, yi, xj, yj)
            B[i, j] = bearing(xi, yi, xj, yj)
    return D, B


def target_mask(a, target_values=None):
    """Boolean mask of target cells (same shape as a)."""
    a = np.asarray(a)
    if target_values is None or len(target_values) == 0:
        af = a.astype(float)
        return (af != 0) & np.isfinite(af)
    m = np.zeros(a.shape, bool)
    for v in target_values:
        m |= (a == v)
    return m


def nearest(D, tmask_flat):
    """D*(cell) for every cell (flat, row-major); +inf when there is no target."""
    if not tmask_flat.any():
        return np.full(D.shape[0], np.inf)
    return D[:, tmask_flat].min(axis=1)


def brute_force(a, ys, xs, metric="EUCLIDEAN", target_values=None):
    """Plain double loop: D* raster (inf without targets).  Reference for the table-based path."""
    a = np.asarray(a)
    h, w = a.shape
    tm = target_mask(a, target_values)
    out = np.full((h, w), np.inf)
    for r in range(h):
        for c in range(w):
            for tr in range(h):
                for tc in range(w):
                    if tm[tr, tc]:
                        d = distance(metric, xs[c], ys[r], xs[tc], ys[tr])
                        if d < out[r, c]:
                            out[r, c] = d
    return out


def selftest():
    # distances
    assert euclidean(0, 0, 3, 4) == 5.0 and manhattan(0, 0, 3, -4) == 7.0
    assert abs(great_circle(0, 0, 90, 0) - math.pi / 2 * EARTH_RADIUS) < 1e-6
    assert abs(great_circle(-180, 90, 180, -90) - math.pi * EARTH_RADIUS) < 1e-6
    assert abs(great_circle(123.2, 82.32, 178.0, 65.09) - 2378290.489801402) < 1e-3   # library docstring value
    for p in [(0, 0, 1, 1), (-5, 40, 25, 10), (100, -50, 97, -48), (-180, 0, 60, 0), (10, 89, -170, 89)]:
        assert abs(great_circle(*p) - haversine(*p)) <= 1e-8 * EARTH_RADIUS
    # bearing convention = docstring example of direction(): y = [4,3,2,1,0], targets at rows/cols (2,2), (4,0)
    ys, xs = [4, 3, 2, 1, 0], [0, 1, 2, 3, 4]
    doc = [[45.0, 26.56505, 360.0, 333.43494, 315.0],
           [63.434948, 45.0, 360.0, 315.0, 296.56506],
           [90.0, 90.0, 0.0, 270.0, 270.0],
           [360.0, 135.0, 180.0, 225.0, 243.43495],
           [0.0, 270.0, 180.0, 206.56505, 225.0]]
    tg = [(2, 2), (4, 0)]
    for r in range(5):
        for c in range(5):
            cands = [bearing(xs[c], ys[r], xs[tc], ys[tr]) for tr, tc in tg
                     if abs(euclidean(xs[c], ys[r], xs[tc], ys[tr]) -
                            min(euclidean(xs[c], ys[r], xs[q], ys[p]) for p, q in tg)) < 1e-12]
            assert any(abs(b - doc[r][c]) < 1e-4 for b in cands), (r, c, cands, doc[r][c])
    # tables agree with the double loop
    a = np.array([[0, 3, 0, np.nan], [0, 0, 0, 0], [7, 0, 0, 2.0]])
    for metric in METRICS:
        ys, xs = [40.0, 25.0, 10.0], [-5.0, 5.0, 15.0, 25.0]
        D, _ = pair_tables(ys, xs, metric)
        for tv in (None, [2.0], [7.0, 3.0]):
            ref = brute_force(a, ys, xs, metric, tv)
            got = nearest(D, target_mask(a, tv).ravel()).reshape(a.shape)
            assert np.array_equal(ref, got)
    return True
