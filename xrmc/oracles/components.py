"""Flood-fill connected components of equal value (reference model for regions / polygonize)."""
import numpy as np

N4 = ((-1, 0), (1, 0), (0, -1), (0, 1))
N8 = N4 + ((-1, -1), (-1, 1), (1, -1), (1, 1))


def components(a, conn=4, mask=None):
    """-> int array of labels 1..k in first-occurrence (row-major) order; 0 = NaN or masked-out cell."""
    h, w = a.shape
    lab = np.zeros((h, w), dtype=np.int64)
    nb = N4 if conn == 4 else N8
    nxt = 0
    isnan = np.isnan(a) if a.dtype.kind == "f" else np.zeros((h, w), bool)
    for y in range(h):
        for x in range(w):
            if lab[y, x] or isnan[y, x] or (mask is not None and not mask[y, x]):
                continue
            nxt += 1
            v = a[y, x]
            lab[y, x] = nxt
            stack = [(y, x)]
            while stack:
                cy, cx = stack.pop()
                for dy, dx in nb:
                    ny, nx = cy + dy, cx + dx
                    if 0 <= ny < h and 0 <= nx < w and not lab[ny, nx] and not isnan[ny, nx] \
                            and a[ny, nx] == v and (mask is None or mask[ny, nx]):
                        lab[ny, nx] = nxt
                        stack.append((ny, nx))
    return lab, nxt


def same_partition(lab_ref, out):
    """True iff `out` (float/int labels, NaN allowed where lab_ref == 0) induces the partition of lab_ref."""
    fwd, bwd = {}, {}
    h, w = lab_ref.shape
    for y in range(h):
        for x in range(w):
            r = lab_ref[y, x]
            o = out[y, x]
            if r == 0:
                continue
            if o != o:
                return False
            if fwd.setdefault(r, o) != o or bwd.setdefault(o, r) != r:
                return False
    return True
