"""Closed-form reference formulas for slope / aspect / curvature / hillshade (float64, numpy only).

Every function takes windows `w` of shape (..., 3, 3) -- w[..., r, c], r = row offset 0..2 (array row
increasing), c = column offset 0..2 -- and returns the value at the window centre, shape (...).
NaN propagates through the arithmetic exactly as IEEE prescribes; nothing here imports xrspatial.

Conventions (array based, as the library documents them: row 0 is "north", columns run "east"):

    z1 z2 z3        Horn (1981) 3x3 finite differences
    z4 z5 z6        dz/dcol = ((z3 + 2 z6 + z9) - (z1 + 2 z4 + z7)) / (8 * cellsize_x)
    z7 z8 z9        dz/drow = ((z7 + 2 z8 + z9) - (z1 + 2 z2 + z3)) / (8 * cellsize_y)
"""
import numpy as np

DEG = 180.0 / np.pi


def windows(a):
    """(H, W) raster -> (H-2, W-2, 3, 3) array of the 3x3 windows of its interior cells."""
    a = np.asarray(a, dtype=np.float64)
    return np.lib.stride_tricks.sliding_window_view(a, (3, 3))


def horn(w, cellsize_x=1.0, cellsize_y=1.0):
    """-> (dz/dcol, dz/drow) per unit of distance."""
    w = np.asarray(w, dtype=np.float64)
    east = w[..., 0, 2] + 2.0 * w[..., 1, 2] + w[..., 2, 2]
    west = w[..., 0, 0] + 2.0 * w[..., 1, 0] + w[..., 2, 0]
    south = w[..., 2, 0] + 2.0 * w[..., 2, 1] + w[..., 2, 2]
    north = w[..., 0, 0] + 2.0 * w[..., 0, 1] + w[..., 0, 2]
    return (east - west) / (8.0 * cellsize_x), (south - north) / (8.0 * cellsize_y)


def slope(w, cellsize_x, cellsize_y):
    """Slope in degrees: atan of the magnitude of the Horn gradient."""
    gx, gy = horn(w, cellsize_x, cellsize_y)
    return np.arctan(np.sqrt(gx * gx + gy * gy)) * DEG


def aspect(w):
    """Compass direction (degrees clockwise from north = array row 0) of the downslope direction; -1 where the
    Horn gradient is exactly zero; NaN when a NaN enters the gradient.  Range [0, 360).

    The library documents theta = atan2(dz/drow, -dz/dcol) (a mathematical angle: counter-clockwise from east) and
    converts it to a compass bearing; bearing = 90 - theta (mod 360).  No cell size enters (documented that way).
    Returns (aspect, gradient magnitude) -- the magnitude lets the caller apply the tie rule."""
    gx, gy = horn(w)
    theta = np.arctan2(gy, -gx) * DEG
    out = np.mod(90.0 - theta, 360.0)
    mag = np.sqrt(gx * gx + gy * gy)
    out = np.where((gx == 0.0) & (gy == 0.0), -1.0, out)
    return out, mag


def curvature(w, cellsize):
    """-(second difference along rows + second difference along columns) * 100 / cellsize**2."""
    w = np.asarray(w, dtype=np.float64)
    z = w[..., 1, 1]
    d2 = (w[..., 0, 1] - 2.0 * z + w[..., 2, 1]) + (w[..., 1, 0] - 2.0 * z + w[..., 1, 2])
    return -d2 * 100.0 / (cellsize * cellsize)


def hillshade(w, azimuth=225.0, angle_altitude=25.0):
    """(1 + n . s) / 2 with n the unit surface normal of the central-difference gradient (unit spacing) and s the
    unit vector towards the light (compass azimuth, altitude above the horizon), north = array row 0.

    This is the documented expression  sin(alt) sin(sl) + cos(alt) cos(sl) cos((az' - pi/2) - asp), sl = pi/2 -
    atan|g|, asp = atan2(-g_row, g_col), az' = 360 - azimuth, after expanding the angle sums:
    sin(sl) = 1/sqrt(1+|g|^2), cos(sl)(cos asp, sin asp) = (g_col, -g_row)/sqrt(1+|g|^2)."""
    w = np.asarray(w, dtype=np.float64)
    g_row = (w[..., 2, 1] - w[..., 0, 1]) / 2.0
    g_col = (w[..., 1, 2] - w[..., 1, 0]) / 2.0
    az = np.deg2rad(float(azimuth))
    alt = np.deg2rad(float(angle_altitude))
    east, north, up = np.sin(az) * np.cos(alt), np.cos(az) * np.cos(alt), np.sin(alt)
    # surface normal ~ (-dz/deast, -dz/dnorth, 1) = (-g_col, +g_row, 1)
    shaded = (-g_col * east + g_row * north + up) / np.sqrt(1.0 + g_col * g_col + g_row * g_row)
    return (shaded + 1.0) / 2.0


def full(fn, a, *args):
    """Apply a window formula to every interior cell of raster `a`; border cells are NaN."""
    a = np.asarray(a, dtype=np.float64)
    out = np.full(a.shape, np.nan)
    r = fn(windows(a), *args)
    out[1:-1, 1:-1] = r[0] if isinstance(r, tuple) else r
    return out


def circular_diff(a, b):
    """Distance between two bearings in degrees, modulo 360 (0 and 360 are the same direction)."""
    d = np.abs(np.asarray(a, dtype=np.float64) - np.asarray(b, dtype=np.float64)) % 360.0
    return np.minimum(d, 360.0 - d)
