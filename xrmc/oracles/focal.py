"""Reference models for xrspatial.focal / xrspatial.convolution, by slicing (numpy only).

Everything is written cell by cell with explicit window slices so that it is obviously the
documented definition; nothing is imported from the code under test.  Rasters are first rounded to
float32 (`as_f32`) because every kernel under test computes on float32 copies of the data; the
arithmetic itself is done in float64, so the only difference left is the final rounding of the
implementation's float32 output (absorbed by rtol 1e-5 / atol 1e-6 in the check)."""
import math

import numpy as np

NAN = float("nan")
STAT_NAMES = ("mean", "max", "min", "range", "std", "var", "sum")
HOT_THRESHOLDS = ((2.58, 99), (1.96, 95), (1.65, 90))


def as_f32(data):
    """The raster as the float32 kernels see it, held in float64."""
    return np.asarray(data).astype(np.float32).astype(np.float64)


# ------------------------------------------------------------------------------------------------
# focal.apply / focal_stats
# ------------------------------------------------------------------------------------------------
def window(data, kernel, y, x):
    """Kernel-shaped window centred on cell (y, x): the raster value at every position that lies
    inside the raster AND under a 1-entry of the kernel, NaN at every other position."""
    h, w = data.shape
    kr, kc = kernel.shape
    hr, hc = kr // 2, kc // 2
    top, left = y - hr, x - hc                      # raster coordinates of window position (0, 0)
    r0, r1 = max(top, 0), min(top + kr, h)          # the part of the window that is inside the raster
    c0, c1 = max(left, 0), min(left + kc, w)
    win = np.full((kr, kc), NAN)
    if r0 < r1 and c0 < c1:
        win[r0 - top:r1 - top, c0 - left:c1 - left] = data[r0:r1, c0:c1]
    win[np.asarray(kernel) != 1] = NAN
    return win


def statistic(name, vals):
    """Statistic of a 1-D array of the valid (non-NaN) values under the kernel.  Conventions of the
    numpy nan-functions the docstring of focal_stats refers to: population std/var (ddof=0); the sum
    of no value is 0; every other statistic of no value is NaN."""
    n = vals.size
    if name == "sum":
        return float(vals.sum()) if n else 0.0
    if n == 0:
        return NAN
    if name == "mean":
        return float(vals.sum() / n)
    if name == "max":
        return float(vals.max())
    if name == "min":
        return float(vals.min())
    if name == "range":
        return float(vals.max() - vals.min())
    m = vals.sum() / n
    var = float(((vals - m) ** 2).sum() / n)
    if name == "var":
        return var
    if name == "std":
        return math.sqrt(var)
    raise KeyError(name)


def focal_windows(data, kernel):
    """All windows at once, (H, W, kr, kc): the float32-rounded raster is padded with NaN by half a kernel,
    cut into kernel-shaped slices, and every position not under a 1-entry is set to NaN.  Same thing as
    `window` for every cell (`selftest` checks it), a few hundred times faster."""
    d = as_f32(data)
    k = np.asarray(kernel)
    kr, kc = k.shape
    padded = np.pad(d, ((kr // 2, kr // 2), (kc // 2, kc // 2)), mode="constant", constant_values=NAN)
    wins = np.lib.stride_tricks.sliding_window_view(padded, (kr, kc))
    return np.where(k == 1, wins, NAN)


def focal_stats(data, kernel, names=STAT_NAMES, windows=None):
    """-> float64 array (len(names), H, W): statistic `names[i]` of the non-NaN cells under the kernel
    (`statistic` evaluated for all cells at once)."""
    h, w = np.asarray(data).shape
    wins = windows if windows is not None else focal_windows(data, kernel)
    flat = wins.reshape(h * w, -1)
    valid = ~np.isnan(flat)
    n = valid.sum(axis=1)
    none = n == 0
    with np.errstate(invalid="ignore", divide="ignore"):
        total = np.where(valid, flat, 0.0).sum(axis=1)
        mean = total / n                                              # 0 / 0 -> NaN
        vmax = np.where(none, NAN, np.where(valid, flat, -np.inf).max(axis=1))
        vmin = np.where(none, NAN, np.where(valid, flat, np.inf).min(axis=1))
        var = (np.where(valid, flat - mean[:, None], 0.0) ** 2).sum(axis=1) / n
    table = {"sum": total, "mean": mean, "max": vmax, "min": vmin, "range": vmax - vmin, "var": var,
             "std": np.sqrt(var)}
    return np.stack([table[name].reshape(h, w) for name in names])


def focal_scales(data, kernel, windows=None):
    """-> (sum of |v|, max of |v|) over the valid cells under the kernel, per cell (0 where there is none):
    the magnitudes against which float32 rounding of a sum / a mean, std has to be judged."""
    h, w = np.asarray(data).shape
    wins = windows if windows is not None else focal_windows(data, kernel)
    mag = np.abs(np.where(np.isnan(wins), 0.0, wins)).reshape(h * w, -1)
    return mag.sum(axis=1).reshape(h, w), mag.max(axis=1).reshape(h, w)


def focal_apply(data, kernel, reducer, windows=None):
    """-> float64 array (H, W): the user reducer (a plain Python callable taking the kernel-shaped
    float32 window) evaluated on the reference window of every cell."""
    h, w = np.asarray(data).shape
    wins = (windows if windows is not None else focal_windows(data, kernel)).astype(np.float32)
    out = np.empty((h, w))
    for y in range(h):
        for x in range(w):
            out[y, x] = reducer(wins[y, x])
    return out


def selftest():
    """The vectorised window / statistics code above against the cell-by-cell definitions
    (`window`, `statistic`) on a few kernels and rasters incl. NaN and windows larger than the raster."""
    rasters = [np.arange(20.0).reshape(4, 5) ** 1.5 - 17.0, np.arange(6.0).reshape(2, 3)]
    a = rasters[0].copy(); a[1, 2] = NAN; a[0, 0:3] = NAN
    rasters.append(a)
    kernels = [np.array([[1.0, 0, 0]]), np.array([[0.0], [1], [1]]), np.array([[0.0, 1, 0], [1, 0, 1], [1, 1, 0]]),
               np.array([[1, 0, 0, 1, 0], [0, 0, 0, 0, 0], [0, 1, 0, 0, 1]]), np.eye(5)[:, :3].copy()]
    for a in rasters:
        d = as_f32(a)
        for k in kernels:
            wins = focal_windows(a, k)
            st = focal_stats(a, k, STAT_NAMES, windows=wins)
            for y in range(a.shape[0]):
                for x in range(a.shape[1]):
                    win = window(d, k, y, x)
                    assert np.array_equal(win, wins[y, x], equal_nan=True), (a, k, y, x)
                    vals = win[~np.isnan(win)]
                    for i, name in enumerate(STAT_NAMES):
                        e = statistic(name, vals)
                        assert (e != e and st[i, y, x] != st[i, y, x]) or abs(e - st[i, y, x]) <= 1e-9 * (1 + abs(e)), \
                            (name, a, k, y, x, e, st[i, y, x])
    return True


# ------------------------------------------------------------------------------------------------
# focal.mean
# ------------------------------------------------------------------------------------------------
def is_excluded(v, excludes):
    """A value is excluded when it equals one of `excludes`; NaN is taken to equal NaN."""
    for e in excludes:
        if v == e or (v != v and e != e):
            return True
    return False


def mean_pass(a, excludes):
    """One pass: excluded cells are copied; every other cell becomes the mean of the non-NaN cells of
    its 3x3 window clipped at the raster edge (NaN when there is none).
    -> (out, computed, exact): `computed` marks the cells that were averaged, `exact` those whose
    average is the exactly rounded quotient of an exact sum (all window values small integers), so
    that every correct implementation produces the same bits."""
    h, w = a.shape
    out = np.empty_like(a)
    computed = np.zeros((h, w), bool)
    exact = np.ones((h, w), bool)
    for y in range(h):
        for x in range(w):
            v = a[y, x]
            if is_excluded(v, excludes):
                out[y, x] = v
                continue
            win = a[max(y - 1, 0):y + 2, max(x - 1, 0):x + 2]
            vals = win[~np.isnan(win)]
            computed[y, x] = True
            out[y, x] = vals.sum() / vals.size if vals.size else NAN
            exact[y, x] = bool(np.all(vals == np.round(vals)) and np.all(np.abs(vals) < 2.0 ** 40))
    return out, computed, exact


def focal_mean(data, passes, excludes, eps=1e-9):
    """-> (out float64, tie).  `tie` is True when some value produced by a pass and fed to a later
    pass lies within eps of an excluded value without being an exactly determined number: whether it
    is then passed through or averaged depends on the last bit, so the case cannot be decided."""
    a = np.asarray(data).astype(np.float64)
    tie = False
    for p in range(passes):
        a, computed, exact = mean_pass(a, excludes)
        if p + 1 < passes:
            for e in excludes:
                if e != e:
                    continue
                near = computed & ~exact & (np.abs(a - e) <= eps * max(1.0, abs(e)))
                if near.any():
                    tie = True
    return a, tie


# ------------------------------------------------------------------------------------------------
# convolution_2d
# ------------------------------------------------------------------------------------------------
def convolution_2d(data, kernel):
    """-> float64 (H, W): sum over the full window of kernel[i, j] * raster[y - hr + i, x - hc + j]
    (correlation: no flipping); NaN wherever the window is not entirely inside the raster.  NaN cells
    propagate (IEEE sum)."""
    d = as_f32(data)
    k = np.asarray(kernel, dtype=np.float64)
    h, w = d.shape
    kr, kc = k.shape
    hr, hc = kr // 2, kc // 2
    out = np.full((h, w), NAN)
    for y in range(hr, h - hr):
        for x in range(hc, w - hc):
            out[y, x] = float((k * d[y - hr:y + hr + 1, x - hc:x + hc + 1]).sum())
    return out


# ------------------------------------------------------------------------------------------------
# hotspots
# ------------------------------------------------------------------------------------------------
def hotspots(data, kernel, eps=1e-4):
    """-> (expected int array, decided bool array, ties bool array, z float array).

    z = (neighbourhood mean - global mean) / global std, where the neighbourhood mean is the
    convolution with kernel / kernel.sum() (defined only where the whole window is inside the raster
    and free of NaN) and global mean / std (population) are over the non-NaN cells.
    class: |z| > 2.58 -> 99, > 1.96 -> 95, > 1.65 -> 90, else 0, times sign(z).
    `decided` is False where z is undefined; `ties` marks cells with |z| within eps of a threshold."""
    d = as_f32(data)
    k = np.asarray(kernel, dtype=np.float64)
    vals = d[~np.isnan(d)]
    gm = vals.sum() / vals.size
    gs = math.sqrt(((vals - gm) ** 2).sum() / vals.size)
    nmean = convolution_2d(data, k) / k.sum()
    z = (nmean - gm) / gs
    expected = np.zeros(d.shape, dtype=np.int64)
    decided = ~np.isnan(z)
    ties = np.zeros(d.shape, bool)
    for y, x in zip(*np.nonzero(decided)):
        a = abs(z[y, x])
        if any(abs(a - t) < eps for t, _ in HOT_THRESHOLDS):
            ties[y, x] = True
            continue
        conf = 0
        for t, c in HOT_THRESHOLDS:
            if a > t:
                conf = c
                break
        expected[y, x] = conf if z[y, x] > 0 else -conf
    return expected, decided & ~ties, ties, z
