"""Per-cell reference definitions of the local (cell-by-cell, multi-layer) operators.

Plain Python on Python scalars; nothing is imported from the code under test and numpy is not used.
A *cell* is the tuple of the selected data layers' values at one position (in data_vars order), `ref` the
value of the reference layer at the same position.  Every operator is NaN-absorbing: a NaN in any data
layer of the cell gives NaN.

`apply(op, layers, ref_layer, arg)` evaluates an operator on whole layers given as nested lists
(rows of Python scalars) and returns nested lists; `None` marks a cell the property does not define.
"""
import math

NAN = float("nan")
STATS = ("max", "mean", "median", "min", "std", "sum")
FREQUENCIES = ("lesser_frequency", "equal_frequency", "greater_frequency")


def isnan(v):
    return v != v


def has_nan(cell):
    return any(v != v for v in cell)


def cell_stat(func, cell):
    """The statistic `func` of the cell's values (population std, median = mean of the two middle values)."""
    if has_nan(cell):
        return NAN
    n = len(cell)
    if func == "max":
        return max(cell)
    if func == "min":
        return min(cell)
    if func == "sum":
        return sum(cell)
    if func == "mean":
        return sum(cell) / n
    if func == "median":
        s = sorted(cell)
        return s[n // 2] if n % 2 else (s[n // 2 - 1] + s[n // 2]) / 2
    if func == "std":
        m = sum(cell) / n
        return math.sqrt(sum((v - m) ** 2 for v in cell) / n)
    raise KeyError(func)


def frequency(kind, ref, cell):
    """Number of layers whose value is below (lesser) / equal to (equal) / above (greater) the reference value."""
    if has_nan(cell):
        return NAN
    if kind == "lesser_frequency":
        return sum(1 for v in cell if v < ref)
    if kind == "equal_frequency":
        return sum(1 for v in cell if v == ref)
    if kind == "greater_frequency":
        return sum(1 for v in cell if v > ref)
    raise KeyError(kind)


def lowest_position(cell):
    """1-based index of the first minimum."""
    if has_nan(cell):
        return NAN
    best = 0
    for i, v in enumerate(cell):
        if v < cell[best]:
            best = i
    return best + 1


def highest_position(cell):
    """1-based index of the first maximum."""
    if has_nan(cell):
        return NAN
    best = 0
    for i, v in enumerate(cell):
        if v > cell[best]:
            best = i
    return best + 1


def rank(ref, cell):
    """The ref-th smallest value (ref = 1 -> the minimum); None when ref is not in 1..len(cell)
    (outside the property's domain: nothing is predicted)."""
    if has_nan(cell):
        return NAN
    if ref != int(ref) or not 1 <= ref <= len(cell):
        return None
    return sorted(cell)[int(ref) - 1]


def combine(cells):
    """cells in row-major order -> (ids, key): equal tuples share an id, ids number the distinct NaN-free
    tuples from 1 in first-occurrence order, key maps id -> tuple; a cell with a NaN gets NaN and no id."""
    ids, key, seen = [], {}, {}
    for cell in cells:
        cell = tuple(cell)
        if has_nan(cell):
            ids.append(NAN)
            continue
        if cell not in seen:
            seen[cell] = len(seen) + 1
            key[seen[cell]] = cell
        ids.append(seen[cell])
    return ids, key


def apply(op, layers, ref_layer=None, arg=None):
    """Evaluate `op` cell by cell.

    layers     list of k >= 1 same-shaped nested lists (the data layers, in data_vars order)
    ref_layer  nested list of the reference layer (frequency operators and rank)
    arg        the statistic name for op == 'cell_stats'
    -> (nested list of expected cell values, extra) where extra is the id -> tuple key for 'combine', else None
    """
    h, w = len(layers[0]), len(layers[0][0])
    cells = [[tuple(lay[y][x] for lay in layers) for x in range(w)] for y in range(h)]
    extra = None
    if op == "cell_stats":
        out = [[cell_stat(arg, c) for c in row] for row in cells]
    elif op in FREQUENCIES:
        out = [[frequency(op, ref_layer[y][x], cells[y][x]) for x in range(w)] for y in range(h)]
    elif op == "lowest_position":
        out = [[lowest_position(c) for c in row] for row in cells]
    elif op == "highest_position":
        out = [[highest_position(c) for c in row] for row in cells]
    elif op == "rank":
        out = [[rank(ref_layer[y][x], cells[y][x]) for x in range(w)] for y in range(h)]
    elif op == "combine":
        ids, extra = combine([c for row in cells for c in row])
        out = [ids[y * w:(y + 1) * w] for y in range(h)]
    else:
        raise KeyError(op)
    return out, extra


def selftest():
    n = NAN
    assert cell_stat("median", (3, 1, 2)) == 2 and cell_stat("median", (4, 1, 2, 3)) == 2.5
    assert cell_stat("std", (1, 1, 1)) == 0 and abs(cell_stat("std", (0, 2)) - 1) < 1e-15
    assert isnan(cell_stat("max", (1, n))) and cell_stat("sum", (1, 2, 2)) == 5 and cell_stat("mean", (1, 2)) == 1.5
    for cell in [(0, 1, 2), (2, 2, 2), (1, 0, 1, 0)]:
        for ref in (1, 2, 3):
            assert sum(frequency(k, ref, cell) for k in FREQUENCIES) == len(cell)
    assert frequency("lesser_frequency", 2, (0, 1, 2)) == 2 and frequency("greater_frequency", 1, (0, 1, 2)) == 1
    assert lowest_position((1, 0, 0)) == 2 and highest_position((1, 2, 2)) == 2 and isnan(lowest_position((n, 0)))
    assert rank(1, (2, 0, 1)) == 0 and rank(3, (2, 0, 1)) == 2 and rank(4, (2, 0, 1)) is None and isnan(rank(1, (n, 1)))
    ids, key = combine([(1, 2), (0, 0), (1, 2), (n, 0), (0, 1)])
    assert ids[:3] == [1, 2, 1] and isnan(ids[3]) and ids[4] == 3 and key == {1: (1, 2), 2: (0, 0), 3: (0, 1)}
    return True
