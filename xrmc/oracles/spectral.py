"""Published band formulas of the spectral indices (property C13), evaluated exactly.  No xrspatial import.

Every formula takes the band values of ONE cell, keyed by the band names of the public signature, as
`fractions.Fraction` and returns a Fraction, or UNDEF when the denominator is zero (the property requires NaN
there), or OUTSIDE when the formula leaves the reals (EBBI with swir + tir < 0: nothing is asserted).

Sources (re-derived from the cited publications, not from the kernels):
  NDVI  (NIR - Red) / (NIR + Red)                                   Rouse et al. 1974
  NBR   (NIR - SWIR2) / (NIR + SWIR2)                               USGS Landsat NBR
  NBR2  (SWIR1 - SWIR2) / (SWIR1 + SWIR2)                           USGS Landsat NBR2
  NDMI  (NIR - SWIR1) / (NIR + SWIR1)                               USGS NDMI
  GCI   NIR / Green - 1                                             Gitelson et al. 2003
  SIPI  (NIR - Blue) / (NIR - Red)                                  Penuelas et al. 1995 (R800, R445, R680)
  EVI   G (NIR - Red) / (NIR + C1 Red - C2 Blue + L)                Huete et al. 2002
  SAVI  (1 + L) (NIR - Red) / (NIR + Red + L)                       Huete 1988 (the docstring's reference);
        "when set to zero, savi will return the same as ndvi" (docstring)
  ARVI  (NIR - 2 Red + Blue) / (NIR + 2 Red + Blue)                 the form published by EOS / QGIS recipes and
        pinned by the docstring example (1519, 1327, 1281 -> 0.02676934).  Kaufman & Tanre 1992 with gamma = 1
        has "- Blue" in the denominator; the docstring example contradicts that form, so the widely published
        "+ Blue" form is the one asserted.
  EBBI  (SWIR - Red) / (10 sqrt(SWIR + TIR))                        As-syakur et al. 2012 with the band names of
        the docstring (first argument `red_agg`)
"""
import math
from fractions import Fraction

import numpy as np

UNDEF = "undefined"      # zero denominator -> the property demands NaN
OUTSIDE = "outside"      # formula not real-valued -> nothing asserted


def _ratio(num, den):
    return UNDEF if den == 0 else num / den


def _nd(a, b):
    return _ratio(a - b, a + b)


def ndvi(nir, red):
    return _nd(nir, red)


def nbr(nir, swir2):
    return _nd(nir, swir2)


def nbr2(swir1, swir2):
    return _nd(swir1, swir2)


def ndmi(nir, swir1):
    return _nd(nir, swir1)


def gci(nir, green):
    return UNDEF if green == 0 else nir / green - 1


def sipi(nir, red, blue):
    return _ratio(nir - blue, nir - red)


def arvi(nir, red, blue):
    return _ratio(nir - 2 * red + blue, nir + 2 * red + blue)


def evi(nir, red, blue, c1, c2, soil_factor, gain):
    r = _ratio(nir - red, nir + c1 * red - c2 * blue + soil_factor)
    return r if r is UNDEF else gain * r


def savi(nir, red, soil_factor):
    r = _ratio(nir - red, nir + red + soil_factor)
    return r if r is UNDEF else r * (1 + soil_factor)


def ebbi(red, swir, tir):
    s = swir + tir
    if s < 0:
        return OUTSIDE
    if s == 0:
        return UNDEF
    return float(swir - red) / (10.0 * math.sqrt(s))


# name -> (formula, band argument names in the order of the public signature, parameter names)
INDICES = {
    "ndvi": (ndvi, ("nir", "red"), ()),
    "nbr": (nbr, ("nir", "swir2"), ()),
    "nbr2": (nbr2, ("swir1", "swir2"), ()),
    "ndmi": (ndmi, ("nir", "swir1"), ()),
    "gci": (gci, ("nir", "green"), ()),
    "savi": (savi, ("nir", "red"), ("soil_factor",)),
    "arvi": (arvi, ("nir", "red", "blue"), ()),
    "sipi": (sipi, ("nir", "red", "blue"), ()),
    "evi": (evi, ("nir", "red", "blue"), ("c1", "c2", "soil_factor", "gain")),
    "ebbi": (ebbi, ("red", "swir", "tir"), ()),
}
NORMALISED_DIFFERENCE = ("ndvi", "nbr", "nbr2", "ndmi")


def expected(name, bands, params=()):
    """bands: floats of one cell (may be NaN).  -> float, or None for 'must be NaN', or OUTSIDE."""
    fn = INDICES[name][0]
    if any(b != b for b in bands):
        return None                                   # NaN bands propagate
    r = fn(*[Fraction(float(b)) for b in bands], *[Fraction(float(p)) for p in params])
    if r is UNDEF:
        return None
    if r is OUTSIDE:
        return OUTSIDE
    return float(r)


TIE = "tie"


def alpha_ref(red, nodata, f32_raster=False):
    """true_color: alpha is 0 exactly where red is NaN or <= nodata, 255 elsewhere.

    `red` is the cell as a Python number (ndarray.tolist(): the exact value stored in the raster's own dtype),
    `nodata` the Python number passed by the caller; Python compares int/float exactly, so a float64 cell one ulp
    above nodata, or the int cell 2^24+1 against nodata 2^24, is > nodata.
    f32_raster: the cell comes from a float32 raster.  When nodata is not float32-representable the raster cannot
    hold it; "the raster's nodata value" may then mean float32(nodata).  Where the two readings disagree
    (nodata < red = float32(nodata)) nothing is asserted -> TIE."""
    if red != red:
        return 0
    exact = red <= nodata
    if f32_raster and exact != (red <= float(np.float32(nodata))):
        return TIE
    return 0 if exact else 255
