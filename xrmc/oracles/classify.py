"""Reference models for the classifiers (property C12).  Nothing here imports xrspatial.

All decisions are taken on exact rationals (`fractions.Fraction` of the actual cell values); the only
trusted numeric routine is `numpy.percentile`.  A decision that hinges on a comparison closer than
`eps` -- or on which side of an interior cut / band edge a value sitting exactly on it belongs, which
no docstring defines -- is returned as TIE and must not be asserted by the caller.
"""
import itertools
import math
from fractions import Fraction
from functools import lru_cache

import numpy as np

TIE = "tie"


def finite(v):
    v = float(v)
    return v == v and v not in (math.inf, -math.inf)


# ---- binary / reclassify --------------------------------------------------------------------------
# Cells arrive as Python floats / ints obtained with ndarray.tolist(): the conversion of a float32 / float64 /
# int cell to a Python number is exact, and Python compares float with float and float with int exactly.  So
# `b >= v` below compares the cell AS STORED IN THE RASTER'S OWN DTYPE with the float64 (or int) bin edge AS
# GIVEN -- never a rounded copy of either (np.float32(0.1) = 0.100000001490116... is > 0.1).
def f32(x):
    """x rounded to the nearest float32, as an (exact) Python float."""
    return float(np.float32(x))


def binary_ref(v, values, f32_raster=False):
    """1 exactly on the listed values, 0 on every other finite cell, None (= NaN) on NaN / +-inf.

    f32_raster: the cell comes from a float32 raster.  A listed value x that is not float32-representable cannot
    occur in such a raster at all; whether the cell float32(x) (the number a float32 raster holds where the user
    wrote x) counts as "the listed value" is not settled by the statement -> TIE."""
    if not finite(v):
        return None
    if any(v == x for x in values):
        return 1
    if f32_raster and any(finite(x) and abs(float(x)) < 3e38 and v == f32(x) for x in values):
        return TIE
    return 0


def reclassify_ref(v, bins, new_values):
    """New value of the FIRST bin (linear scan) whose upper bound is >= v (exact comparison, see above).
    None (= NaN) for NaN / +-inf cells and for finite values above the last bin."""
    if not finite(v):
        return None
    for b, nv in zip(bins, new_values):
        if b >= v:
            return nv
    return None


# ---- assertions shared by quantile / equal_interval / natural_breaks -------------------------------
def label_problems(cells, labels, k):
    """`cells`, `labels`: flat sequences of floats.  -> (kind, text) or None, most basic problem first.

    nonfinite_classified  a NaN / inf cell received a class
    finite_cell_nan       a finite cell received NaN
    range                 a label that is not an integer of [0, k-1]
    order                 a larger value received a smaller class"""
    fin = []
    for v, lab in zip(cells, labels):
        lab = float(lab)
        if not finite(v):
            if lab == lab:
                return "nonfinite_classified", "non-finite cell %r got class %r" % (float(v), lab)
        else:
            fin.append((float(v), lab))
    for v, lab in fin:
        if lab != lab:
            return "finite_cell_nan", "finite cell %r got NaN instead of a class" % v
    for v, lab in fin:
        if not (lab == int(lab) and 0 <= lab <= k - 1):
            return "range", "cell %r got label %r, not an integer of [0, %d]" % (v, lab, k - 1)
    fin.sort()
    for (v0, l0), (v1, l1) in zip(fin, fin[1:]):
        if v1 > v0 and l1 < l0:
            return "order", "value %r has class %r but the smaller value %r has class %r" % (v1, l1, v0, l0)
    return None


# ---- equal interval -------------------------------------------------------------------------------
@lru_cache(maxsize=200000)
def equal_interval_ref(values, k, rel_eps):
    """values: tuple of finite floats (>= 2 distinct).  -> tuple of class (int) or TIE, one per value.

    Class i is the i-th of the k equal-width intervals of [min, max]: with t = (v - min) * k / (max - min)
    the class is floor(t) for a non-integer t, 0 for t = 0 and k-1 for t = k; an integer t in 1..k-1 is a
    value sitting on an interior cut (side undocumented) -> TIE, as is any t > 0 within eps of such a cut
    (eps = rel_eps x the magnitude of the values, which for a narrow range far from 0 can cover whole intervals)."""
    fr = [Fraction(float(v)) for v in values]
    mn, mx = min(fr), max(fr)
    assert mx > mn
    scale = max(abs(mn), abs(mx))
    eps_t = Fraction(rel_eps) * scale * k / (mx - mn)
    out = []
    for v in fr:
        t = (v - mn) * k / (mx - mn)
        j = min(max(round(t), 1), k - 1)          # the nearest INTERIOR cut (eps_t may exceed half an interval when the
        if t > 0 and abs(t - j) <= eps_t:         # range is tiny relative to the magnitude of the values; the minimum
            out.append(TIE)                       # itself is in interval 0 wherever the cuts > min fall)
        elif t >= k:
            out.append(k - 1)
        else:
            out.append(int(math.floor(t)))
    return tuple(out)


# ---- quantile -------------------------------------------------------------------------------------
@lru_cache(maxsize=200000)
def quantile_ref(values, k, rel_eps):
    """values: tuple of finite floats.  -> (edges, classes): classes is None when two of the k percentile edges
    coincide (fewer than k bands exist; the function then documents "using n bins" and nothing beyond the
    generic assertions is claimed), else a list of int / TIE per value: band i = (e_{i-1}, e_i] with
    e_i = percentile(100 i / k); a value within eps of an interior edge is a TIE; the top edge e_k = max
    belongs to band k-1 under either convention."""
    data = np.sort(np.asarray(values, dtype=np.float64))
    edges = [float(np.percentile(data, 100.0 * i / k)) for i in range(1, k + 1)]
    scale = max(abs(float(data[0])), abs(float(data[-1])), 1e-300)
    eps = rel_eps * scale
    if any(b - a <= 4 * eps for a, b in zip(edges, edges[1:])):
        return edges, None
    out = []
    for v in values:
        v = float(v)
        cls = None
        for i, e in enumerate(edges):
            if i < k - 1 and abs(v - e) <= eps:
                cls = TIE
                break
            if v <= e or i == k - 1:
                cls = i
                break
        out.append(cls)
    return edges, tuple(out)


# ---- natural breaks -------------------------------------------------------------------------------
def _ssd(group):
    n = len(group)
    s = sum(group)
    return sum(v * v for v in group) - s * s / n


def ssd_of_labels(values, labels):
    """Within-class sum of squared deviations of the partition induced by `labels` (exact)."""
    groups = {}
    for v, lab in zip(values, labels):
        groups.setdefault(float(lab), []).append(Fraction(float(v)))
    return sum((_ssd(g) for g in groups.values()), Fraction(0))


@lru_cache(maxsize=200000)
def min_ssd(values, k):
    """values: tuple of finite floats.  Brute force: minimum within-class SSD over ALL partitions of the
    sorted distinct values (with their multiplicities) into k contiguous non-empty classes.
    Requires >= k distinct values."""
    fr = sorted(Fraction(float(v)) for v in values)
    distinct = sorted(set(fr))
    m = len(distinct)
    assert m >= k
    blocks = [[v for v in fr if v == d] for d in distinct]
    best = None
    for cuts in itertools.combinations(range(1, m), k - 1):
        bounds = (0,) + cuts + (m,)
        total = Fraction(0)
        for a, b in zip(bounds, bounds[1:]):
            total += _ssd([v for blk in blocks[a:b] for v in blk])
        if best is None or total < best:
            best = total
    return best


def sum_squares(values):
    return sum((Fraction(float(v)) ** 2 for v in values), Fraction(0))
