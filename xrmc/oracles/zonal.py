"""Dictionary group-by reference models for zonal stats and crosstab (C02, C04).

Pure Python on flattened cell lists; nothing here imports the code under test.  A *zone* is a
finite id present in the zones raster; a *valid* cell is one whose value is finite and different
from the nodata value; a NaN, -inf or +inf value cell is therefore never valid: it belongs to no
category / aggregate and is not part of the zone's valid-cell total (the percentage denominator).
All functions take plain 2-D (3-D for the layered crosstab) numpy arrays.
`None` in a returned table means "the property defines no value for this entry" (not asserted)."""
import math
import statistics
from fractions import Fraction
from functools import lru_cache

NAN = float("nan")
STAT_NAMES = ("mean", "max", "min", "sum", "std", "var", "count")


def finite(x):
    return not (math.isnan(x) or math.isinf(x))


def valid(v, nodata=None):
    return finite(v) and (nodata is None or v != nodata)


def zone_ids_present(zones):
    """Ascending list of the distinct finite ids of the zones raster."""
    return sorted({float(z) for z in zones.ravel().tolist() if finite(z)})


def group(zones, values, nodata=None):
    """{zone id: [valid values of the cells of that zone, in flatten order]} for every zone present."""
    g = {}
    for z, v in zip(zones.ravel().tolist(), values.ravel().tolist()):
        if finite(z):
            cell = g.setdefault(float(z), [])
            if valid(v, nodata):
                cell.append(v)
    return g


def select(present, requested):
    """Ascending ids that are present and requested (requested None = all)."""
    if requested is None:
        return sorted(present)
    req = {float(r) for r in requested}
    return sorted(p for p in present if p in req)


# ---- statistics of a list of numbers (exact rational arithmetic, rounded once at the end) --------------
@lru_cache(maxsize=200_000)
def _stat(name, vals):
    n = len(vals)
    if n == 0:
        return NAN
    if name == "count":
        return float(n)
    if name == "max":
        return float(max(vals))
    if name == "min":
        return float(min(vals))
    fr = [Fraction(v) for v in vals]
    s = sum(fr)
    if name == "sum":
        return float(s)
    m = s / n
    if name == "mean":
        return float(m)
    var = sum((x - m) ** 2 for x in fr) / n      # population variance (ddof = 0), like ndarray.var()
    if name == "var":
        return float(var)
    if name == "std":
        return math.sqrt(var)
    raise KeyError(name)


def stat(name, vals):
    """Statistic `name` of the list `vals`; NaN for an empty list."""
    return _stat(name, tuple(vals))


# symmetric user reducers: (function handed to the implementation, independent model on a list)
def _impl_range(a):
    return a.max() - a.min()


def _impl_median(a):
    import numpy as np
    return np.median(a)


def _impl_above1(a):
    return (a > 1).sum()


CUSTOM_REDUCERS = {
    "range": (_impl_range, lambda vals: float(max(vals) - min(vals))),
    "median": (_impl_median, lambda vals: float(statistics.median(vals))),
    "above1": (_impl_above1, lambda vals: float(sum(1 for v in vals if v > 1))),
}


def any_stat(name, vals):
    if name in CUSTOM_REDUCERS:
        return CUSTOM_REDUCERS[name][1](vals) if len(vals) else NAN
    return stat(name, vals)


# ---- zonal stats ------------------------------------------------------------------------------------
def stats_table(zones, values, names=STAT_NAMES, zone_ids=None, nodata=None):
    """-> (ids ascending, {stat name: [value per id]}); an id without a valid cell gets NaN everywhere."""
    g = group(zones, values, nodata)
    ids = select(g.keys(), zone_ids)
    return ids, {nm: [any_stat(nm, g[z]) for z in ids] for nm in names}


def stats_raster(zones, values, names=STAT_NAMES, zone_ids=None, nodata=None):
    """DataArray form: {stat name: nested list shaped like the raster}; NaN outside the selected zones."""
    ids, tab = stats_table(zones, values, names, zone_ids, nodata)
    pos = {z: i for i, z in enumerate(ids)}
    h, w = zones.shape
    zl = zones.tolist()
    out = {}
    for nm in names:
        col = tab[nm]
        out[nm] = [[col[pos[float(zl[y][x])]] if (finite(zl[y][x]) and float(zl[y][x]) in pos) else NAN
                    for x in range(w)] for y in range(h)]
    return ids, out


# ---- crosstab, 2-D values ---------------------------------------------------------------------------
def contingency(zones, values, nodata=None):
    """-> (zones asc, categories asc, {(zone, cat): cells}, {zone: valid cells})."""
    counts, total = {}, {}
    zs, cs = set(), set()
    for z, v in zip(zones.ravel().tolist(), values.ravel().tolist()):
        okv = valid(v, nodata)
        if okv:
            cs.add(float(v))            # categories are discovered on the whole raster
        if finite(z):
            z = float(z)
            zs.add(z)
            total.setdefault(z, 0)
            if okv:
                total[z] += 1
                counts[(z, float(v))] = counts.get((z, float(v)), 0) + 1
    return sorted(zs), sorted(cs), counts, total


def crosstab_table(zones, values, zone_ids=None, cat_ids=None, agg="count", nodata=None):
    """-> (zone ids asc, cat ids asc, {zone: {cat: entry}}): the rows / columns of the unrestricted table
    named by zone_ids / cat_ids.  Percentage entries of a zone without valid cell are None."""
    zs, cs, counts, total = contingency(zones, values, nodata)
    rows, cols = select(zs, zone_ids), select(cs, cat_ids)
    table = {}
    for z in rows:
        row = {}
        for c in cols:
            n = counts.get((z, c), 0)
            if agg == "count":
                row[c] = float(n)
            else:
                row[c] = (n / total[z] * 100.0) if total[z] else None
        table[z] = row
    return rows, cols, table


# ---- crosstab, 3-D values (one layer per category) ------------------------------------------------------
def crosstab3d_table(zones, layers, layer_ids, zone_ids=None, cat_ids=None, agg="count", nodata=None):
    """`layers`: array (L, H, W) with layer l holding category layer_ids[l].
    -> (zone ids asc, selected layer ids, {zone: {layer id: aggregate or None when no valid cell}})."""
    zs = zone_ids_present(zones)
    rows = select(zs, zone_ids)
    lids = [float(c) for c in layer_ids]
    want = None if cat_ids is None else {float(c) for c in cat_ids}
    cols = [c for c in lids if want is None or c in want]
    table = {z: {} for z in rows}
    for li, c in enumerate(lids):
        if c not in cols:
            continue
        g = group(zones, layers[li], nodata)
        for z in rows:
            table[z][c] = stat(agg, g[z]) if g[z] else None
    return rows, cols, table


# ---- comparison helpers -----------------------------------------------------------------------------
def close(a, b, rtol=1e-9, atol=1e-12):
    """NaN-aware |a-b| <= atol + rtol*|b| for two Python floats."""
    if a != a or b != b:
        return a != a and b != b
    if a == b:
        return True
    return abs(a - b) <= atol + rtol * abs(b)
