"""Reference geometry for polygon rings drawn on the corners of a unit-cell grid (oracle for polygonize).

Conventions: a ring is a sequence of (x, y) pairs whose last pair repeats the first; x = column index,
y = row index, cell (row r, column c) is the unit square [c, c+1] x [r, r+1] and its centre is
(c + 0.5, r + 0.5).  Vertices sit at integers and centres at half-integers, so a centre is never on an edge and
the even-odd rule needs no boundary convention.  Nothing here imports the code under test.
"""


def shoelace(ring):
    """Signed area of a closed ring; positive = anticlockwise when x points right and y points up."""
    s = 0.0
    for k in range(len(ring) - 1):
        x1, y1 = ring[k]
        x2, y2 = ring[k + 1]
        s += x1 * y2 - x2 * y1
    return s / 2.0


def point_in_ring(px, py, ring):
    """Even-odd rule: parity of the number of ring edges crossed by the ray from (px, py) towards +x.
    (px, py) must not lie on an edge of the ring."""
    inside = False
    for k in range(len(ring) - 1):
        x1, y1 = ring[k]
        x2, y2 = ring[k + 1]
        if (y1 > py) != (y2 > py):
            if x1 + (py - y1) * (x2 - x1) / (y2 - y1) > px:
                inside = not inside
    return inside


def ring_problems(ring, h, w):
    """Structural checks of one ring on an h x w raster -> list of messages (empty = fine):
    closed; every vertex an integer cell corner of the raster; consecutive vertices differ along exactly one axis."""
    if len(ring) < 2:
        return ["ring has %d point(s)" % len(ring)]
    bad = []
    if ring[0][0] != ring[-1][0] or ring[0][1] != ring[-1][1]:
        bad.append("ring not closed: first %r last %r" % (ring[0], ring[-1]))
    for x, y in ring:
        if not (x == x and y == y and abs(x) < 1e15 and abs(y) < 1e15 and x == int(x) and y == int(y)):
            bad.append("vertex (%r, %r) is not an integer cell corner" % (x, y))
            break
        if not (0 <= x <= w and 0 <= y <= h):
            bad.append("vertex (%r, %r) is outside the raster [0,%d]x[0,%d]" % (x, y, w, h))
            break
    for k in range(len(ring) - 1):
        x1, y1 = ring[k]
        x2, y2 = ring[k + 1]
        if (x1 != x2) == (y1 != y2):
            bad.append("edge (%r, %r)->(%r, %r) is not a non-degenerate axis-parallel segment" % (x1, y1, x2, y2))
            break
    return bad


def cells_in_ring_generic(ring, h, w):
    """Bit set (bit r*w + c) of the cells of an h x w raster whose centre is inside `ring` (even-odd rule)."""
    acc = 0
    for r in range(h):
        for c in range(w):
            if point_in_ring(c + 0.5, r + 0.5, ring):
                acc |= 1 << (r * w + c)
    return acc


def cells_in_ring(ring, h, w):
    """Same set as cells_in_ring_generic for a ring that passed ring_problems(), computed for all centres at once.

    The ray from the centre (c + 0.5, r + 0.5) towards +x can only cross vertical edges; it crosses the vertical
    edge x = X, y in [lo, hi] exactly when c < X and lo <= r < hi.  So every vertical edge toggles the parity of
    the cells left of it in the rows it spans."""
    acc = 0
    for k in range(len(ring) - 1):
        x1, y1 = ring[k]
        x2, y2 = ring[k + 1]
        if x1 == x2 and y1 != y2:
            lo, hi = (int(y1), int(y2)) if y1 < y2 else (int(y2), int(y1))
            rowbits = (1 << int(x1)) - 1
            for r in range(lo, hi):
                acc ^= rowbits << (r * w)
    return acc


def popcount(x):
    return bin(x).count("1")


def selftest():
    sq = [[0.0, 0.0], [2.0, 0.0], [2.0, 2.0], [0.0, 2.0], [0.0, 0.0]]
    assert shoelace(sq) == 4.0 and shoelace(sq[::-1]) == -4.0
    assert ring_problems(sq, 2, 2) == [] and ring_problems(sq, 1, 2) and ring_problems(sq[:-1], 2, 2)
    assert ring_problems([[0.0, 0.0], [1.0, 1.0], [0.0, 1.0], [0.0, 0.0]], 2, 2)
    assert ring_problems([[0.0, 0.0], [0.5, 0.0], [0.5, 1.0], [0.0, 1.0], [0.0, 0.0]], 2, 2)
    assert cells_in_ring(sq, 3, 3) == cells_in_ring_generic(sq, 3, 3) == 0b011011
    # L shape, a ring touching itself at a corner (two squares joined diagonally), a clockwise ring
    ell = [[0, 0], [3, 0], [3, 1], [1, 1], [1, 3], [0, 3], [0, 0]]
    eight = [[0, 0], [1, 0], [1, 1], [2, 1], [2, 2], [1, 2], [1, 1], [0, 1], [0, 0]]
    for ring in (ell, eight, ell[::-1], eight[::-1]):
        ring = [[float(x), float(y)] for x, y in ring]
        assert ring_problems(ring, 3, 3) == []
        assert cells_in_ring(ring, 3, 3) == cells_in_ring_generic(ring, 3, 3)
        assert abs(shoelace(ring)) == popcount(cells_in_ring(ring, 3, 3))
    assert popcount(cells_in_ring([[float(x), float(y)] for x, y in eight], 3, 3)) == 2
    return True
