"""E3a-c: controlled Dask scheduler, write-monitor partial-order reduction, deviation-bounded
schedule enumeration.

`ControlledScheduler(prefix).get` is a Dask `get(dsk, keys)` callable that executes ONE task at a
time.  At every scheduling point the ready tasks are listed in canonical order (Dask's own static
`order()` priority; choice 0 = what the synchronous scheduler would run next) and the next choice of
the recorded choice sequence picks one (prefix replay; an out-of-range choice is a hard error; past the
prefix the default choice 0 is taken).  One `ControlledScheduler` object spans all `compute` calls
made during one library call (several ops compute a global mean/min/max eagerly first), so a choice
sequence identifies a complete execution.

Write monitor: around every task the values that the task can reach (its dependencies plus every
cached value whose memory may overlap one of them) are digested before and after; with
`full=True` every cached value is digested.  A task that changes any of them, or the tracked global
state, is recorded as impure.  If no task is impure, all linear extensions of the task DAG are
equivalent (tasks are functions of their dependencies) and one execution decides all schedules.
"""
import bisect
import itertools
import re
from collections.abc import Mapping

import numpy as np

from ..core.digest import digest


class ScheduleError(RuntimeError):
    pass


# content tokens (md5), uuids, and the truncated tokens of fused task names ("...-2534c9a9433--476")
_TOKEN = re.compile(r"[0-9a-f]{8}-[0-9a-f]{4}-[0-9a-f]{4}-[0-9a-f]{4}-[0-9a-f]{12}|[0-9a-f]{7,}|(?<=--)[0-9a-f]{2,4}(?![0-9a-z])")


_TAIL = re.compile(r"(?<=#-)-?[0-9a-f]{2,6}(?![0-9a-z])")


def keyname(k):
    """Task key with content tokens stripped (the finalize key carries a fresh uuid on every compute; fused task
    names end in truncated token fragments)."""
    s = _TOKEN.sub("#", str(k))
    prev = None
    while prev != s:
        prev = s
        s = _TAIL.sub("#", s)
    return s


def _arrays_in(v, out, depth=0):
    if isinstance(v, np.ndarray):
        out.append(v)
    elif depth < 4:
        if isinstance(v, dict):
            for x in v.values():
                _arrays_in(x, out, depth + 1)
        elif isinstance(v, (list, tuple)):
            for x in v:
                _arrays_in(x, out, depth + 1)
        else:
            d = getattr(v, "__dict__", None)
            try:
                import pandas as pd
                if isinstance(v, (pd.DataFrame, pd.Series)):
                    out.append(v.to_numpy())
                    return
            except Exception:
                pass
            if isinstance(d, dict) and depth < 2:
                for x in d.values():
                    _arrays_in(x, out, depth + 1)


def _may_share(a_list, b_list):
    for a in a_list:
        for b in b_list:
            if a.size and b.size and np.may_share_memory(a, b):
                return True
    return False


def canonical_priority(dsk, deps, order):
    """Dask's static `order()` evaluated on a copy of the dependency structure whose keys carry no content tokens.

    order() breaks ties by key string, and some keys embed a fresh uuid on every compute (the finalize keys of
    `dask.compute(a, b)`), which would make the default schedule — and hence the meaning of a recorded choice
    sequence — vary from run to run.  Keys are renamed to their token-stripped form, disambiguated by the stripped
    names of their dependencies / dependents (and, only as a last resort, by the original string)."""
    dependents = {k: set() for k in dsk}
    for k, ds in deps.items():
        for d in ds:
            if d in dependents:
                dependents[d].add(k)
    # colour refinement: start from the token-stripped name and repeatedly mix in the colours of the dependencies and
    # dependents, so that e.g. the uuid-named delayed task of block (0,1) is told apart from that of block (0,0) by the
    # indexed array key it reads.  Whatever stays tied after refinement is ordered by position in the graph mapping
    # (construction order), never by the random part of the name.
    import hashlib
    colour = {k: keyname(k) for k in dsk}
    pos = {k: i for i, k in enumerate(dsk)}
    for _ in range(64):          # until the partition is stable (long symmetric chains need many rounds)
        new = {}
        for k in dsk:
            h = hashlib.blake2b(digest_size=12)
            h.update(colour[k].encode())
            h.update(b"|d|" + "|".join(sorted(colour[d] for d in deps[k])).encode())
            h.update(b"|u|" + "|".join(sorted(colour[d] for d in dependents[k])).encode())
            new[k] = keyname(k) + "~" + h.hexdigest()
        if len(set(new.values())) == len(set(colour.values())):
            colour = new
            break
        colour = new
    groups = {}
    for k in dsk:
        groups.setdefault(colour[k], []).append(k)
    canon = {}
    for c, ks in groups.items():
        ks.sort(key=lambda k: pos[k])
        for i, k in enumerate(ks):
            canon[k] = "%s|%d" % (c, i)
    fake = {canon[k]: None for k in dsk}
    fdeps = {canon[k]: {canon[d] for d in deps[k]} for k in dsk}
    fprio = order(fake, dependencies=fdeps)
    return {k: fprio[canon[k]] for k in dsk}


class ControlledScheduler:
    def __init__(self, prefix=(), monitor="deps", state_fn=None):
        self.prefix = list(prefix)
        self.monitor = monitor            # None | 'deps' | 'full'
        self.state_fn = state_fn          # callable -> digest of tracked global state (E2 vector)
        self.pos = 0
        self.points = []                  # (n_ready, chosen) per scheduling point
        self.order = []                   # executed keys (str) in order
        self.impure = []                  # (task key, [changed keys / '<global>'])
        self.tasks = 0
        self.computes = 0
        self.graph_shapes = []            # (n_tasks, max_ready) per compute
        self.max_ready = 0
        self._depth = 0
        self.nested_computes = 0

    # ------------------------------------------------------------------------------------------
    def get(self, dsk, keys, **kwargs):
        # a task that itself computes a Dask collection (e.g. np.asarray(dask_array) inside a block function) re-enters
        # the scheduler while the outer task is running: such nested graphs are executed in default order by a private
        # scheduler and consume no choices (the outer task is atomic at the granularity explored here)
        if self._depth > 0:
            self.nested_computes += 1
            inner = ControlledScheduler((), None)
            return inner.get(dsk, keys)
        self._depth += 1
        try:
            return self._get(dsk, keys, **kwargs)
        finally:
            self._depth -= 1

    def _get(self, dsk, keys, **kwargs):
        from dask._task_spec import convert_legacy_graph
        from dask.order import order
        if not isinstance(dsk, Mapping):
            dsk = dsk.__dask_graph__()
        dsk = convert_legacy_graph(dsk)
        deps = {k: set(t.dependencies) for k, t in dsk.items()}
        prio = canonical_priority(dsk, deps, order)
        missing = set().union(*deps.values()) - set(dsk) if deps else set()
        if missing:
            raise ScheduleError("graph has dangling dependencies: %r" % list(missing)[:3])
        dependents = {k: set() for k in dsk}
        for k, ds in deps.items():
            for d in ds:
                dependents[d].add(k)
        nwait = {k: len(ds) for k, ds in deps.items()}
        # ready list kept sorted by Dask's static priority (ties cannot occur: order() is a bijection)
        ready = sorted(((prio[k], k) for k, n in nwait.items() if n == 0), key=lambda t: t[0])
        done = {}
        self.computes += 1
        local_max = 0
        arrays_of = {}
        monitor = self.monitor
        while ready:
            local_max = max(local_max, len(ready))
            if self.pos < len(self.prefix):
                c = self.prefix[self.pos]
                if not 0 <= c < len(ready):
                    raise ScheduleError("replay diverged: choice %d at point %d but only %d tasks ready"
                                        % (c, self.pos, len(ready)))
            else:
                c = 0
            self.points.append((len(ready), c))
            self.pos += 1
            _, k = ready.pop(c)
            t = dsk[k]
            watch = None
            if monitor:
                if monitor == "full":
                    watch = list(done)
                else:
                    dep_arrays = []
                    for d in deps[k]:
                        dep_arrays.extend(arrays_of[d])
                    if dep_arrays:
                        watch = [kk for kk in done if kk in deps[k] or
                                 (arrays_of[kk] and _may_share(arrays_of[kk], dep_arrays))]
                    else:
                        watch = list(deps[k])
                before = {kk: digest(done[kk]) for kk in watch}
                gbefore = self.state_fn() if self.state_fn else None
            done[k] = t({d: done[d] for d in deps[k]})
            self.tasks += 1
            self.order.append(keyname(k))
            if monitor:
                changed = [keyname(kk) for kk in watch if digest(done[kk]) != before[kk]]
                if self.state_fn and self.state_fn() != gbefore:
                    changed.append("<global state>")
                if changed:
                    self.impure.append((keyname(k), changed))
                arrs = []
                _arrays_in(done[k], arrs)
                arrays_of[k] = arrs
            for dd in dependents[k]:
                nwait[dd] -= 1
                if nwait[dd] == 0:
                    bisect.insort(ready, (prio[dd], dd), key=lambda t: t[0])
        if len(done) != len(dsk):
            raise ScheduleError("deadlock: %d of %d tasks never became ready" % (len(dsk) - len(done), len(dsk)))
        self.graph_shapes.append((len(dsk), local_max))
        self.max_ready = max(self.max_ready, local_max)

        def unpack(ks):
            if isinstance(ks, list):
                return [unpack(x) for x in ks]
            return done[ks]
        return unpack(keys)

    # ------------------------------------------------------------------------------------------
    @property
    def choices(self):
        return [c for _, c in self.points]

    def deviations(self):
        return sum(1 for _, c in self.points if c)


def run_schedule(compute_fn, prefix=(), monitor="deps", state_fn=None):
    """compute_fn(get) must build the lazy object AND compute it with scheduler=get. -> (result, scheduler)"""
    s = ControlledScheduler(prefix, monitor, state_fn)
    res = compute_fn(s.get)
    if s.pos < len(s.prefix):
        raise ScheduleError("replay diverged: execution ended after %d points, prefix has %d" % (s.pos, len(s.prefix)))
    return res, s


def explore_schedules(compute_fn, bound, monitor=None, max_execs=None, on_exec=None, tolerate_divergence=False):
    """Stateless deviation-bounded exploration: every schedule with <= `bound` departures from the default
    ready-task choice.  Yields nothing; calls on_exec(choices, result, scheduler) for every execution.
    Returns dict(executions, capped, max_points, max_ready)."""
    # warm-up execution (discarded): the first call in a process may issue extra graph-construction-time computes
    # (meta inference, JIT) that later calls do not repeat; choice sequences are only comparable between warm runs
    run_schedule(compute_fn, (), None)
    stack = [[]]
    n = 0
    diverged = 0
    capped = False
    max_points = 0
    max_ready = 0
    while stack:
        prefix = stack.pop()
        try:
            res, s = run_schedule(compute_fn, prefix, monitor)
        except ScheduleError:
            # Some graphs (dask.dataframe expressions over uuid-named delayed tasks) are fused differently on every
            # build, so a recorded choice sequence may not fit the rebuilt graph.  Only where the caller says so this is
            # counted instead of raised; every schedule that IS executed remains a valid schedule of the real graph.
            if not tolerate_divergence:
                raise
            diverged += 1
            continue
        n += 1
        max_points = max(max_points, len(s.points))
        max_ready = max(max_ready, s.max_ready)
        if on_exec:
            on_exec(s.choices, res, s)
        if max_execs and n >= max_execs:
            capped = bool(stack)
            break
        used = sum(1 for c in prefix if c)
        if used >= bound:
            continue
        ch = s.choices
        for i in range(len(prefix), len(s.points)):
            nready = s.points[i][0]
            for alt in range(1, nready):
                stack.append(ch[:i] + [alt])
    return dict(executions=n, capped=capped, max_points=max_points, max_ready=max_ready, diverged=diverged)


def count_one_deviation(points):
    return 1 + sum(n - 1 for n, _ in points)


def selftest():
    """same choice sequence twice => identical order and result; out-of-range choice => hard error;
    an in-place task is flagged impure; 1-deviation count matches the closed form."""
    import dask.array as da
    x = np.arange(24.0).reshape(4, 6)

    def fn(get):
        d = da.from_array(x, chunks=(2, 3))
        return ((d + 1).map_blocks(lambda b: b * 2) - d).sum().compute(scheduler=get, optimize_graph=False)

    r0, s0 = run_schedule(fn)
    r1, s1 = run_schedule(fn, s0.choices)
    assert r0 == r1 and s0.order == s1.order and not s0.impure
    alt = [0, 1]
    r2, s2 = run_schedule(fn, alt)
    r3, s3 = run_schedule(fn, alt)
    assert s2.order == s3.order and s2.order != s0.order and r2 == r0
    try:
        run_schedule(fn, [10 ** 6])
        raise AssertionError("out-of-range choice accepted")
    except ScheduleError:
        pass
    seen = []
    st = explore_schedules(fn, 1, on_exec=lambda ch, res, s: seen.append((tuple(ch), res)))
    assert st["executions"] == count_one_deviation(s0.points), (st, count_one_deviation(s0.points))
    assert len({o for o, _ in seen}) == len(seen) and len({r for _, r in seen}) == 1

    def bad(get):
        d = da.from_array(x.copy(), chunks=(2, 3))

        def inplace(b):
            b *= 2
            return b
        e = d + 1
        return (e.map_blocks(inplace) + e.map_blocks(lambda b: b.copy())).sum().compute(scheduler=get, optimize_graph=False)
    rb, sb = run_schedule(bad)
    assert sb.impure, "in-place task not flagged"
    outs = set()
    explore_schedules(bad, 1, on_exec=lambda ch, res, s: outs.add(float(res)))
    assert len(outs) > 1, "order-dependent graph gave one outcome"
    return True
