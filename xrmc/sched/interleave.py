"""E3d: preemptive two-thread interleaver at Python line granularity (interpreted mode).

Each body runs in its own OS thread under `sys.settrace`; a thread may only run while it holds the baton
(one semaphore per thread), and it offers the baton back to the scheduler before every *line event in a
frame whose code lives under the xrspatial package*.  The scheduler follows a recorded choice sequence
(prefix replay, then choice 0 = keep running the current thread), so an execution is a pure function of
its choice sequence.  `explore(bodies, bound)` enumerates every schedule with <= `bound` preemptions
(switching away from a still-runnable thread) — iterative context bounding.
No real locks exist in xrspatial; none is created here either, so a baton hand-off can never deadlock."""
import os
import sys
import threading


class Diverged(RuntimeError):
    pass


class Chooser:
    """choice source shared by all parallel regions of one execution: prefix replay, then choice 0."""

    def __init__(self, prefix=()):
        self.prefix = list(prefix)
        self.pos = 0
        self.points = []      # (n_enabled, chosen_index, running_still_enabled)

    def pick(self, n_enabled, still):
        if self.pos < len(self.prefix):
            c = self.prefix[self.pos]
            if not 0 <= c < n_enabled:
                raise Diverged("choice %d at point %d, %d threads enabled" % (c, self.pos, n_enabled))
        else:
            c = 0
        self.pos += 1
        self.points.append((n_enabled, c, still))
        return c

    def finished(self):
        if self.pos < len(self.prefix):
            raise Diverged("execution ended after %d points, prefix has %d" % (self.pos, len(self.prefix)))

    @property
    def choices(self):
        return [c for _, c, _ in self.points]

    def preemptions_before(self, i):
        return sum(1 for (_, c, still) in self.points[:i] if still and c != 0)


class Execution:
    def __init__(self, bodies, prefix, root, chooser=None):
        self.bodies = bodies
        self.chooser = chooser or Chooser(prefix)
        self.own_chooser = chooser is None
        self.root = root
        n = len(bodies)
        self.sems = [threading.Semaphore(0) for _ in range(n)]
        self.main = threading.Semaphore(0)
        self.done = [False] * n
        self.results = [None] * n
        self.errors = [None] * n
        self.steps = 0

    def _tracer(self, tid):
        root = self.root

        def local(frame, event, arg):
            if event == "line":
                self.main.release()
                self.sems[tid].acquire()
            return local

        def glob(frame, event, arg):
            if event == "call" and frame.f_code.co_filename.startswith(root):
                return local
            return None
        return glob

    def _thread(self, tid):
        self.sems[tid].acquire()
        sys.settrace(self._tracer(tid))
        try:
            self.results[tid] = self.bodies[tid]()
        except BaseException as e:   # noqa
            self.errors[tid] = e
        finally:
            sys.settrace(None)
            self.done[tid] = True
            self.main.release()

    def run(self):
        n = len(self.bodies)
        ths = [threading.Thread(target=self._thread, args=(i,), daemon=True) for i in range(n)]
        for t in ths:
            t.start()
        running = 0
        while not all(self.done):
            enabled = [i for i in range(n) if not self.done[i]]
            still = running in enabled
            if still:
                enabled = [running] + [i for i in enabled if i != running]
            try:
                c = self.chooser.pick(len(enabled), still)
            except Diverged:
                # let the threads run to completion so that nothing is left blocked, then re-raise
                self._drain(enabled)
                raise
            nxt = enabled[c]
            running = nxt
            self.sems[nxt].release()
            self.main.acquire()
            self.steps += 1
        for t in ths:
            t.join()
        if self.own_chooser:
            self.chooser.finished()
        return self

    def _drain(self, enabled):
        while not all(self.done):
            en = [i for i in range(len(self.bodies)) if not self.done[i]]
            self.sems[en[0]].release()
            self.main.acquire()

    @property
    def points(self):
        return self.chooser.points

    @property
    def choices(self):
        return self.chooser.choices

    def preemptions_before(self, i):
        return self.chooser.preemptions_before(i)


def xrspatial_root():
    import xrspatial
    return os.path.dirname(os.path.realpath(xrspatial.__file__)) + os.sep


def run(bodies, prefix=(), root=None):
    return Execution(bodies, prefix, root or xrspatial_root()).run()


def explore(make_bodies, bound, on_exec=None, max_execs=None, root=None):
    """make_bodies() -> fresh list of thunks for every execution (inputs must not be shared between executions).
    Enumerates all schedules with <= bound preemptions.  Returns stats dict."""
    root = root or xrspatial_root()

    def one(prefix):
        ex = run(make_bodies(), prefix, root)
        return ex.chooser, ex
    return explore_with(one, bound, on_exec, max_execs)


def explore_with(run_one, bound, on_exec=None, max_execs=None):
    """generic iterative-context-bounding DFS: run_one(prefix) -> (chooser, payload)."""
    stack = [[]]
    n = 0
    capped = False
    max_steps = 0
    while stack:
        prefix = stack.pop()
        chooser, payload = run_one(prefix)
        n += 1
        max_steps = max(max_steps, len(chooser.points))
        if on_exec:
            on_exec(payload)
        if max_execs and n >= max_execs:
            capped = bool(stack)
            break
        ch = chooser.choices
        for i in range(len(prefix), len(chooser.points)):
            nen, _, still = chooser.points[i]
            if nen < 2:
                continue
            cost = chooser.preemptions_before(i) + (1 if still else 0)
            if cost > bound:
                continue
            for alt in range(1, nen):
                stack.append(ch[:i] + [alt])
    return dict(executions=n, capped=capped, max_steps=max_steps)


def selftest():
    """a racy read-modify-write on shared state must produce >1 outcomes within 1 preemption; a replayed
    schedule must reproduce its observation exactly."""
    import types
    # build a tiny module whose code 'lives under' a fake root so that the tracer sees it
    src = ("shared = {'x': 0}\n"
           "def bump():\n"
           "    v = shared['x']\n"
           "    v = v + 1\n"
           "    shared['x'] = v\n"
           "    return v\n")
    root = "/xrmc-selftest/"
    mod = types.ModuleType("xrmc_selftest_mod")
    exec(compile(src, root + "m.py", "exec"), mod.__dict__)
    outcomes = {}

    def make():
        mod.shared["x"] = 0
        return [mod.bump, mod.bump]

    def on_exec(ex):
        outcomes.setdefault(mod.shared["x"], tuple(ex.choices))
    st = explore(make, 1, on_exec, root=root)
    assert set(outcomes) == {1, 2}, outcomes
    bad = outcomes[1]
    for _ in range(2):
        ex = run(make(), bad, root)
        assert mod.shared["x"] == 1 and tuple(ex.choices) == bad
    st0 = explore(make, 0, root=root)
    assert st0["executions"] == 1 + 0 or st0["executions"] >= 1
    return st["executions"]
