"""E3e: exploration of kernels compiled with parallel=True (interpreted mode).

`prange` without parallel=True is `range`, and the library relies on that.  When a dispatcher is found with
parallel=True, its Python source is rewritten so that each OUTERMOST `for v in prange(...)` loop becomes a
parallel region executed by two workers (iterations dealt round-robin) under the line-level interleaver:

    for v in prange(a, b):          def __xrmc_loop_k(__tid, __n):
        BODY                  =>        for v in __xrmc_split((a, b), __tid, __n):
                                            BODY
                                    __xrmc_parallel(__xrmc_loop_k)

Names assigned inside BODY become private to a worker (numba privatises scalars assigned in a prange body);
arrays allocated before the loop are captured and therefore shared — exactly numba's semantics.  Loops whose body
rebinds a name that also lives outside the loop (reductions / carried scalars) are not rewritten: numba gives
reductions special treatment that this model does not reproduce, so they are reported as unexplored, never as races.
The patched kernel is driven through the public calls of the interleaving alphabet and every schedule with
<= `bound` preemptions must reproduce the sequential (unpatched) results."""
import ast
import importlib
import inspect
import sys
import textwrap

import numpy as np

from . import interleave


class Unsupported(Exception):
    pass


def _assigned_names(nodes):
    out = set()
    for n in nodes:
        for x in ast.walk(n):
            if isinstance(x, ast.Name) and isinstance(x.ctx, (ast.Store, ast.Del)):
                out.add(x.id)
            elif isinstance(x, ast.AugAssign) and isinstance(x.target, ast.Name):
                out.add(x.target.id)
    return out


def _is_prange_for(node):
    return (isinstance(node, ast.For) and isinstance(node.iter, ast.Call) and
            ((isinstance(node.iter.func, ast.Name) and node.iter.func.id == "prange") or
             (isinstance(node.iter.func, ast.Attribute) and node.iter.func.attr == "prange")))


class _Rewriter(ast.NodeTransformer):
    def __init__(self, fdef):
        self.count = 0
        self.fdef = fdef
        self.depth = 0

    def visit_FunctionDef(self, node):
        if node is not self.fdef:
            return node          # nested functions are left alone
        self.generic_visit(node)
        return node

    def visit_For(self, node):
        if not _is_prange_for(node) or self.depth > 0:
            # inner loops: prange nested in a parallel region is sequential
            if _is_prange_for(node):
                node.iter.func = ast.Name(id="range", ctx=ast.Load())
            self.generic_visit(node)
            return node
        if node.orelse:
            raise Unsupported("prange loop with else clause")
        self.depth += 1
        self.generic_visit(node)
        self.depth -= 1
        body_names = _assigned_names(node.body) | _assigned_names([node.target])
        outer = [s for s in ast.walk(self.fdef) if s is not node]
        outside_stores = set()
        inside = set(id(x) for x in ast.walk(node))
        for x in ast.walk(self.fdef):
            if id(x) in inside:
                continue
            if isinstance(x, ast.Name) and isinstance(x.ctx, ast.Store):
                outside_stores.add(x.id)
            elif isinstance(x, ast.arg):
                outside_stores.add(x.arg)
        clash = sorted(body_names & outside_stores)
        if clash:
            raise Unsupported("loop body rebinds names that live outside the loop (reduction / carried scalar): %s" % clash)
        k = self.count
        self.count += 1
        lname = "__xrmc_loop_%d" % k
        args = ast.Tuple(elts=list(node.iter.args), ctx=ast.Load())
        new_for = ast.For(target=node.target,
                          iter=ast.Call(func=ast.Name(id="__xrmc_split", ctx=ast.Load()),
                                        args=[args, ast.Name(id="__tid", ctx=ast.Load()), ast.Name(id="__n", ctx=ast.Load())],
                                        keywords=[]),
                          body=node.body, orelse=[])
        fdef = ast.FunctionDef(name=lname,
                               args=ast.arguments(posonlyargs=[], args=[ast.arg(arg="__tid"), ast.arg(arg="__n")],
                                                  kwonlyargs=[], kw_defaults=[], defaults=[]),
                               body=[new_for], decorator_list=[], type_params=[])
        call = ast.Expr(value=ast.Call(func=ast.Name(id="__xrmc_parallel", ctx=ast.Load()),
                                       args=[ast.Name(id=lname, ctx=ast.Load())], keywords=[]))
        return [fdef, call]


def transform(func):
    """-> (new function, number of parallel regions) ; raises Unsupported."""
    src = textwrap.dedent(inspect.getsource(func))
    tree = ast.parse(src)
    fdef = tree.body[0]
    if not isinstance(fdef, ast.FunctionDef):
        raise Unsupported("not a plain function")
    fdef.decorator_list = []
    rw = _Rewriter(fdef)
    rw.visit(fdef)
    if rw.count == 0:
        raise Unsupported("no prange loop found")
    ast.fix_missing_locations(tree)
    code = compile(tree, inspect.getsourcefile(func), "exec")
    glb = func.__globals__
    ns = {}
    exec(code, glb, ns)
    return ns[fdef.name], rw.count


class Driver:
    """installed into the kernel's globals while a patched call runs."""

    def __init__(self, root):
        self.root = root
        self.chooser = None
        self.regions = 0

    def split(self, args, tid, n):
        return list(range(*[int(a) for a in args]))[tid::n]

    def parallel(self, loop):
        self.regions += 1
        ex = interleave.Execution([lambda: loop(0, 2), lambda: loop(1, 2)], (), self.root, chooser=self.chooser)
        ex.run()
        for e in ex.errors:
            if e is not None:
                raise e


def explore_kernel(modname, fname, bound=1, max_execs=20000):
    """-> dict(status='ok'|'race'|'unsupported', executions, why, case)"""
    from ..checks.c11 import _interleave_bodies
    mod = importlib.import_module(modname)
    func = getattr(mod, fname)
    func = getattr(func, "py_func", func)
    try:
        newf, nreg = transform(func)
    except Unsupported as e:
        return dict(status="unsupported", executions=0, why=str(e))
    except (OSError, TypeError, SyntaxError) as e:
        return dict(status="unsupported", executions=0, why="source not available / not transformable: %r" % (e,))
    root = interleave.xrspatial_root()
    drv = Driver(root)
    bodies = _interleave_bodies()
    # sequential references with the ORIGINAL kernel
    refs = {}
    for name, mk in bodies.items():
        try:
            refs[name] = np.asarray(mk(0)(), dtype=float)
        except Exception:
            refs[name] = None
    # patch every binding of the original function object
    patched = []
    orig = getattr(mod, fname)
    for m in list(sys.modules.values()):
        if m is None or not getattr(m, "__name__", "").startswith("xrspatial"):
            continue
        for k, v in list(vars(m).items()):
            if v is orig:
                patched.append((m, k))
                setattr(m, k, newf)
    func.__globals__["__xrmc_split"] = drv.split
    func.__globals__["__xrmc_parallel"] = drv.parallel
    total = 0
    try:
        reached = False
        for name, mk in bodies.items():
            if refs[name] is None:
                continue
            bad = []

            def run_one(prefix):
                drv.chooser = interleave.Chooser(prefix)
                drv.regions = 0
                try:
                    res = np.asarray(mk(0)(), dtype=float)
                    err = None
                except interleave.Diverged:
                    raise
                except Exception as e:
                    res, err = None, e
                drv.chooser.finished()
                return drv.chooser, (res, err, drv.regions, list(drv.chooser.choices))

            def on_exec(payload):
                res, err, regions, ch = payload
                if regions and (err is not None or not np.array_equal(res, refs[name], equal_nan=True)):
                    bad.append((ch, err))
            # does this public call reach the kernel at all?
            ch0, p0 = run_one([])
            if p0[2] == 0:
                continue
            reached = True
            st = interleave.explore_with(run_one, bound, on_exec, max_execs)
            total += st["executions"]
            if bad:
                nz = [i for i, c in enumerate(bad[0][0]) if c]
                return dict(status="race", executions=total,
                            why="public call %s gives a different result when two workers interleave at steps %s (%r)"
                                % (name, nz, bad[0][1]),
                            case={"public_call": name, "switch_points": nz, "regions": nreg})
        if not reached:
            return dict(status="unsupported", executions=total, why="no call of the driving alphabet reaches this kernel")
        return dict(status="ok", executions=total, why="")
    finally:
        for m, k in patched:
            setattr(m, k, orig)
        func.__globals__.pop("__xrmc_split", None)
        func.__globals__.pop("__xrmc_parallel", None)


def selftest():
    """a kernel with a shared scratch buffer must race; one with private temporaries must not."""
    import types
    src = textwrap.dedent('''
        import numpy as np
        def prange(*a):
            return range(*a)
        def racy(data):
            out = np.zeros_like(data)
            scratch = np.zeros(1)
            for i in prange(data.shape[0]):
                scratch[0] = data[i]
                t = scratch[0] * 2
                out[i] = t
            return out
        def fine(data):
            out = np.zeros_like(data)
            for i in prange(data.shape[0]):
                t = data[i] * 2
                out[i] = t
            return out
        def reduction(data):
            acc = 0.0
            for i in prange(data.shape[0]):
                acc += data[i]
            return acc
    ''')
    root = "/xrmc-selftest-gate/"
    mod = types.ModuleType("xrmc_selftest_gate")
    import linecache
    fn = root + "k.py"
    linecache.cache[fn] = (len(src), None, src.splitlines(True), fn)
    exec(compile(src, fn, "exec"), mod.__dict__)
    data = np.arange(4.0)
    out = {}
    for name in ("racy", "fine"):
        f = getattr(mod, name)
        newf, n = transform(f)
        drv = Driver(root)
        f.__globals__["__xrmc_split"] = drv.split
        f.__globals__["__xrmc_parallel"] = drv.parallel
        ref = f(data)
        results = set()

        def run_one(prefix):
            drv.chooser = interleave.Chooser(prefix)
            r = newf(data)
            drv.chooser.finished()
            return drv.chooser, r
        st = interleave.explore_with(run_one, 1, lambda r: results.add(r.tobytes()))
        out[name] = (len(results), st["executions"], ref.tobytes() in results)
    assert out["racy"][0] > 1 and out["fine"][0] == 1 and out["fine"][2], out
    try:
        transform(mod.reduction)
        raise AssertionError("reduction loop was rewritten")
    except Unsupported:
        pass
    return out
