"""C10 — analysis functions never modify their inputs and keep the raster's identity.

E1/E2: every public raster function x backend {numpy, dask} x 10 dtypes x 4 memory layouts from the initial
state, and every depth-2 chain f -> g in which g receives f's OUTPUT (which may be a view, F-ordered, or
read-only), each call bracketed by a deep snapshot monitor of every argument."""
import copy
import itertools

import numpy as np

from ..core.space import Space
from ..core.spaces import unrank_product

PROPERTY = "C10"
LEVEL = "model_checking"
RULE = ("case = (function, backend, dtype, memory layout) from the fresh state, or a depth-2 chain f->g where g is fed "
        "f's output; every argument is deep-snapshotted (bytes, dtype, flags, every coordinate incl. scalar ones, attrs, "
        "name) before and after the call; output checked with np.shares_memory + write probe and for the input's "
        "shape/dims/coords/attrs/backend. Non-trivial = the call returned (did not reject the dtype); distinct = digest "
        "of (function, backend, dtype, layout, output)")
ASSUMPTIONS = [
    "documented exceptions encoded exactly as the statement lists them: zonal.apply (in place), trim/crop (views), "
    "generators / focal_stats / true_color / polygonize / zonal.stats(DataArray) (own shape), viewshed (dtype may widen), "
    "hotspots (attrs copy + unit)",
    "re-chunking of a Dask argument (validate_arrays, proximity single-block fallback) changes no value and is allowed",
    "local.* take a Dataset: checked for non-mutation and non-aliasing, and for shape/dims/coords of the layers",
    "generators are given float templates only (integer templates are outside their documented domain)",
    "kernel arrays passed to focal/convolution functions are treated as inputs too (the property's title: functions never "
    "modify their inputs): they must come back unchanged",
    "a call that rejects a dtype/layout by raising is not a violation as long as its arguments are unchanged afterwards",
    "read-only inputs: a function that needs to write into its input would raise — counted as a violation only when the "
    "same call succeeds on the writable C-ordered array (then the read-only failure reveals an in-place write)",
]
DTYPES = ["int8", "int16", "int32", "int64", "uint8", "uint16", "uint32", "uint64", "float32", "float64"]
LAYOUTS = ["C", "F", "strided", "readonly"]
BACKENDS = ["numpy", "dask"]
H, W = 4, 5
BOUNDS = {"quick": {"raster": [H, W], "dtypes": DTYPES, "layouts": LAYOUTS, "backends": BACKENDS, "chain_depth": 2},
          "thorough": {"raster": [H, W], "dtypes": DTYPES, "layouts": LAYOUTS, "backends": BACKENDS, "chain_depth": 2,
                       "chains": "all f->g incl. dask and float32"}}


def base_values(i):
    yy, xx = np.meshgrid(np.arange(H), np.arange(W), indexing="ij")
    if i == 0:
        return (yy * 3 + xx * 5 + yy * xx) % 7          # zeros present (proximity background / barriers)
    if i == 1:
        return (yy + 2 * xx) % 3 + 1
    return (yy * 2 + xx * 3 + 1) % 5 + 1


def make_array(i, dtype, layout):
    v = base_values(i).astype(dtype)
    if layout == "C":
        a = np.ascontiguousarray(v)
    elif layout == "F":
        a = np.asfortranarray(v)
    elif layout == "strided":
        big = np.zeros((H * 2, W * 2), dtype=dtype)
        big[::2, ::2] = v
        a = big[::2, ::2]
        assert not a.flags.c_contiguous and not a.flags.f_contiguous
    elif layout == "readonly":
        a = np.ascontiguousarray(v)
        a.setflags(write=False)
    else:
        raise ValueError(layout)
    return a


VARIANTS = ["res_list_negative_y", "res_ndarray", "no_attrs", "coords_of_other_rasters_off_by_1ulp",
            "coords_of_other_rasters_float32_rounded", "extra_2d_coordinate", "nan_cells", "single_chunk", "one_cell_chunks"]


def make_rasters(nr, dtype, layout, backend, variant=None):
    import xarray as xr
    out = []
    ys = 10.0 + 2.0 * np.arange(H)[::-1]
    xs = -3.0 + 0.5 * np.arange(W)
    if variant is not None:
        rs = make_rasters(nr, dtype, layout, backend)
        for i, r in enumerate(rs):
            if variant == "res_list_negative_y":
                r.attrs["res"] = [0.5, -2.0]          # a mutable attribute value; north-up rasters carry a negative y resolution
            elif variant == "res_ndarray":
                r.attrs["res"] = np.array([0.5, 2.0])
            elif variant == "no_attrs":
                r.attrs.clear()
            elif variant == "coords_of_other_rasters_off_by_1ulp" and i > 0:
                rs[i] = r.assign_coords(y=np.nextafter(ys, np.inf), x=np.nextafter(xs, -np.inf))
            elif variant == "coords_of_other_rasters_float32_rounded" and i > 0:
                rs[i] = r.assign_coords(y=(ys + 1e-7).astype(np.float32).astype(np.float64), x=(xs + 1e-7).astype(np.float32).astype(np.float64))
            elif variant == "extra_2d_coordinate":
                rs[i] = r.assign_coords(lon2d=(("y", "x"), np.add.outer(ys, xs)))
            elif variant in ("nan_cells", "single_chunk", "one_cell_chunks"):
                a = make_array(i, dtype, layout).astype(np.float64)
                if variant == "nan_cells":
                    a[0, 0] = np.nan
                    a[2, 3] = np.nan
                data = a
                if backend == "dask":
                    import dask.array as da
                    chunks = {"nan_cells": ((2, 2), (3, 2)), "single_chunk": ((H,), (W,)), "one_cell_chunks": ((1,) * H, (1,) * W)}[variant]
                    data = da.from_array(a, chunks=chunks)
                rs[i] = r.copy(data=data)
        return rs
    for i in range(nr):
        a = make_array(i, dtype, layout)
        data = a
        if backend == "dask":
            import dask.array as da
            data = da.from_array(a, chunks=((2, 2), (3, 2)))
        out.append(xr.DataArray(data, dims=("y", "x"),
                                coords={"y": ys.copy(), "x": xs.copy(), "band": 1, "tile": "t07"},
                                attrs={"res": (0.5, 2.0), "crs": "EPSG:4326", "nested": {"k": [1, 2]}},
                                name="input%d" % i))
    return out


def snapshot(r):
    """deep snapshot of a DataArray argument."""
    import dask.array as da
    d = r.data
    if isinstance(d, da.Array):
        vals = np.asarray(d.compute(scheduler="synchronous"))
        flags = None
        backend = "dask"
    else:
        vals = np.array(d, copy=True)
        flags = (d.flags.c_contiguous, d.flags.f_contiguous, d.flags.writeable, d.strides)
        backend = "numpy"
    return dict(values=vals, dtype=str(d.dtype), shape=tuple(d.shape), flags=flags, backend=backend, dims=tuple(r.dims),
                coords={str(k): (tuple(v.dims), np.array(v.values, copy=True)) for k, v in r.coords.items()},
                attrs=copy.deepcopy(dict(r.attrs)), name=r.name)


def snap_diff(a, b):
    if a["dtype"] != b["dtype"] or a["shape"] != b["shape"]:
        return "dtype/shape changed %s%s -> %s%s" % (a["dtype"], a["shape"], b["dtype"], b["shape"])
    if not np.array_equal(a["values"], b["values"], equal_nan=a["values"].dtype.kind == "f"):
        return "values changed"
    if a["backend"] != b["backend"]:
        return "backend changed"
    # memory layout / writeable flag of the argument's buffer are NOT compared: the statement protects values,
    # coordinates and attributes (viewshed rebinds raster.data to an equal-valued float64 copy — allowed)
    if a["dims"] != b["dims"] or a["name"] != b["name"]:
        return "dims/name changed"
    if set(a["coords"]) != set(b["coords"]):
        return "coordinate set changed %s -> %s" % (sorted(a["coords"]), sorted(b["coords"]))
    for k in a["coords"]:
        if a["coords"][k][0] != b["coords"][k][0] or not np.array_equal(a["coords"][k][1], b["coords"][k][1]):
            return "coordinate %r changed" % k
    if repr(a["attrs"]) != repr(b["attrs"]):
        return "attrs changed %r -> %r" % (a["attrs"], b["attrs"])
    return None


def output_arrays(out):
    """numpy arrays reachable from an output (DataArray / Dataset / tuple), for aliasing checks."""
    import xarray as xr
    res = []
    if isinstance(out, xr.DataArray):
        if isinstance(out.data, np.ndarray):
            res.append(out.data)
    elif isinstance(out, xr.Dataset):
        for k in out.data_vars:
            if isinstance(out[k].data, np.ndarray):
                res.append(out[k].data)
    elif isinstance(out, (tuple, list)):
        for o in out:
            res.extend(output_arrays(o))
    elif isinstance(out, np.ndarray):
        res.append(out)
    return res


def identity_diff(fn, inp_snap, out):
    """compare the output's identity with the first input's snapshot."""
    import dask.array as da
    import xarray as xr
    mode = fn.identity
    if mode in ("own", "table", "view", "inplace", "local"):
        return None
    if mode == "local-unused":
        if not isinstance(out, xr.DataArray):
            return "output is %s, not a DataArray" % type(out).__name__
        if tuple(out.shape) != inp_snap["shape"] or tuple(out.dims) != inp_snap["dims"]:
            return "shape/dims %s%s != layers' %s%s" % (out.shape, out.dims, inp_snap["shape"], inp_snap["dims"])
        for k in ("y", "x"):
            if k not in out.coords or not np.array_equal(out[k].values, inp_snap["coords"][k][1]):
                return "coordinate %r not kept" % k
        return None
    if not isinstance(out, xr.DataArray):
        return "output is %s, not a DataArray" % type(out).__name__
    if tuple(out.shape) != inp_snap["shape"]:
        return "shape %s != input shape %s" % (tuple(out.shape), inp_snap["shape"])
    if tuple(out.dims) != inp_snap["dims"]:
        return "dims %s != input dims %s" % (out.dims, inp_snap["dims"])
    oc = {str(k): (tuple(v.dims), np.asarray(v.values)) for k, v in out.coords.items()}
    for k, (dims, vals) in inp_snap["coords"].items():
        if k not in oc:
            return "coordinate %r of the input is missing from the output" % k
        if oc[k][0] != dims or not np.array_equal(oc[k][1], vals):
            return "coordinate %r differs from the input's" % k
    extra = set(oc) - set(inp_snap["coords"])
    if extra:
        return "output has extra coordinates %s" % sorted(extra)
    want = copy.deepcopy(inp_snap["attrs"])
    if mode == "hotspots":
        want["unit"] = "%"
    if repr(dict(out.attrs)) != repr(want):
        return "attrs %r != input attrs %r" % (dict(out.attrs), want)
    obackend = "dask" if isinstance(out.data, da.Array) else "numpy"
    if obackend != inp_snap["backend"]:
        return "array backend %s != input backend %s" % (obackend, inp_snap["backend"])
    return None


def observe(fn, rasters, base_arrays):
    """Run fn on rasters under the monitor. -> (status, problems, out)
    status: 'ok' | 'raised:<Type>' ; problems: list of (kind, message)."""
    import dask.array as da
    from ._funcs import AUX
    snaps = [snapshot(r) for r in rasters]
    base_before = [None if b is None else np.array(b, copy=True) for b in base_arrays]
    aux_before = {k: (np.array(v, copy=True), v.dtype, v.flags.writeable) for k, v in AUX.items()}
    problems = []
    try:
        out = fn.call(rasters)
        status = "ok"
    except Exception as e:
        out = None
        status = "raised:%s" % type(e).__name__
    skip_values = set()
    if fn.identity == "inplace":
        skip_values.add(1)          # zonal.apply updates `values` (argument 1) in place by contract

    def _norm(i, s, after):
        if i in skip_values:
            after["values"], after["dtype"], after["flags"] = s["values"], s["dtype"], s["flags"]
        if fn.identity == "dtypewiden" and i == 0 and after["dtype"] != s["dtype"]:
            # viewshed may widen the input's dtype without changing a value
            if np.array_equal(after["values"].astype(np.float64), s["values"].astype(np.float64), equal_nan=True) and \
                    np.can_cast(s["dtype"], after["dtype"], "safe"):
                after["values"], after["dtype"], after["flags"] = s["values"], s["dtype"], s["flags"]
        return after
    for i, (r, s) in enumerate(zip(rasters, snaps)):
        after = _norm(i, s, snapshot(r))
        d = snap_diff(s, after)
        if d:
            problems.append(("mutated", "argument %d (%s): %s" % (i, r.name, d)))
    for i, (b, bb) in enumerate(zip(base_arrays, base_before)):
        if b is not None and i not in skip_values and not np.array_equal(b, bb, equal_nan=b.dtype.kind == "f"):
            problems.append(("mutated-base", "the caller's numpy array behind argument %d changed" % i))
    if status != "ok":
        return status, problems, None
    # materialise lazy outputs (dask graphs may write into the inputs only at compute time)
    mat = out
    try:
        if hasattr(out, "compute") and not isinstance(out, (np.ndarray,)):
            import xarray as xr
            if isinstance(out, (xr.DataArray, xr.Dataset)):
                lazy = isinstance(out, xr.DataArray) and isinstance(out.data, da.Array)
                lazy = lazy or (isinstance(out, xr.Dataset) and any(isinstance(out[k].data, da.Array) for k in out.data_vars))
                mat = out.compute(scheduler="synchronous") if lazy else out
            else:
                mat = out.compute(scheduler="synchronous")
    except Exception as e:
        return "raised-at-compute:%s" % type(e).__name__, problems, None
    for i, (r, s) in enumerate(zip(rasters, snaps)):
        after = _norm(i, s, snapshot(r))
        d = snap_diff(s, after)
        if d and not any(p[0] == "mutated" and p[1].startswith("argument %d " % i) for p in problems):
            problems.append(("mutated", "argument %d (%s) after compute: %s" % (i, r.name, d)))
    # aliasing: output shares no writable memory with the inputs
    if fn.identity not in ("view", "inplace"):
        oarrs = output_arrays(mat)
        for oa in oarrs:
            for i, b in enumerate(base_arrays):
                if b is not None and oa.size and np.shares_memory(oa, b):
                    problems.append(("alias", "output shares memory with argument %d" % i))
            for i, r in enumerate(rasters):
                if isinstance(r.data, np.ndarray) and oa.size and np.shares_memory(oa, r.data) and \
                        not any(p[0] == "alias" for p in problems):
                    problems.append(("alias", "output shares memory with argument %d" % i))
        # write probe
        for oa in oarrs:
            if oa.flags.writeable and oa.size:
                try:
                    oa[...] = 1 if oa.dtype.kind != "b" else True
                except Exception:
                    continue
        for i, (b, bb) in enumerate(zip(base_arrays, base_before)):
            if b is not None and i not in skip_values and not np.array_equal(b, bb, equal_nan=b.dtype.kind == "f") \
                    and not any(p[0].startswith("mutated") for p in problems):
                problems.append(("write-through", "writing to the output changed argument %d" % i))
    d = identity_diff(fn, snaps[0], out)
    if d:
        problems.append(("identity", d))
    # caller-owned non-raster array arguments (kernels) must come back unchanged as well
    for k, (before, dt, wr) in aux_before.items():
        now = AUX[k]
        if now.dtype != dt or not np.array_equal(now, before):
            problems.append(("mutated-kernel", "the caller's kernel array %s was modified by the call" % k))
            now[...] = before          # restore for the following cases of this worker
    return status, problems, mat


class _Base(Space):
    def setup(self):
        import dask
        from ._funcs import build_funcs
        dask.config.set(scheduler="synchronous")
        self.funcs = build_funcs()
        self.by_name = {f.name: f for f in self.funcs}
        self.okcache = {}


FN_NAMES = None


def fn_names():
    # names only (cheap, no xrspatial import): keep in sync with _funcs.build_funcs — asserted in setup()
    return ["slope", "aspect", "curvature", "hillshade", "focal.mean", "focal.mean[passes=0]", "focal.mean[passes=1]",
            "focal.apply[1x1]", "convolution_2d[1x1]", "focal.apply", "focal.focal_stats", "focal.hotspots",
            "convolution_2d", "binary", "reclassify", "quantile", "natural_breaks", "equal_interval", "gci", "nbr", "nbr2",
            "ndvi", "ndmi", "savi", "arvi", "evi", "sipi", "ebbi", "true_color", "proximity", "allocation", "direction",
            "a_star_search", "a_star_search[start=goal]", "viewshed", "regions", "zonal.stats", "zonal.stats[DataArray]", "zonal.crosstab", "zonal.apply",
            "zonal.trim", "zonal.crop", "polygonize", "summarize_terrain", "perlin", "generate_terrain", "local.cell_stats",
            "local.combine", "local.lesser_frequency", "local.equal_frequency", "local.greater_frequency",
            "local.lowest_position", "local.highest_position", "local.popularity", "local.rank"]


class SingleCallSpace(_Base):
    """function x backend x dtype x layout from the fresh state."""

    def __init__(self, tier, names, tag, weight=1.0):
        self.names = names
        self.radices = [len(names), len(BACKENDS), len(DTYPES), len(LAYOUTS)]
        self.name = "single_call_" + tag
        self.size = int(np.prod(self.radices))
        self.weight = weight
        self.grain = len(BACKENDS) * len(DTYPES) * len(LAYOUTS)      # one shard per function: each dtype compiles once

    def setup(self):
        super().setup()
        assert [f.name for f in self.funcs] == fn_names(), "function table out of sync"

    def describe(self, rank):
        fi, bi, di, li = unrank_product(rank, self.radices)
        return {"function": self.names[fi], "backend": BACKENDS[bi], "dtype": DTYPES[di], "layout": LAYOUTS[li]}

    def run(self, lo, hi, out):
        for rank in range(lo, hi):
            fi, bi, di, li = unrank_product(rank, self.radices)
            fn = self.by_name[self.names[fi]]
            backend, dtype, layout = BACKENDS[bi], DTYPES[di], LAYOUTS[li]
            if backend == "dask" and not fn.dask:
                out.case(outcome=None, nontrivial=False, calls=0)
                out.count("skipped:no_dask_path")
                continue
            if np.dtype(dtype).kind not in fn.kinds:
                out.case(outcome=None, nontrivial=False, calls=0)
                out.count("skipped:dtype_outside_documented_domain")
                continue
            self.one(out, rank, fn, backend, dtype, layout)

    def one(self, out, rank, fn, backend, dtype, layout):
        rasters = make_rasters(fn.nr, dtype, layout, backend)
        bases = [r.data if backend == "numpy" else None for r in rasters]
        if backend == "dask":
            # keep a handle on the numpy arrays behind the dask graph
            bases = [make_array(i, dtype, layout) for i in range(fn.nr)]
            import dask.array as da
            for i, r in enumerate(rasters):
                r.data = da.from_array(bases[i], chunks=((2, 2), (3, 2)))
        status, problems, mat = observe(fn, rasters, bases)
        key = "c10|%s|%s|%s|%s" % (fn.name, backend, dtype, layout)
        out.case(outcome=(fn.name, backend, dtype, layout, status, _out_digestable(mat)), nontrivial=status == "ok", calls=1)
        out.ok()
        out.count("status:" + status.split(":")[0])
        if status != "ok" and layout == "readonly":
            # does the same call succeed on the writable array? then the failure reveals an in-place write attempt
            r2 = make_rasters(fn.nr, dtype, "C", backend)
            st2, _, _ = observe(fn, r2, [None] * fn.nr)
            if st2 == "ok":
                problems.append(("readonly-rejected", "call fails with %s on a read-only input but succeeds on a writable one"
                                 % status))
        for kind, msg in problems:
            out.violation(rank, key + "|" + kind, "%s [%s, %s, %s]: %s" % (fn.name, backend, dtype, layout, msg),
                          case={"function": fn.name, "backend": backend, "dtype": dtype, "layout": layout},
                          sig="c10|%s|%s|%s" % (fn.name, backend, kind))
        if out.want_sample() and status == "ok" and not problems and layout != "C":
            out.sample({"function": fn.name, "backend": backend, "dtype": dtype, "layout": layout, "status": status})


def _out_digestable(mat):
    import pandas as pd
    import xarray as xr
    if mat is None:
        return None
    if isinstance(mat, (xr.DataArray, xr.Dataset, pd.DataFrame, np.ndarray)):
        return mat
    if isinstance(mat, (tuple, list)):
        return [_out_digestable(m) for m in mat]
    return repr(type(mat))


class VariantSpace(_Base):
    """attribute / coordinate variants of the inputs: mutable `res` values (list, ndarray, negative y), no attrs, other rasters
    whose coordinates are close to but not identical with the first raster's, an extra 2-D coordinate."""

    def __init__(self, tier, names):
        self.names = names
        self.radices = [len(names), len(BACKENDS), len(VARIANTS)]
        self.name = "input_attrs_and_coords_variants"
        self.size = int(np.prod(self.radices))
        self.grain = len(BACKENDS) * len(VARIANTS)
        self.weight = 2.0

    def describe(self, rank):
        fi, bi, vi = unrank_product(rank, self.radices)
        return {"function": self.names[fi], "backend": BACKENDS[bi], "variant": VARIANTS[vi], "dtype": "float64"}

    def run(self, lo, hi, out):
        for rank in range(lo, hi):
            fi, bi, vi = unrank_product(rank, self.radices)
            fn = self.by_name[self.names[fi]]
            backend, variant = BACKENDS[bi], VARIANTS[vi]
            if backend == "dask" and not fn.dask:
                out.case(outcome=None, nontrivial=False, calls=0)
                continue
            if variant.startswith("coords_of_other") and fn.nr < 2:
                out.case(outcome=None, nontrivial=False, calls=0)
                continue
            if variant in ("single_chunk", "one_cell_chunks") and backend != "dask":
                out.case(outcome=None, nontrivial=False, calls=0)
                continue
            rasters = make_rasters(fn.nr, "float64", "C", backend, variant)
            bases = [r.data if backend == "numpy" else None for r in rasters]
            status, problems, mat = observe(fn, rasters, bases)
            key = "c10|variant|%s|%s|%s" % (fn.name, backend, variant)
            out.case(outcome=(fn.name, backend, variant, status, _out_digestable(mat)), nontrivial=status == "ok", calls=1)
            out.ok()
            out.count("status:" + status.split(":")[0])
            for kind, msg in problems:
                out.violation(rank, key + "|" + kind, "%s [%s, %s]: %s" % (fn.name, backend, variant, msg), case=self.describe(rank),
                              sig="c10|%s|%s|%s|%s" % (fn.name, backend, variant, kind))
            if out.want_sample() and status == "ok" and not problems:
                out.sample(self.describe(rank))


class ChainSpace(_Base):
    """depth-2 histories f -> g: g is fed f's output (plus fresh rasters for its other arguments)."""

    def __init__(self, tier, fnames, gnames, backends, dtypes):
        self.fn, self.gn, self.backends, self.dtypes = fnames, gnames, backends, dtypes
        self.radices = [len(fnames), len(gnames), len(backends), len(dtypes)]
        self.name = "chain_f_then_g"
        self.size = int(np.prod(self.radices))
        self.weight = 2.0
        self.grain = max(1, len(gnames) // 2)

    def describe(self, rank):
        a, b, c, d = unrank_product(rank, self.radices)
        return {"f": self.fn[a], "g": self.gn[b], "backend": self.backends[c], "dtype": self.dtypes[d]}

    def run(self, lo, hi, out):
        import dask.array as da
        import xarray as xr
        for rank in range(lo, hi):
            a, b, c, d = unrank_product(rank, self.radices)
            f, g = self.by_name[self.fn[a]], self.by_name[self.gn[b]]
            backend, dtype = self.backends[c], self.dtypes[d]
            if backend == "dask" and not (f.dask and g.dask):
                out.case(outcome=None, nontrivial=False, calls=0)
                continue
            if np.dtype(dtype).kind not in f.kinds:
                out.case(outcome=None, nontrivial=False, calls=0)
                continue
            r1 = make_rasters(f.nr, dtype, "C", backend)
            try:
                mid = f.call(r1)
            except Exception:
                out.case(outcome=None, nontrivial=False, calls=1)
                out.count("f_raised")
                continue
            if not isinstance(mid, xr.DataArray) or mid.ndim != 2:
                out.case(outcome=None, nontrivial=False, calls=1)
                out.count("f_output_not_a_2d_raster")
                continue
            if np.dtype(mid.dtype).kind not in g.kinds:
                out.case(outcome=None, nontrivial=False, calls=1)
                continue
            rest = make_rasters(g.nr, str(mid.dtype) if np.dtype(mid.dtype).kind in "iuf" else "float64", "C", backend)[1:]
            args = [mid] + rest
            bases = [x.data if isinstance(x.data, np.ndarray) else None for x in args]
            snaps_r1 = [snapshot(x) for x in r1]
            status, problems, mat = observe(g, args, bases)
            for i, (x, s) in enumerate(zip(r1, snaps_r1)):
                dd = snap_diff(s, snapshot(x))
                if dd and not (f.identity == "inplace" and i == 1):
                    problems.append(("mutated-upstream", "g changed the ORIGINAL input %d of f through f's output: %s" % (i, dd)))
            key = "c10|chain|%s->%s|%s|%s" % (f.name, g.name, backend, dtype)
            out.case(outcome=(f.name, g.name, backend, dtype, status, _out_digestable(mat)), nontrivial=status == "ok", calls=2)
            out.ok()
            out.count("status:" + status.split(":")[0])
            for kind, msg in problems:
                if kind == "identity" and f.identity != "full":
                    continue      # g's identity is judged against f's output only when that is a well-formed raster
                out.violation(rank, key + "|" + kind, "%s(%s(x)) [%s, %s]: %s" % (g.name, f.name, backend, dtype, msg),
                              case=self.describe(rank), sig="c10|%s|%s|%s" % (g.name, backend, kind))
            if out.want_sample() and status == "ok" and not problems:
                out.sample(dict(self.describe(rank), mid_flags=(None if not isinstance(mid.data, np.ndarray) else
                                                                [bool(mid.data.flags.c_contiguous), bool(mid.data.flags.writeable)])))


def build(tier):
    names = fn_names()
    heavy = ["proximity", "allocation", "direction", "viewshed", "generate_terrain"]
    light = [n for n in names if n not in heavy]
    raster_out = ["slope", "aspect", "curvature", "hillshade", "focal.mean", "focal.apply", "focal.hotspots", "convolution_2d",
                  "binary", "reclassify", "quantile", "natural_breaks", "equal_interval", "ndvi", "savi", "evi", "regions",
                  "zonal.trim", "zonal.crop", "perlin", "a_star_search", "local.cell_stats", "local.combine", "local.rank"]
    if tier == "thorough":
        raster_out += ["proximity", "allocation", "direction", "viewshed", "generate_terrain", "gci", "arvi"]
    gs = [n for n in names if n not in ("generate_terrain",)] if tier == "thorough" else [n for n in names if n not in heavy]
    sp = [SingleCallSpace(tier, light, "light"), SingleCallSpace(tier, heavy[:3], "proximity_family", weight=30.0),
          SingleCallSpace(tier, heavy[3:], "viewshed_terrain", weight=40.0),
          VariantSpace(tier, [n for n in names if n != "generate_terrain"] if tier == "thorough"
                       else light + ["viewshed", "proximity"]),
          ChainSpace(tier, raster_out, gs, ["numpy"] if tier == "quick" else ["numpy", "dask"],
                     ["float64"] if tier == "quick" else ["float64", "float32", "int32"])]
    sp[1].grain = 8
    return sp
