"""C18 — trim and crop return the minimal window, cells / coordinates / attributes intact.

Engine E1.  trim: every raster of each listed shape over {1 (kept), 0, NaN} (ints: {1, 0, 2}) x every spelling of the
exclusion sets {} (EMPTY tuple / list: nothing is excluded, not even NaN, so the window is the whole raster), {NaN (default)},
{0}, {0, NaN} (ints also {2}, {0, 2}, {0, 2, NaN} in every order).  crop: every zones
raster over {0, 1, 2} x ORDERED id lists (every permutation of every non-empty subset of the ids, as list and / or tuple; the
3x3 space: ascending list / descending tuple per subset) and id lists with REPEATED ids (every sequence of length 2..3 over
the alphabet in which an id occurs more than once, e.g. (1, 1), [2, 2, 2], (0, 2, 0); the large spaces: the doubles (a, a)
only) - the window depends on the SET of ids - on an all-distinct values raster.  *_<L> / *_z<L>_v<L> spaces: the same
enumeration with the raster (trim) / zones and values (crop) held in memory layout L (F, T = transposed view, S = strided) on
the non-square shapes 2x3, 3x2, 3x4.  Reference model (in this
file, numpy only): bounding box of np.argwhere(kept); the result must be the numpy slices of that box of the
original's cells and of each of its coordinates, with the original's dims and attrs.
trimx spaces: every uint8 / int16 / int64 raster over three letters x exclusion sets holding numbers the raster's dtype
cannot represent (fractions, integers outside its range): no cell equals such a number, so it excludes nothing."""
import itertools
import re

import numpy as np

from ..core.rasters import grid
from ..core.space import Space

PROPERTY = "C18"
LEVEL = "model_checking"
RULE = ("trim spaces: rank = (mixed-radix number of the cell letters of the raster) x (spelling of the exclusion "
        "values); crop spaces: rank = (number of the zones raster over the zone alphabet) x (ordered id list: each "
        "permutation of each non-empty subset of the alphabet, as list / tuple; crop_3x3: each subset once, ascending list or "
        "descending tuple; then the lists with repeated ids: every sequence of length 2..3 over the alphabet that is not "
        "repetition-free, list / tuple alternating - mode suffix +d - or only the doubles (a, a) - suffix +d2); spaces with a layout suffix (_F, _T, _S; _z<L>_v<L> for crop) hold the same logical rasters in "
        "another memory layout; a case is non-trivial when the expected window is smaller than the raster (trimx spaces: "
        "or when a border row / column consists only of cells that are excluded or are the truncated / wrapped image, in "
        "the raster's dtype, of a listed value that no cell equals; EMPTY exclusion set: when a border row / column is all "
        "NaN, i.e. when the default exclusion would give another window); rasters whose "
        "cells are all excluded (trim) / hold none of the ids (crop) are generated and counted but not asserted; "
        "distinct = distinct result rasters")
ASSUMPTIONS = [
    "rasters whose every cell is excluded (trim) or that hold none of the requested ids (crop) have no minimal window: "
    "not asserted (counters.*_not_asserted)",
    "numpy-backed rasters; zones and values of crop have the same shape; zone CELLS hold integers; requested ids are integers, "
    "except in the '+x' id lists (all-float lists with fractions / an absent id, which equal no cell)",
    "memory layout: spaces without a layout suffix pass C-contiguous arrays; the suffixed ones pass the same logical raster "
    "as F = np.asfortranarray, T = the view returned by DataArray.transpose(*dims) of a DataArray holding the transposed "
    "C-ordered array under the swapped dims, S = every second column of a C-ordered array twice as wide (neither C- nor "
    "F-contiguous); the reference works on logical cell positions only",
    "the result's name and the identity/aliasing of the returned object are not asserted (only cells, dims, every "
    "coordinate and attrs)",
    "exclusion values are real numbers compared exactly: a fraction or an integer outside the raster dtype's range "
    "equals no cell of an integer raster (trimx spaces; magnitudes <= 65537 so that float64 holds them exactly)",
    "the EMPTY exclusion set is passed as () and as []: no cell is excluded, NaN cells included (NaN counts as excluded only "
    "when listed), so the minimal window is the whole raster; zones_ids of crop may list an id more than once (the window "
    "is that of the set of listed ids)",
    "an exclusion set holding both 0 and NaN is passed in the spellings (0.0, nan), [nan, 0.0] (one numeric type) and, in "
    "the small trim_spellings_* spaces, (0, nan), (nan, 0), [0, nan] (Python int next to float)",
]
NAN = float("nan")
OMIT = "<omitted>"
KEEP_F = (1, 0, NAN)          # float rasters: 1 is always kept
KEEP_I = (1, 0, 2)            # int rasters: no NaN

# (label, argument (callable so that lists are fresh objects), excluded values for the oracle)
SPELL_COMMON = [("()", lambda: (), ()), ("[]", lambda: [], ()),
                ("default", lambda: OMIT, (NAN,)), ("(nan,)", lambda: (NAN,), (NAN,)),
                ("(0,)", lambda: (0,), (0,)), ("[0]", lambda: [0], (0,)),
                ("(0.0,nan)", lambda: (0.0, NAN), (0, NAN)), ("[nan,0.0]", lambda: [NAN, 0.0], (NAN, 0))]
SPELL_INT = SPELL_COMMON + [("(0,2)", lambda: (0, 2), (0, 2)), ("[2,0]", lambda: [2, 0], (2, 0)), ("(2,)", lambda: (2,), (2,))]
# the three-element set {0, 2, NaN} in every order (one numeric type; tuple / list alternating)
for _i, _p in enumerate(itertools.permutations((0.0, 2.0, NAN))):
    _lab = ("[%s]" if _i % 2 else "(%s)") % ",".join("nan" if v != v else repr(v) for v in _p)
    SPELL_INT.append((_lab, (lambda p=_p: list(p)) if _i % 2 else (lambda p=_p: p), _p))
SPELL_HETERO = [("(0,nan)", lambda: (0, NAN), (0, NAN)), ("(nan,0)", lambda: (NAN, 0), (NAN, 0)),
                ("[0,nan]", lambda: [0, NAN], (0, NAN))]

SMALL = 12000                 # spaces up to this size are explored as a single shard
CORE = ("()", "default", "(0,)", "(0.0,nan)", "(0,2)")      # one spelling per exclusion set
# trim: (shape, dtype, 'full' = every spelling | 'core' | 'two' = 2-letter alphabet {kept, excluded}[, memory layout]);
# the alphabet follows from the dtype.  (3x3 f8 runs the 'core' spellings in the quick tier since the layout dimension was
# added - every spelling x every raster runs on 1x6, 6x1, 2x3, 3x2 - and all spellings in the thorough tier.)
TRIM = {
    "quick": [((1, 1), "f8", "full"), ((1, 6), "f8", "full"), ((6, 1), "f8", "full"), ((3, 3), "f8", "core"),
              ((2, 5), "f8", "core"), ((1, 6), "i8", "full"), ((6, 1), "i8", "full"), ((3, 3), "i8", "core"),
              ((2, 3), "f8", "full"), ((3, 2), "f8", "full"),
              ((2, 3), "f8", "full", "F"), ((3, 2), "f8", "full", "F"), ((2, 3), "f8", "full", "T"), ((3, 2), "f8", "full", "T"),
              ((2, 3), "i8", "core", "F"), ((3, 2), "i8", "core", "T"),
              ((3, 4), "f8", "two", "F"), ((3, 4), "f8", "two", "T"), ((3, 4), "i8", "two", "F")],
}
TRIM["thorough"] = TRIM["quick"] + [((3, 4), "f8", "core"), ((2, 5), "i8", "core"), ((3, 3), "i8", "full"),
                                    ((3, 3), "f8", "full"),
                                    ((2, 5), "f8", "full"), ((4, 2), "i4", "full"), ((2, 4), "f4", "full"),
                                    ((3, 2), "i4", "full"), ((2, 3), "f4", "full"),
                                    ((1, 10), "f8", "core"), ((10, 1), "f8", "core"), ((1, 8), "i8", "full"),
                                    ((8, 1), "i8", "full"),
                                    ((2, 3), "i8", "full", "T"), ((3, 2), "i8", "full", "F"),
                                    ((2, 3), "f8", "full", "S"), ((3, 2), "i8", "full", "S"), ((3, 4), "i8", "two", "T"),
                                    ((3, 4), "f8", "two", "S"), ((3, 3), "f8", "core", "F"), ((2, 5), "f8", "core", "T")]
TRIM = {t: [e if len(e) == 4 else e + ("C",) for e in v] for t, v in TRIM.items()}
TWO = {"f": ((1, NAN), ("()", "default", "(nan,)")), "i": ((1, 0), ("(0,)", "[0]"))}     # 'two': alphabet, spellings


def trim_spellings(dtype, which):
    sp = SPELL_COMMON if dtype[0] == "f" else SPELL_INT
    if which == "two":
        return [x for x in sp if x[0] in TWO[dtype[0]][1]]
    return sp if which == "full" else [x for x in sp if x[0] in CORE]


def trim_alphabet(dtype, which):
    return TWO[dtype[0]][0] if which == "two" else (KEEP_F if dtype[0] == "f" else KEEP_I)


# Python int next to a float in `values`: a separate, small set of spaces (the failure is a type-level one and every
# failing call re-runs the numba front end, ~0.3 s)
HETERO = {"quick": [((1, 2), "f8"), ((2, 1), "i8")], "thorough": [((1, 2), "f8"), ((2, 1), "i8"), ((2, 2), "f8")]}


# trimx: integer rasters x exclusion sets with numbers the dtype cannot represent.  dtype -> (alphabet, value lists);
# the first letter is in no exclusion set.  A list is passed as a tuple when written (..) and as a list when [..].
def _spell(vals, as_list=False):
    vals = tuple(vals)
    label = repr(list(vals)) if as_list else repr(vals)
    return (label.replace(" ", ""), (lambda: list(vals)) if as_list else (lambda: vals), vals)


TRIMX_VALUES = {
    "u1": ((1, 0, 255), [_spell((0.5,)), _spell((255.5,)), _spell((256,)), _spell((-1,)), _spell((257,)),
                         _spell((0, -1)), _spell((256, 255), True), _spell((0.5, 255.0))]),
    "i2": ((1, -9999, 3), [_spell((3.75,)), _spell((-9999.5,)), _spell((55537,)), _spell((-65533,)), _spell((65537,)),
                           _spell((3, 55537)), _spell((3.75, -9999.0), True), _spell((2.5, 3.0))]),
    "i8": ((4, 0, 3), [_spell((0.5,)), _spell((-0.5,)), _spell((3.75,)), _spell((3.25,)), _spell((4.5,)),
                       _spell((0, 3.75)), _spell((0.5, 3.0), True), _spell((-0.5, 0.0, 3.5))]),
}
TRIMX_BITS = {"u1": (8, False), "i2": (16, True), "i8": (64, True)}
TRIMX = {"quick": [(s, d) for d in ("u1", "i2", "i8") for s in ((1, 4), (4, 1), (2, 3), (3, 2))]}
TRIMX["thorough"] = TRIMX["quick"] + [(s, d) for d in ("u1", "i2", "i8") for s in ((1, 7), (7, 1), (2, 4), (4, 2))]


def cast_image(e, dtype):
    """What a C-style cast of the number e to the integer dtype gives: truncation towards zero, then wrap-around."""
    bits, signed = TRIMX_BITS[dtype]
    v = int(e) % (1 << bits)
    return v - (1 << bits) if signed and v >= 1 << (bits - 1) else v


# crop: (shape, zones dtype, values dtype, id lists[, (zones layout, values layout)[, zone alphabet]]).  id lists:
# 'both' = every permutation of every non-empty subset of the alphabet (the ORDER of zones_ids is part of the case), each as
# list and as tuple; 'perms' = every permutation, list / tuple alternating; 'alt' = each subset once, ascending list or
# descending tuple alternating
# a '+d' suffix adds the lists with REPEATED ids (every sequence of length 2..3 over the alphabet that is not repetition-free,
# list / tuple alternating), '+d2' only the doubles (a, a), '+x' all-float lists that pair an id with fractions next to it (a +- 0.5,
# a +- 0.9) or with the absent id 7: those numbers equal no cell, the window is that of the ids that do
CROP = {
    "quick": [((1, 1), "i8", "f8", "both+d"), ((1, 6), "i8", "f8", "both+d"), ((6, 1), "f8", "i8", "both+d"),
              ((3, 3), "i8", "f8", "alt+d2"), ((2, 4), "f8", "i8", "perms+d2"),
              ((2, 3), "i8", "f8", "perms+d", ("F", "F")), ((3, 2), "i8", "f8", "perms+d", ("F", "F")),
              ((2, 3), "f8", "i8", "perms+d", ("T", "T")), ((3, 2), "f8", "i8", "perms+d", ("T", "T")),
              ((3, 4), "i8", "f8", "perms+d2", ("F", "F"), (0, 1)),
              ((2, 3), "i4", "f8", "alt+x"), ((1, 5), "i8", "f8", "alt+x"), ((3, 2), "f8", "i8", "alt+x")],
}
CROP["thorough"] = CROP["quick"] + [((3, 4), "i8", "f8", "alt"), ((3, 3), "f8", "f8", "both+d"), ((2, 5), "f8", "f8", "alt+d2"),
                                    ((4, 2), "i4", "f4", "both"), ((3, 2), "i4", "f4", "both"),
                                    ((1, 9), "i8", "f8", "alt"), ((9, 1), "i8", "f8", "alt"),
                                    ((3, 3), "i4", "f8", "perms"),
                                    ((2, 3), "i8", "f8", "perms", ("F", "C")), ((3, 2), "i8", "f8", "perms", ("C", "F")),
                                    ((2, 3), "i8", "f8", "perms", ("C", "T")), ((3, 2), "i8", "f8", "perms", ("T", "C")),
                                    ((2, 3), "i8", "f8", "perms", ("S", "S")), ((3, 2), "f8", "i8", "perms", ("S", "S")),
                                    ((3, 4), "i8", "f8", "perms", ("T", "T"), (0, 1)),
                                    ((3, 3), "i8", "f8", "alt", ("F", "F")), ((2, 4), "f8", "i8", "alt", ("T", "T"))]
CROP = {t: [e + ((("C", "C"),) if len(e) < 5 else ()) + (((0, 1, 2),) if len(e) < 6 else ()) for e in v]
        for t, v in CROP.items()}


def id_spellings(alphabet, mode):
    """[(label, fresh-argument maker, ids in the given order)]"""
    sets = [s for k in range(1, len(alphabet) + 1) for s in itertools.combinations(alphabet, k)]
    as_list = lambda s: (repr(list(s)), (lambda: list(s)), tuple(s))        # noqa: E731
    as_tuple = lambda s: (repr(tuple(s)), (lambda: tuple(s)), tuple(s))     # noqa: E731
    if "+" in mode:         # lists in which an id is repeated
        mode, dup = mode.split("+")
        if dup == "d2":
            rep = [(a, a) for a in alphabet]
        elif dup == "d":
            rep = [q for k in (2, 3) for q in itertools.product(alphabet, repeat=k) if len(set(q)) < k]
        elif dup == "x":        # all-float lists pairing an id with a NON-INTEGRAL or ABSENT number (equal to no cell of integer zones)
            rep = [q for a in alphabet for q in ((float(a), a + 0.5), (a - 0.5, float(a)), (float(a), 7.0), (a + 0.9, float(a), a - 0.9))]
        else:
            raise ValueError(dup)
        return id_spellings(alphabet, mode) + [as_list(q) if i % 2 else as_tuple(q) for i, q in enumerate(rep)]
    if mode == "alt":
        return [as_tuple(tuple(reversed(s))) if i % 2 else as_list(s) for i, s in enumerate(sets)]
    ordered = [p for s in sets for p in itertools.permutations(s)]
    if mode == "perms":
        return [as_tuple(p) if i % 2 else as_list(p) for i, p in enumerate(ordered)]
    if mode == "both":
        return [f(p) for p in ordered for f in (as_list, as_tuple)]
    raise ValueError(mode)
BOUNDS = {t: {"trim": [dict(shape=list(s), dtype=d, alphabet=[repr(float(v)) if v != v else str(v) for v in trim_alphabet(d, w)],
                            values=[x[0] for x in trim_spellings(d, w)], layout=lay) for s, d, w, lay in TRIM[t]],
              "trim_unrepresentable": [dict(shape=list(s), dtype=d, alphabet=list(TRIMX_VALUES[d][0]),
                                            values=[x[0] for x in TRIMX_VALUES[d][1]]) for s, d in TRIMX[t]],
              "trim_spellings": [dict(shape=list(s), dtype=d, values=[x[0] for x in SPELL_HETERO]) for s, d in HETERO[t]],
              "crop": [dict(shape=list(s), zones_dtype=zd, values_dtype=vd, zones_alphabet=list(al),
                            zones_ids=[x[0] for x in id_spellings(al, sp)], layout_zones_values=list(lay))
                       for s, zd, vd, sp, lay, al in CROP[t]],
              "layouts": {"C": "C-contiguous", "F": "np.asfortranarray", "T": "DataArray.transpose(*dims) view of the "
                          "transposed C-ordered array", "S": "every second column of a C-ordered array twice as wide"},
              "trimmed": "quick: trim 3x3 float64 runs one spelling per exclusion set ('core', 4 of 8) instead of every "
                         "spelling since the layout / id-order dimensions were added; every spelling x every raster runs on "
                         "1x6, 6x1, 2x3, 3x2 (quick) and on 3x3 (thorough); crop id lists with repeated ids: every "
                         "sequence of length 2..3 with a repetition on 1x1, 1x6, 6x1, 2x3, 3x2 ('+d'), only the doubles "
                         "(a, a) on 3x3, 2x4 and the binary 3x4 ('+d2')"}
          for t in ("quick", "thorough")}


# ---- reference model ------------------------------------------------------------------------------------
def kept_mask(a, excluded):
    """Cells whose value is not in `excluded` (a NaN cell is excluded exactly when NaN is listed)."""
    if a.dtype.kind in "iu":
        # Python numbers: int == int and int == float comparisons are exact, whatever the raster's dtype
        listed = [e for e in excluded if e == e]
        return np.array([all(v != e for e in listed) for v in a.ravel().tolist()], dtype=bool).reshape(a.shape)
    m = np.ones(a.shape, dtype=bool)
    for e in excluded:
        if e != e:
            if a.dtype.kind == "f":
                m &= ~np.isnan(a)
        else:
            m &= a != e
    return m


def member_mask(z, ids):
    m = np.zeros(z.shape, dtype=bool)
    for i in ids:
        m |= z == i
    return m


def bbox(mask):
    """(top, bottom, left, right), inclusive, of the True cells; None when there is none."""
    idx = np.argwhere(mask)
    if len(idx) == 0:
        return None
    (t, l), (b, r) = idx.min(axis=0), idx.max(axis=0)
    return int(t), int(b), int(l), int(r)


def _eq(a, b):
    a, b = np.asarray(a), np.asarray(b)
    if a.shape != b.shape:
        return False
    if a.dtype.kind == "f" and b.dtype.kind == "f":
        return bool(np.array_equal(a, b, equal_nan=True))
    return bool(np.array_equal(a, b))


def window_problems(res, a, box, dims, coords, attrs):
    """Differences between DataArray `res` and the window `box` of the original (cells `a`, coordinates `coords` =
    {name: (dims, array)}, `attrs`); [] when it is exactly that window.  First item: class of the difference."""
    t, b, l, r = box
    sl = {dims[0]: slice(t, b + 1), dims[1]: slice(l, r + 1)}
    out = []
    if tuple(res.dims) != tuple(dims):
        out.append(("wrong-dims", "dims %r, expected %r" % (tuple(res.dims), tuple(dims))))
        return out
    o = np.asarray(res.values)
    want = a[t:b + 1, l:r + 1]
    if o.shape != want.shape:
        out.append(("wrong-window", "window shape %r, expected %r = rows %d..%d, columns %d..%d"
                    % (o.shape, want.shape, t, b, l, r)))
    elif not _eq(o, want):
        out.append(("wrong-cells", "cells differ from the original's at rows %d..%d, columns %d..%d" % (t, b, l, r)))
    cvars = res.coords.variables                      # name -> xarray Variable (no DataArray construction)
    if set(map(str, cvars)) != set(coords):
        out.append(("wrong-coords", "coordinates %r, expected %r" % (sorted(map(str, cvars)), sorted(coords))))
    elif not out:
        for name, (cdims, cvals) in coords.items():
            wantc = cvals[tuple(sl[d] for d in cdims)] if cdims else cvals
            got = cvars[name]
            if tuple(got.dims) != tuple(cdims) or not _eq(got.values, wantc):
                out.append(("wrong-coords", "coordinate %r is %r, expected %r" % (name, got.values.tolist(),
                                                                                  np.asarray(wantc).tolist())))
                break
    if dict(res.attrs) != attrs:
        out.append(("wrong-attrs", "attrs %r, expected %r" % (dict(res.attrs), attrs)))
    return out


def make_coords(h, w, dims):
    """Non-trivial coordinates: descending non-uniform rows, non-uniform columns, a scalar, a non-index 1-D one."""
    ys = np.array([50.0 - 1.5 * i - 0.25 * i * i for i in range(h)])
    xs = np.array([-3.0 + 2.0 * j + 0.125 * (j % 3) for j in range(w)])
    return {dims[0]: ((dims[0],), ys), dims[1]: ((dims[1],), xs), "band": ((), np.array(3)),
            "colid": ((dims[1],), np.arange(w) * 7 + 100)}


def exc_text(ex):
    """One-line text of an exception (numba messages carry ANSI colour codes and line breaks)."""
    return "%s: %s" % (type(ex).__name__, " ".join(re.sub(r"\x1b\[[0-9;]*m", "", str(ex)).split())[:200])


def lit(a):
    """Short literal of a small array for violation keys."""
    return repr(np.asarray(a).tolist()).replace(" ", "")


class _Base(Space):
    dims = ("lat", "lon")

    def setup(self):
        import xarray as xr
        from xrspatial import zonal
        self.xr, self.trim, self.crop = xr, zonal.trim, zonal.crop
        h, w = self.shape
        self.coords = make_coords(h, w, self.dims)
        self._cache = (None, None)

    def da(self, a, attrs, layout="C"):
        """DataArray (dims, coordinates, attrs of the space) holding the logical raster `a` in the given memory layout."""
        coords = {k: (d, v) for k, (d, v) in self.coords.items()}
        if layout == "T":
            t = self.xr.DataArray(np.ascontiguousarray(a.T), dims=self.dims[::-1], coords=coords, attrs=dict(attrs))
            return t.transpose(*self.dims)
        if layout == "C":
            data = np.array(a, order="C")
        elif layout == "F":
            data = np.asfortranarray(a)
        elif layout == "S":
            wide = np.zeros((a.shape[0], 2 * a.shape[1]), dtype=a.dtype)
            wide[:, ::2] = a
            wide[:, 1::2] = a[:, ::-1]
            data = wide[:, ::2]
        else:
            raise ValueError(layout)
        return self.xr.DataArray(data, dims=self.dims, coords=coords, attrs=dict(attrs))


class TrimSpace(_Base):
    def __init__(self, shape, dtype, spellings, tag="trim", alphabet=None, layout="C"):
        self.shape, self.dtype, self.spellings, self.layout = shape, dtype, spellings, layout
        self.alphabet = alphabet or (KEEP_F if dtype[0] == "f" else KEEP_I)
        self.trimx = tag == "trimx"
        self.name = "%s_%dx%d_%s" % (tag, shape[0], shape[1], dtype) + ("" if layout == "C" else "_" + layout)
        self.ktag = "" if layout == "C" else "|layout=" + layout
        self.nr = len(self.alphabet) ** (shape[0] * shape[1])
        self.size = self.nr * len(spellings)
        self.weight = shape[0] * shape[1] * (50 if tag == "trim_spellings" else 1)
        self.grain = self.size if self.size <= SMALL else None      # one shard: one worker compiles its signatures
        self.attrs = {"res": (1.5, 2.0), "crs": "EPSG:4326", "nodata": -1}

    def case(self, rank):
        ri, si = divmod(rank, len(self.spellings))
        return grid(ri, self.shape, self.alphabet, self.dtype), self.spellings[si]

    def describe(self, rank):
        a, (label, mk, excl) = self.case(rank)
        return {"function": "xrspatial.zonal.trim", "raster": a, "values": label, "memory_layout": self.layout,
                "coords": {k: v for k, (d, v) in make_coords(self.shape[0], self.shape[1], self.dims).items()},
                "attrs": self.attrs}

    def run(self, lo, hi, out):
        ns = len(self.spellings)
        for rank in range(lo, hi):
            ri, si = divmod(rank, ns)
            if self._cache[0] != ri:
                a = grid(ri, self.shape, self.alphabet, self.dtype)
                self._cache = (ri, (a, self.da(a, self.attrs, self.layout)))
            a, r = self._cache[1]
            label, mk, excl = self.spellings[si]
            box = bbox(kept_mask(a, excl))
            if box is None:
                out.case(outcome=None, nontrivial=False, calls=0)
                out.count("trim_all_cells_excluded_not_asserted")
                continue
            arg = mk()
            problems, o = [], None
            try:
                res = self.trim(r) if arg is OMIT else self.trim(r, values=arg)
                o = np.asarray(res.values)
                problems = window_problems(res, a, box, self.dims, self.coords, self.attrs)
            except Exception as ex:
                problems = [("raises-%s" % type(ex).__name__, exc_text(ex))]
            t, b, l, rr = box
            nontrivial = (b - t + 1, rr - l + 1) != a.shape
            if len(excl) == 0 and bbox(kept_mask(a, (NAN,))) != box:
                nontrivial = True       # empty exclusion set on a raster with an all-NaN border line
                out.count("trim: empty exclusion set, raster has an all-NaN border row / column (kept)")
            if self.trimx:
                # would comparing in the raster's dtype give another window?  (bookkeeping only)
                near = kept_mask(a, tuple(excl) + tuple(cast_image(e, self.dtype) for e in excl))
                if bbox(near) != box:
                    nontrivial = True
                    out.count("trimx: a border line holds only excluded cells and truncated/wrapped images of listed "
                              "values (kept cells)")
            out.case(outcome=o if o is not None else problems[0][1], nontrivial=nontrivial, calls=1)
            out.ok()
            if problems:
                nan_listed = any(e != e for e in excl)
                has_nan = bool(a.dtype.kind == "f" and np.isnan(a).any())
                kind = "trim|%s,nan-excluded=%s,raster-has-nan=%s" % (problems[0][0], "yes" if nan_listed else "no",
                                                                      "yes" if has_nan else "no")
                sig = None
                if problems[0][0].startswith("raises-"):
                    kind = "trim|%s,values=%s" % (problems[0][0], label)
                    if label in [x[0] for x in SPELL_HETERO]:       # type-level: fails for every raster
                        sig = "zonal.trim|values=%s|%s" % (label, problems[0][0][7:])
                out.count("violations:" + kind)
                out.violation(rank, "%s|values=%s|dtype=%s|raster=%s%s" % (kind, label, self.dtype, lit(a), self.ktag),
                              "trim(values=%s) on %s raster %s%s: %s; minimal window is rows %d..%d, columns %d..%d"
                              % (label, self.dtype, lit(a), self.ktag, "; ".join(p[1] for p in problems), t, b, l, rr),
                              case=self.describe(rank), sig=sig, observed=res if o is not None else problems[0][1],
                              expected={"window_rows": [t, b], "window_columns": [l, rr], "cells": a[t:b + 1, l:rr + 1]})
            elif out.want_sample() and nontrivial and label not in ("default", "(nan,)"):
                out.sample({"raster": a, "values": label, "result": res})


class CropSpace(_Base):
    def __init__(self, shape, zdtype, vdtype, spell, layouts=("C", "C"), alphabet=(0, 1, 2)):
        self.shape, self.zdtype, self.vdtype, self.spellings = shape, zdtype, vdtype, id_spellings(alphabet, spell)
        self.zlay, self.vlay, self.alphabet = layouts[0], layouts[1], tuple(alphabet)
        self.name = "crop_%dx%d_zones_%s_values_%s" % (shape[0], shape[1], zdtype, vdtype)
        self.ktag = ""
        if tuple(layouts) != ("C", "C"):
            self.name += "_z%s_v%s" % tuple(layouts)
            self.ktag = "|layout=%s/%s" % tuple(layouts)
        self.nr = len(self.alphabet) ** (shape[0] * shape[1])
        self.size = self.nr * len(self.spellings)
        self.weight = shape[0] * shape[1]
        self.grain = self.size if self.size <= SMALL else None
        self.attrs = {"res": (1.5, 2.0), "unit": "m"}
        self.zattrs = {"res": (1.5, 2.0), "kind": "zones"}
        h, w = shape
        v = np.array([[10 * (i + 1) + j for j in range(w)] for i in range(h)], dtype="f8")
        self.values = (v + 0.5 if vdtype[0] == "f" else v).astype(vdtype)        # all cells distinct

    def setup(self):
        super().setup()
        self.v = self.da(self.values, self.attrs, self.vlay)

    def describe(self, rank):
        ri, si = divmod(rank, len(self.spellings))
        return {"function": "xrspatial.zonal.crop", "zones": grid(ri, self.shape, self.alphabet, self.zdtype),
                "values": self.values, "zones_ids": self.spellings[si][0],
                "memory_layout_zones": self.zlay, "memory_layout_values": self.vlay,
                "coords": {k: v for k, (d, v) in make_coords(self.shape[0], self.shape[1], self.dims).items()},
                "attrs": self.attrs}

    def run(self, lo, hi, out):
        ns = len(self.spellings)
        for rank in range(lo, hi):
            ri, si = divmod(rank, ns)
            if self._cache[0] != ri:
                z = grid(ri, self.shape, self.alphabet, self.zdtype)
                self._cache = (ri, (z, self.da(z, self.zattrs, self.zlay)))
            z, zr = self._cache[1]
            label, mk, ids = self.spellings[si]
            box = bbox(member_mask(z, ids))
            if box is None:
                out.case(outcome=None, nontrivial=False, calls=0)
                out.count("crop_no_cell_of_the_ids_not_asserted")
                continue
            problems, o = [], None
            try:
                res = self.crop(zr, self.v, mk())
                o = np.asarray(res.values)
                problems = window_problems(res, self.values, box, self.dims, self.coords, self.attrs)
            except Exception as ex:
                problems = [("raises-%s" % type(ex).__name__, exc_text(ex))]
            t, b, l, rr = box
            nontrivial = (b - t + 1, rr - l + 1) != z.shape
            out.case(outcome=o if o is not None else problems[0][1], nontrivial=nontrivial, calls=1)
            out.ok()
            if problems:
                kind = "crop|%s" % problems[0][0]
                out.count("violations:" + kind)
                out.violation(rank, "%s|zones_ids=%s|zones=%s:%s|values=%s%s" % (kind, label, self.zdtype, lit(z), self.vdtype,
                                                                                self.ktag),
                              "crop(zones_ids=%s) on %s zones %s: %s; minimal window is rows %d..%d, columns %d..%d"
                              % (label, self.zdtype, lit(z), "; ".join(p[1] for p in problems), t, b, l, rr),
                              case=self.describe(rank), observed=res if o is not None else problems[0][1],
                              expected={"window_rows": [t, b], "window_columns": [l, rr],
                                        "cells": self.values[t:b + 1, l:rr + 1]})
            elif out.want_sample() and nontrivial and len(ids) > 1:
                out.sample({"zones": z, "values": self.values, "zones_ids": label, "result": res})


def build(tier):
    sp = [TrimSpace(s, d, trim_spellings(d, w), tag={"full": "trim", "core": "trimcore", "two": "trim2l"}[w],
                    alphabet=trim_alphabet(d, w), layout=lay) for s, d, w, lay in TRIM[tier]]
    sp += [TrimSpace(s, d, SPELL_HETERO, tag="trim_spellings") for s, d in HETERO[tier]]
    sp += [TrimSpace(s, d, TRIMX_VALUES[d][1], tag="trimx", alphabet=TRIMX_VALUES[d][0]) for s, d in TRIMX[tier]]
    sp += [CropSpace(s, zd, vd, spell, lay, al) for s, zd, vd, spell, lay, al in CROP[tier]]
    return sp
