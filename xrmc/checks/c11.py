"""C11 — results depend only on the arguments, not on earlier calls or thread timing.

E2 (history explorer): the system state is the interpreter; states are rebuilt by replaying a history in a
brand-new worker process (every shard of this check runs in a fresh interpreter) and every call of every
explored history is compared with the digest the same call produces when it is the only call of a fresh
interpreter.  Coverage: depth-2 histories from the fresh state (trie), every ordered pair of the full alphabet
adjacent once (de Bruijn B(n,2) = Eulerian circuit of the complete digraph), every ordered triple of the core
alphabet (B(k,3)), RNG pre-states, NUMBA_NUM_THREADS x Dask scheduler grid.
Lazy results: every ordered pair of Dask calls made while the other's result is still lazy, each then computed and compared
with the call made and computed alone.
E3d: all <= p-preemption interleavings of two public calls at Python line granularity (interpreted mode).
E3e: parallel-kernel gate (dispatchers compiled with parallel=True are re-run with their prange iterations split
over two interleaved threads)."""
import os

import numpy as np

from ..core.space import Space
from ..history import sequences
from ..history.letters import letter_names

PROPERTY = "C11"
LEVEL = "model_checking"
FRESH_WORKERS = True          # every shard runs in a brand-new interpreter
RULE = ("state = interpreter process (JIT specialisation caches, module tables, mutable defaults, RNG); transition = one "
        "public call from the alphabet; every explored history is replayed in a fresh interpreter and each call's result "
        "digest is compared with the digest of the same call alone in a fresh interpreter; the observable state vector "
        "(module containers, mutable defaults, frozen globals, dispatcher options) is digested before/after every call. "
        "case = one call inside a history (or one schedule in the interleaving spaces); non-trivial = the call is not the "
        "first of its history; distinct = digest of (history prefix window, result)")
ASSUMPTIONS = [
    "in the history spaces every array a call hands back is overwritten in place (7s) once its digest has been taken: a result "
    "belongs to the caller, and a later call that hands out the same array again (a cache) then differs from its fresh-interpreter digest",
    "histories are covered by windows: every ordered pair of the full alphabet and every ordered triple of the core "
    "alphabet occur adjacently, inside long histories that start from non-initial states; depth-2 histories over the "
    "core alphabet are also run from the fresh state. Longer-range dependencies are only covered as far as the long "
    "covering histories happen to contain them",
    "a DataArray's `name` is not part of the result (Dask-backed results inherit the graph token as name)",
    "seeded generators re-seed the global NumPy RNG by design: the RNG component of the state vector may change for them",
    "real numba worker threads inside compiled code cannot be scheduled from outside; no kernel on the tree is "
    "parallel=True (gate) — if one appears its prange loop is explored in interpreted mode at line granularity, "
    "which models iteration interleaving, not the hardware memory model",
    "E3d interleavings are those of the interpreted sources (NUMBA_DISABLE_JIT=1) at Python line granularity",
]
def _bounds(tier):
    names, core = letter_names(tier)
    kc = 6 if tier == "quick" else len(core)
    return {"alphabet": len(names), "letters": names, "core": core[:kc], "pair_cover": "de Bruijn B(%d,2)" % len(names),
            "triple_cover": "de Bruijn B(%d,3)" % kc, "trie_depth": 2, "trie_letters": kc,
            "preemptions": 1 if tier == "quick" else 2, "numba_threads": [1, 16] if tier == "quick" else [1, 2, 16],
            "dask": ["synchronous", "threads:1", "threads:4", "threads:16"],
            "hash_seeds": [0, 1, 2] if tier == "quick" else [0, 1, 2, 3, 4, 5, 6]}


BOUNDS = {"quick": _bounds("quick"), "thorough": _bounds("thorough")}


def _fresh(tier, letter):
    from ..history import fresh
    return fresh.get(tier, letter)


class FreshRefs(Space):
    """phase 0: the reference digests (one fresh interpreter per letter) + 'repeating a call gives an identical result'."""
    phase = 0

    def __init__(self, tier):
        self.tier = tier
        self.letters, _ = letter_names(tier)
        self.name = "fresh_interpreter_references"
        self.size = len(self.letters)
        self.grain = 1
        self.weight = 10.0

    def describe(self, rank):
        return {"history": [self.letters[rank], self.letters[rank]], "from": "fresh interpreter"}

    def run(self, lo, hi, out):
        for rank in range(lo, hi):
            name = self.letters[rank]
            ref = _fresh(self.tier, name)
            out.case(outcome=(name, ref["digest"]), nontrivial=True, calls=2)
            out.ok()
            if ref["error"]:
                out.count("letter_raises_in_fresh_interpreter:%s" % name)
                out.note("letter %s raises when called alone: %s" % (name, ref["error"]))
            if ref["digest"] != ref["digest_repeat"]:
                out.violation(rank, "c11|repeat|%s" % name, "repeating %s in the same process gives a different result" % name,
                              case=self.describe(rank))
            if ref["stable_changes"]:
                out.violation(rank, "c11|state|%s|%s" % (name, ",".join(ref["stable_changes"])),
                              "%s changes module-level state that later calls read: %s" % (name, ref["stable_changes"]),
                              case=self.describe(rank))
            if out.want_sample():
                out.sample({"letter": name, "fresh_digest": ref["digest"], "first_call_s": ref["first_call_s"]})


def _overwrite_result(res):
    """Overwrite, in place, every writeable NumPy array a call handed back (DataArray / Dataset / ndarray / tuple of them)."""
    import xarray as xr
    if isinstance(res, (tuple, list)):
        for x in res:
            _overwrite_result(x)
        return
    if isinstance(res, xr.Dataset):
        for v in res.data_vars.values():
            _overwrite_result(v)
        return
    a = res.data if isinstance(res, xr.DataArray) else res
    if isinstance(a, np.ndarray) and a.flags.writeable and a.dtype.kind in "fiub":
        a[...] = 1 if a.dtype.kind == "b" else 7


class HistorySpace(Space):
    """phase 1: each case is one history (a list of letters) executed from the first call in a fresh interpreter."""
    phase = 1

    def __init__(self, tier, name, histories, window):
        self.tier, self.name, self.hist, self.window = tier, name, histories, window
        self.size = len(histories)
        self.grain = 1
        self.weight = 5.0 + max((len(h) for h in histories), default=0)

    def describe(self, rank):
        return {"history": self.hist[rank], "from": "fresh interpreter"}

    def setup(self):
        import dask
        dask.config.set(scheduler="synchronous")
        from ..history import letters, state
        self.L = letters.build_letters(self.tier)
        self.letters_mod, self.state = letters, state

    def run(self, lo, hi, out):
        for rank in range(lo, hi):
            hist = self.hist[rank]
            v = self.state.vector()
            for pos, name in enumerate(hist):
                ref = _fresh(self.tier, name)
                res = None
                try:
                    res = self.L[name][0]()
                    d = self.letters_mod.result_digest(res)
                except Exception as e:
                    d = "EXC:%s" % type(e).__name__
                try:        # a result belongs to the caller: whatever the caller does to it must not reach later calls
                    _overwrite_result(res)
                except Exception:
                    out.count("result_not_overwritten")
                v2 = self.state.vector()
                ctx = hist[max(0, pos - self.window + 1):pos + 1]
                out.case(outcome=(tuple(ctx), d), nontrivial=pos > 0, calls=1)
                out.ok()
                if d != ref["digest"]:
                    out.violation(rank, "c11|history|%s|pos=%d" % ("->".join(ctx), pos),
                                  "%s after %s returns a result different from the same call in a fresh interpreter"
                                  % (name, hist[max(0, pos - 3):pos] or "<nothing>"),
                                  case={"history": hist[:pos + 1]}, observed=d, expected=ref["digest"])
                ch = self.state.stable_diff(v, v2)
                if ch:
                    out.violation(rank, "c11|state|%s|%s" % (name, ",".join(ch)),
                                  "%s changes module-level state that later calls read: %s" % (name, ch),
                                  case={"history": hist[:pos + 1]})
                if v["rng"] != v2["rng"] and not ref["rng_changed"]:
                    out.violation(rank, "c11|rng|%s" % name, "%s consumes/reseeds the global RNG only in this history" % name)
                v = v2
            if out.want_sample():
                out.sample({"history": hist[:12], "length": len(hist), "all_equal_to_fresh": True})


class RngSpace(Space):
    """seeded generators under different pre-states of the global NumPy RNG."""
    phase = 1

    def __init__(self, tier):
        self.tier = tier
        allnames, _ = letter_names(tier)
        self.gens = [n for n in allnames if n.startswith(("perlin", "generate_terrain", "terrain_", "natural_breaks_sample"))]
        self.pre = [("seed0", 0, 0), ("seed1+3draws", 1, 3), ("seed12345+100draws", 12345, 100), ("seed5", 5, 0)]
        self.name = "rng_prestates"
        self.size = len(self.gens) * len(self.pre)
        self.grain = self.size

    def describe(self, rank):
        g, p = divmod(rank, len(self.pre))
        return {"letter": self.gens[g], "rng_prestate": self.pre[p][0]}

    def setup(self):
        from ..history import letters
        self.L = letters.build_letters(self.tier)
        self.letters_mod = letters

    def run(self, lo, hi, out):
        for rank in range(lo, hi):
            g, p = divmod(rank, len(self.pre))
            name = self.gens[g]
            _, seed, draws = self.pre[p]
            np.random.seed(seed)
            if draws:
                np.random.random(draws)
            d = self.letters_mod.result_digest(self.L[name][0]())
            ref = _fresh(self.tier, name)
            out.case(outcome=(name, self.pre[p][0], d), nontrivial=True, calls=1)
            out.ok()
            if d != ref["digest"]:
                out.violation(rank, "c11|rng-prestate|%s|%s" % (name, self.pre[p][0]),
                              "%s depends on the state of the global RNG before the call" % name, case=self.describe(rank))


class ThreadGrid(Space):
    """NUMBA_NUM_THREADS x Dask scheduler/worker-count grid: one fresh interpreter per configuration."""
    phase = 1

    def __init__(self, tier):
        self.tier = tier
        allnames, _ = letter_names(tier)
        want = ["proximity_dask_md1.5", "apply_3x5_range", "mean_default", "hotspots_3x3", "hotspots_3x5_dask", "stats_dask",
                "crosstab_dask", "slope_dask", "slope_i4", "perlin_s5", "focal_stats_default", "focal_stats_dup_names", "stats_default",
                "crosstab", "polygonize_int", "local_combine", "proximity"]
        self.sub = [n for n in want if n in allnames]
        self.cfg = [(nt, ds, 0) for nt in BOUNDS[tier]["numba_threads"] for ds in BOUNDS[tier]["dask"]]
        # interpreter hash randomisation is part of the environment too: results must not depend on PYTHONHASHSEED
        self.cfg += [(16, "synchronous", hs) for hs in ((1, 2) if tier == "quick" else (1, 2, 3, 4, 5, 6))]
        self.name = "numba_threads_x_dask_scheduler_x_hashseed_grid"
        self.size = len(self.cfg)
        self.grain = 1
        self.weight = 20.0

    def describe(self, rank):
        return {"NUMBA_NUM_THREADS": self.cfg[rank][0], "dask": self.cfg[rank][1], "PYTHONHASHSEED": self.cfg[rank][2], "letters": self.sub}

    def run(self, lo, hi, out):
        from ..history import fresh
        for rank in range(lo, hi):
            nt, ds, hs = self.cfg[rank]
            res = fresh.compute_many(self.tier, self.sub, {"NUMBA_NUM_THREADS": str(nt), "XRMC_DASK": ds, "PYTHONHASHSEED": str(hs)})
            for r in res:
                ref = _fresh(self.tier, r["letter"])
                out.case(outcome=(r["letter"], nt, ds, r["digest"]), nontrivial=True, calls=2)
                out.ok()
                if r["digest"] != ref["digest"] or r["digest_repeat"] != ref["digest"]:
                    out.violation(rank, "c11|env|%s|numba=%d|dask=%s|hashseed=%d" % (r["letter"], nt, ds, hs),
                                  "%s differs from its fresh result under NUMBA_NUM_THREADS=%d, dask %s, PYTHONHASHSEED=%d"
                                  % (r["letter"], nt, ds, hs), case=self.describe(rank))


# ------------------------------------------------------------------------------------------------
# E3d: interleavings (interpreted mode)
# ------------------------------------------------------------------------------------------------
def _interleave_bodies():
    """name -> (make(variant) -> thunk); two variants with different data so that cross-talk is visible."""
    import xarray as xr
    import xrspatial as xs
    from xrspatial import classify, focal, multispectral as ms, zonal

    def arr(variant, shape=(3, 4)):
        h, w = shape
        i, j = np.meshgrid(np.arange(h), np.arange(w), indexing="ij")
        a = (i * 3 + j * 5 + i * j) % 7 + 0.5 * variant * (i + 1)
        return a.astype(float)

    def da_(a):
        h, w = a.shape
        return xr.DataArray(a, dims=("y", "x"), coords={"y": np.arange(h, dtype=float)[::-1], "x": np.arange(w, dtype=float)})

    k = np.array([[0, 1, 0], [1, 1, 1], [0, 1, 0.0]])
    B = {
        "focal.apply": lambda v: (lambda: focal.apply(da_(arr(v)), k).values),
        "focal.mean": lambda v: (lambda: focal.mean(da_(arr(v)), passes=1 + v, excludes=[np.nan, 3.0 + v]).values),
        "slope": lambda v: (lambda: xs.slope(da_(arr(v))).values),
        "proximity": lambda v: (lambda: xs.proximity(da_(np.where(arr(v, (2, 3)) > 5, 1.0, 0.0)),
                                                       max_distance=1.5 + v, target_values=[1.0]).values),
        "allocation": lambda v: (lambda: xs.allocation(da_(np.where(arr(v, (2, 3)) > 4, 2.0 + v, 0.0))).values),
        "zonal.stats": lambda v: (lambda: zonal.stats(da_((arr(0) % 3).astype(int)), da_(arr(v)), zone_ids=[0, 1 + v]).to_numpy()),
        "zonal.crosstab": lambda v: (lambda: zonal.crosstab(da_((arr(0) % 3).astype(int)), da_(arr(v) // 2)).to_numpy(dtype=float)),
        "reclassify": lambda v: (lambda: classify.reclassify(da_(arr(v)), bins=[1, 3 + v, 9], new_values=[1, 2, 3]).values),
        "ndvi": lambda v: (lambda: ms.ndvi(da_(arr(v)), da_(arr(1 - v) + 1)).values),
        "hotspots": lambda v: (lambda: focal.hotspots(da_(arr(v)), np.ones((3, 3))).values),
    }
    return B


PAIRS_Q = [("focal.apply", "focal.apply"), ("focal.mean", "focal.mean"), ("proximity", "proximity"),
           ("proximity", "allocation"), ("zonal.stats", "zonal.stats"), ("slope", "focal.apply"),
           ("reclassify", "reclassify"), ("zonal.crosstab", "zonal.stats")]
PAIRS_T = PAIRS_Q + [("ndvi", "ndvi"), ("hotspots", "hotspots"), ("hotspots", "focal.apply"), ("allocation", "allocation"),
                     ("zonal.crosstab", "zonal.crosstab"), ("focal.mean", "focal.apply")]


class InterleaveSpace(Space):
    mode = "interp"
    phase = 1

    def __init__(self, tier):
        self.tier = tier
        self.pairs = PAIRS_Q if tier == "quick" else PAIRS_T
        self.bound = 1 if tier == "quick" else 2
        self.cap = 6000 if tier == "quick" else 15000
        self.name = "interleave_2threads_le%d_preemptions" % self.bound
        self.size = len(self.pairs)
        self.grain = 1
        self.weight = 100.0

    def describe(self, rank):
        return {"threads": list(self.pairs[rank]), "preemption_bound": self.bound, "granularity": "python line events in xrspatial frames"}

    def setup(self):
        from ..sched import interleave
        self.il = interleave
        self.B = _interleave_bodies()

    def run(self, lo, hi, out):
        for rank in range(lo, hi):
            a, b = self.pairs[rank]
            ref = [self.B[a](0)(), self.B[b](1)()]

            def make():
                return [self.B[a](0), self.B[b](1)]
            seen = set()

            def on_exec(ex):
                ok = True
                for i in range(2):
                    if ex.errors[i] is not None or not np.array_equal(np.asarray(ex.results[i], dtype=float),
                                                                      np.asarray(ref[i], dtype=float), equal_nan=True):
                        ok = False
                out.case(outcome=(a, b, tuple(ex.choices)), nontrivial=any(ex.choices), calls=2)
                out.ok()
                seen.add(ok)
                if not ok:
                    nz = [i for i, c in enumerate(ex.choices) if c]
                    out.violation(rank, "c11|interleave|%s+%s|switch_points=%s" % (a, b, nz),
                                  "two concurrent calls (%s, %s) interfere under schedule with switches at steps %s: %s"
                                  % (a, b, nz, [repr(e) for e in ex.errors if e is not None] or "results differ from sequential"),
                                  case={"threads": [a, b], "choices_nonzero_at": nz, "steps": ex.steps})
            st = self.il.explore(make, self.bound, on_exec, max_execs=self.cap)
            out.count("schedules", st["executions"])
            if st["capped"]:
                out.count("schedule_caps_hit")
                out.note("interleaving cap %d hit for %s+%s (bound %d)" % (self.cap, a, b, self.bound))
            out.sample({"threads": [a, b], "schedules": st["executions"], "steps_per_execution": st["max_steps"],
                        "preemption_bound": self.bound})


class ParallelGate(Space):
    """E3e: every numba dispatcher reachable from xrspatial.* is inspected; kernels compiled with parallel=True get
    their prange loops explored (two workers, iterations split, line-level interleavings) in interpreted mode."""
    mode = "interp"
    phase = 1

    def __init__(self, tier):
        self.tier = tier
        self.name = "parallel_kernel_gate"
        self.size = 1
        self.grain = 1

    def describe(self, rank):
        return {"gate": "numba dispatchers with parallel=True"}

    def run(self, lo, hi, out):
        # targetoptions are only present on real dispatchers: inspect them in a compiled-mode child
        from ..history import fresh
        import json
        import subprocess
        import sys
        code = ("import json,warnings;warnings.filterwarnings('ignore');from xrmc.history import state;"
                "print(json.dumps({'par':state.parallel_kernels(),'n':state.dispatcher_count()}))")
        r = subprocess.run([sys.executable, "-c", code], capture_output=True, text=True, env=fresh.child_env(), cwd=fresh.VERIF)
        info = json.loads([ln for ln in r.stdout.splitlines() if ln.startswith("{")][-1])
        out.count("dispatchers_inspected", info["n"])
        out.case(outcome=("dispatchers", info["n"], tuple(map(tuple, info["par"]))), nontrivial=True, calls=0)
        out.ok()
        if not info["par"]:
            out.sample({"dispatchers": info["n"], "parallel_true": []})
            return
        from ..sched import parallel_gate
        for modname, fname in info["par"]:
            res = parallel_gate.explore_kernel(modname, fname, bound=1 if self.tier == "quick" else 2)
            out.count("parallel_kernels_explored")
            out.count("schedules", res["executions"])
            for _ in range(res["executions"]):
                out.case(outcome=None, nontrivial=True, calls=1)
            out.ok(res["executions"])
            if res["status"] == "unsupported":
                out.violation(0, "c11|parallel|%s.%s|unexplorable" % (modname, fname),
                              "%s.%s is compiled with parallel=True and its prange loop cannot be explored (%s): the "
                              "sequential-prange assumption the library relies on no longer holds" % (modname, fname, res["why"]),
                              sig="c11|parallel|%s.%s" % (modname, fname))
            elif res["status"] == "race":
                out.violation(0, "c11|parallel|%s.%s|race" % (modname, fname),
                              "%s.%s is compiled with parallel=True and its prange iterations interfere: %s"
                              % (modname, fname, res["why"]), case=res.get("case"),
                              sig="c11|parallel|%s.%s" % (modname, fname))
            out.sample({"kernel": "%s.%s" % (modname, fname), "status": res["status"], "schedules": res["executions"]})


def _lazy_letters():
    """name -> thunk returning a LAZY (Dask-backed, not yet computed) result."""
    import xrspatial as xs
    from xrspatial import classify, focal, multispectral as ms
    from ..history.letters import _base, _da, _targets
    CH = ((2, 3), (3, 3))
    z = lambda: _da(np.zeros((5, 6)), CH)      # noqa: E731
    b = lambda: _da(_base(), CH)               # noqa: E731
    t = lambda: _da(_targets(), CH)            # noqa: E731
    k33 = np.array([[0, 1, 0], [1, 1, 1], [0, 1, 0.0]])
    return {
        "perlin_s5": lambda: xs.perlin(z()),
        "perlin_s6": lambda: xs.perlin(z(), seed=6),
        "perlin_s0_f31": lambda: xs.perlin(z(), seed=0, freq=(3, 1)),
        "terrain_s3": lambda: xs.generate_terrain(z(), seed=3),
        "terrain_s4_window": lambda: xs.generate_terrain(z(), seed=4, x_range=(10, 40), y_range=(-5, 20)),
        "proximity_md1.5": lambda: xs.proximity(t(), max_distance=1.5),
        "allocation_md2.5": lambda: xs.allocation(t(), max_distance=2.5),
        "direction": lambda: xs.direction(t()),
        "slope": lambda: xs.slope(b()),
        "hillshade_az100": lambda: xs.hillshade(b(), azimuth=100, angle_altitude=30),
        "mean_p2": lambda: focal.mean(b(), passes=2),
        "apply_3x3": lambda: focal.apply(b(), k33),
        "hotspots_3x3": lambda: focal.hotspots(b(), k33),
        "savi_0.25": lambda: ms.savi(b(), b() + 1.0, soil_factor=0.25),
        "savi_0.75": lambda: ms.savi(b(), b() + 1.0, soil_factor=0.75),
        "equal_interval_k3": lambda: classify.equal_interval(b(), k=3),
        "reclassify": lambda: classify.reclassify(b(), bins=[1, 4, 9], new_values=[1, 2, 3]),
    }


class LazyPairSpace(Space):
    """Two calls whose Dask results are still LAZY when the other call is made: a = A(...); b = B(...); a.compute(); b.compute().
    Each computed result must equal that call made and computed alone (the reference is taken first, in the same fresh
    interpreter, before any pair).  Covers every ordered pair of the lazy alphabet, (A, A) included."""
    phase = 1

    def __init__(self, tier):
        self.tier = tier
        self.name = "lazy_results_pairs"
        self.names = None
        self.n = 17
        self.size = self.n * self.n
        self.grain = self.n
        self.weight = 4.0

    def describe(self, rank):
        names = sorted(_lazy_letters_names())
        a, b = divmod(rank, self.n)
        return {"first_call_lazy": names[a], "second_call_lazy": names[b], "then": "compute first, compute second"}

    def setup(self):
        import dask
        dask.config.set(scheduler="synchronous")
        from ..history import letters
        self.digest = letters.result_digest
        self.L = _lazy_letters()
        self.names = sorted(self.L)
        assert len(self.names) == self.n
        self.ref = {}

    def solo(self, name):
        if name not in self.ref:
            self.ref[name] = self.digest(self.L[name]().compute())
        return self.ref[name]

    def run(self, lo, hi, out):
        for rank in range(lo, hi):
            ia, ib = divmod(rank, self.n)
            na, nb = self.names[ia], self.names[ib]
            ra, rb = self.solo(na), self.solo(nb)
            a = self.L[na]()
            b = self.L[nb]()
            da_, db = self.digest(a.compute()), self.digest(b.compute())
            again = self.digest(a.compute())
            out.case(outcome=(na, nb, da_, db), nontrivial=na != nb, calls=2)
            out.ok()
            for which, nm, d, r in (("first", na, da_, ra), ("second", nb, db, rb), ("first, computed again", na, again, ra)):
                if d != r:
                    out.violation(rank, "c11|lazy|%s+%s|%s" % (na, nb, which.split(",")[0]),
                                  "%s (lazy) then %s (lazy): the %s result, once computed, differs from the same call made and "
                                  "computed alone" % (na, nb, which), case=self.describe(rank), observed=d, expected=r)
                    break


def _lazy_letters_names():
    return ["allocation_md2.5", "apply_3x3", "direction", "equal_interval_k3", "hillshade_az100", "hotspots_3x3", "mean_p2",
            "perlin_s0_f31", "perlin_s5", "perlin_s6", "proximity_md1.5", "reclassify", "savi_0.25", "savi_0.75", "slope",
            "terrain_s3", "terrain_s4_window"]


def build(tier):
    allnames, core = letter_names(tier)
    n = len(allnames)
    sp = [FreshRefs(tier)]
    # every ordered pair of the full alphabet adjacent once
    seq = [allnames[i] for i in sequences.linear_cover(n, 2)]
    sp.append(HistorySpace(tier, "pairs_debruijn_B(%d,2)" % n, sequences.segments(seq, 2, 24 if tier == "quick" else 48), 2))
    # every ordered triple of the core alphabet
    kc = core[:6] if tier == "quick" else core
    seq3 = [kc[i] for i in sequences.linear_cover(len(kc), 3)]
    sp.append(HistorySpace(tier, "triples_debruijn_B(%d,3)" % len(kc), sequences.segments(seq3, 3, 12 if tier == "quick" else 40), 3))
    # depth-2 histories from the fresh state
    kt = core[:6] if tier == "quick" else core
    sp.append(HistorySpace(tier, "depth2_from_fresh_state", [[a, b] for a in kt for b in kt], 2))
    sp += [RngSpace(tier), LazyPairSpace(tier), ThreadGrid(tier), InterleaveSpace(tier), ParallelGate(tier)]
    return sp
