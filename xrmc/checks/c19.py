"""C19 — distance metrics are metrics; circle / annulus kernels are the stated shapes; radius strings and
cell sizes convert to metres.

Engine E1 (exhaustive enumeration of small finite spaces), every case one or a few calls of the public
functions euclidean_distance / manhattan_distance / great_circle_distance (the numba-jitted scalars exactly as
`xrspatial` exports them), convolution.circle_kernel / annulus_kernel / calc_cellsize.

Ellipse equation asserted for circle_kernel(cellsize_x, cellsize_y, radius) (derived from the docstring, whose
example circle_kernel(1, 2, 3) is the 3 x 7 array with a full middle row and only the centre column in rows +-1):
    a = floor(radius / cellsize_x) columns, b = floor(radius / cellsize_y) rows, shape (2b+1, 2a+1),
    cell at offset (i rows, j columns) from the centre is 1  iff  (j / a)^2 + (i / b)^2 <= 1,
    a zero semi-axis degenerating the ellipse to the segment on the other axis.
The map-unit reading (j*cellsize_x)^2 + (i*cellsize_y)^2 <= radius^2 contradicts that docstring example, so it
is only counted (counter `circle_differs_from_map_unit_disc`), never asserted."""
import math

import numpy as np

from ..core.space import FnSpace
from ..core.spaces import unrank_product
from ..oracles import metrics as M

PROPERTY = "C19"
LEVEL = "model_checking"
RULE = ("plane: every ordered pair and triple of the listed points x {euclidean, manhattan} (pairs also with "
        "integer-typed arguments); sphere: every ordered pair (x radius argument) and triple of the lon x lat "
        "lattice, every pair with one of the four arguments replaced by +-180.5 / +-90.5; kernels: every "
        "(radius, cellsize_x, cellsize_y, number typing) and every inner < outer; radius strings: every "
        "number x separator x unit of the grammar; calc_cellsize: every (dx, dy, source of the resolution, unit). "
        "Non-trivial: pairs/triples of pairwise distinct points (distinct on the sphere), kernels with both "
        "semi-axes >= 1, every string / out-of-range / cell-size case. Distinct = distinct (input, output) digests")
ASSUMPTIONS = [
    "NaN / infinite coordinates and radii are outside the documented domain and are not generated",
    "great_circle_distance is checked for the documented default radius 6378137 and for radius 1.0 (pairs)",
    "two coordinate pairs are the same point of the sphere iff equal latitude and (pole or longitudes congruent "
    "mod 360); the implementation's distance counts as zero when <= 1e-6 m (scaled by radius / 6378137)",
    "symmetry is asserted bit-exactly on the plane and within 1e-9 relative + 1e-6 m on the sphere (bit-exact "
    "cases are counted)",
    "circle_kernel's ellipse has the integer semi-axes floor(radius / cellsize) as in its docstring example, the quotient being "
    "the IEEE quotient of the floats passed in (1 / 0.1 = 10.0: the cell 10 * 0.1 away lies on the ellipse; cases where the exact "
    "rational floor is one less are counted in counters.*_float_quotient_differs_from_exact_floor); the map-unit disc reading "
    "is counted, not asserted",
    "every kernel returned by circle_kernel / annulus_kernel is overwritten in place after it has been judged (callers rescale "
    "kernels in place) and the same call is made again inside the same case: it must return the mask again, not the array the "
    "caller modified",
    "radius strings: spellings of the library's unit table are asserted to convert; upper-case units, 'mile' "
    "(listed in the library's error text, absent from its table), scientific notation and a bare number followed "
    "by a blank are left open (ValueError or the natural conversion are both accepted, any other value is not); "
    "'parsec', non-numeric and non-positive numbers must raise ValueError",
    "calc_cellsize: units of the table or no unit attribute (metres); x coordinates ascending; unit 'mile' "
    "(named by the docstring, absent from the table) left open; other unknown units not generated",
    "annulus_kernel only for inner < outer (both from the radius set)",
]

# ------------------------------------------------------------------------------------------------
# bounds
# ------------------------------------------------------------------------------------------------
GENERIC_PLANE = (0.1, 0.7)
PLANE_AXIS = {"quick": [0, 1, -1, 2, -2], "thorough": [0, 1, -1, 2, -2, 3, -3]}
SPHERE_STEP = {"quick": 45, "thorough": 30}
# near-coincident points (5.6 cm and 22 cm apart: distinct points, so a non-zero distance and a triangle inequality that still
# holds through them); thorough adds a generic point and its antipode
NEAR = [(30.0, 45.0), (30.0, 45.0000005), (30.000002, 45.0)]
SPHERE_EXTRA = {"quick": NEAR, "thorough": NEAR + [(10.1, 20.7), (-169.9, -20.7)]}
RADII = {"quick": [0.5 * k for k in range(1, 11)], "thorough": [0.5 * k for k in range(1, 17)]}
CELLSIZES = {"quick": [0.1, 0.5, 1, 2, 3], "thorough": [0.1, 0.25, 0.3, 0.5, 1, 1.5, 2, 3]}     # 0.1, 0.3: not dyadic
NUMBERS = ["0", "-1", "1", "1.5", ".5", "10", "1e3", "abc"]
SEPARATORS = ["", " "]
UNITS = list(M.UNIT_SPELLINGS) + [""] + list(M.OPEN_SPELLINGS) + list(M.UNKNOWN_UNITS)
CELL_UNITS = [None] + list(M.UNIT_SPELLINGS) + ["mile"]
OUT_OF_RANGE = [(0, 180.5), (0, -180.5), (1, 180.5), (1, -180.5), (2, 90.5), (2, -90.5), (3, 90.5), (3, -90.5)]
ARGNAMES = ("x1", "x2", "y1", "y2")
GC_RADII = [None, 1.0]


def _sym(vals):
    out = [0]
    for v in vals:
        out += [v, -v]
    return out


def plane_points(tier, integer_only=False):
    ax = PLANE_AXIS[tier]
    pts = [(x, y) for x in ax for y in ax]
    return pts if integer_only else pts + [GENERIC_PLANE]


def sphere_points(tier):
    s = SPHERE_STEP[tier]
    lons = _sym(range(s, 181, s))
    lats = _sym(range(s, 91, s))
    return [(float(lo), float(la)) for lo in lons for la in lats] + list(SPHERE_EXTRA[tier])


BOUNDS = {t: {
    "plane_points": "{%s}^2 + (0.1, 0.7): %d points" % (",".join(map(str, sorted(PLANE_AXIS[t]))), len(plane_points(t))),
    "sphere_points": "lon step %d x lat step %d + %r: %d points" % (SPHERE_STEP[t], SPHERE_STEP[t], SPHERE_EXTRA[t],
                                                                   len(sphere_points(t))),
    "out_of_range": [[ARGNAMES[p], v] for p, v in OUT_OF_RANGE],
    "great_circle_radius": ["default", 1.0],
    "kernel_radii": RADII[t], "cellsizes": CELLSIZES[t], "number_typing": ["int where integral", "float"],
    "radius_string_grammar": {"number": NUMBERS, "separator": SEPARATORS, "unit": UNITS},
    "calc_cellsize": {"dx,dy": CELLSIZES["quick"], "source": ["coords y ascending", "coords y descending", "res attr"],
                      "unit": [str(u) for u in CELL_UNITS]},
} for t in ("quick", "thorough")}

REL = 1e-9
ZERO_M = 1e-6            # metres on the Earth-sized sphere


def _pt(p):
    return "(%s,%s)" % (repr(p[0]), repr(p[1]))


def _leq(lhs, rhs, atol=0.0):
    """lhs <= rhs up to REL relative + atol; False when anything is NaN."""
    return lhs <= rhs + REL * max(abs(lhs), abs(rhs)) + atol


def _finite(d):
    try:
        return math.isfinite(d)
    except TypeError:
        return False


# ------------------------------------------------------------------------------------------------
# setup helpers (the only place where xrspatial is imported)
# ------------------------------------------------------------------------------------------------
def _setup_metrics():
    import xrspatial
    fns = {"euclidean": xrspatial.euclidean_distance, "manhattan": xrspatial.manhattan_distance,
           "great_circle": xrspatial.great_circle_distance}
    fns["euclidean"](0.0, 1.0, 0.0, 1.0), fns["manhattan"](0.0, 1.0, 0.0, 1.0)
    fns["great_circle"](0.0, 1.0, 0.0, 1.0)
    return fns


def _setup_kernels():
    from xrspatial import convolution
    return convolution


PLANE_METRICS = ("euclidean", "manhattan")


# ------------------------------------------------------------------------------------------------
# plane
# ------------------------------------------------------------------------------------------------
def plane_pairs_space(tier, integer_only):
    pts = plane_points(tier, integer_only)
    if not integer_only:
        pts = [(float(x), float(y)) for x, y in pts]
    n = len(pts)
    radices = [2, n, n]
    name = "plane_pairs_int" if integer_only else "plane_pairs_float"

    def case(rank):
        m, i, j = unrank_product(rank, radices)
        return PLANE_METRICS[m], pts[i], pts[j]

    def fn(rank, out, ctx):
        metric, p, q = case(rank)
        f = ctx[metric]
        ident = "%s|%s|p=%s|q=%s" % (metric, "int" if integer_only else "float", _pt(p), _pt(q))
        try:
            d1 = f(p[0], q[0], p[1], q[1])
            d2 = f(q[0], p[0], q[1], p[1])
        except Exception as e:          # in-domain input: must not raise
            out.case(outcome=("raised", repr(e)), nontrivial=p != q, case_id=ident, calls=2)
            out.violation(rank, "plane_raised|" + ident, "%s_distance raised %r" % (metric, e), case=describe(rank))
            return
        out.case(outcome=(float(d1), float(d2)), nontrivial=p != q, case_id=ident, calls=2)
        out.ok(2)
        if not (d1 == d2):
            out.violation(rank, "plane_symmetry|" + ident, "d(p,q) != d(q,p) for %s" % metric,
                          case=describe(rank), observed=[d1, d2], expected="equal")
        if (d1 == 0) != (p == q) or not _finite(d1):
            out.violation(rank, "plane_zero|" + ident,
                          "%s distance %r between %s points" % (metric, d1, "coincident" if p == q else "distinct"),
                          case=describe(rank), observed=d1, expected="0 exactly iff p == q")
        elif out.want_sample() and p != q:
            out.sample({"metric": metric, "p": p, "q": q, "d": d1})

    def describe(rank):
        metric, p, q = case(rank)
        return {"metric": metric, "p": list(p), "q": list(q),
                "call": "%s_distance(x1=%r, x2=%r, y1=%r, y2=%r)" % (metric, p[0], q[0], p[1], q[1])}

    return FnSpace(name, 2 * n * n, fn, setup=_setup_metrics, describe=describe)


def plane_triples_space(tier):
    pts = [(float(x), float(y)) for x, y in plane_points(tier)]
    n = len(pts)
    radices = [2, n, n, n]

    def case(rank):
        m, i, j, k = unrank_product(rank, radices)
        return PLANE_METRICS[m], pts[i], pts[j], pts[k]

    def fn(rank, out, ctx):
        metric, a, b, c = case(rank)
        f = ctx[metric]
        ident = "%s|a=%s|b=%s|c=%s" % (metric, _pt(a), _pt(b), _pt(c))
        distinct = a != b and b != c and a != c
        try:
            dab = f(a[0], b[0], a[1], b[1])
            dbc = f(b[0], c[0], b[1], c[1])
            dac = f(a[0], c[0], a[1], c[1])
        except Exception as e:
            out.case(outcome=("raised", repr(e)), nontrivial=distinct, case_id=ident, calls=3)
            out.violation(rank, "plane_raised|" + ident, "%s_distance raised %r" % (metric, e), case=describe(rank))
            return
        out.case(outcome=(float(dab), float(dbc), float(dac)), nontrivial=distinct, case_id=ident, calls=3)
        out.ok()
        if not _leq(dac, dab + dbc):
            out.violation(rank, "plane_triangle|" + ident,
                          "%s: d(a,c)=%r > d(a,b)+d(b,c)=%r+%r" % (metric, dac, dab, dbc),
                          case=describe(rank), observed=dac, expected="<= %r" % (dab + dbc))
        elif dac == dab + dbc and distinct:
            out.count("plane_triangle_tight")

    def describe(rank):
        metric, a, b, c = case(rank)
        return {"metric": metric, "a": list(a), "b": list(b), "c": list(c)}

    return FnSpace("plane_triples", 2 * n ** 3, fn, setup=_setup_metrics, describe=describe)


# ------------------------------------------------------------------------------------------------
# sphere
# ------------------------------------------------------------------------------------------------
def _gc(f, p, q, radius=None):
    if radius is None:
        return f(p[0], q[0], p[1], q[1])
    return f(p[0], q[0], p[1], q[1], radius)


def sphere_pairs_space(tier):
    pts = sphere_points(tier)
    n = len(pts)
    radices = [len(GC_RADII), n, n]

    def case(rank):
        r, i, j = unrank_product(rank, radices)
        return GC_RADII[r], pts[i], pts[j]

    def fn(rank, out, ctx):
        radius, p, q = case(rank)
        f = ctx["great_circle"]
        R = M.EARTH_RADIUS if radius is None else radius
        scale = R / M.EARTH_RADIUS
        ident = "radius=%s|p=%s|q=%s" % ("default" if radius is None else repr(radius), _pt(p), _pt(q))
        same = M.same_sphere_point(p[0], p[1], q[0], q[1])
        try:
            d1 = _gc(f, p, q, radius)
            d2 = _gc(f, q, p, radius)
        except Exception as e:
            out.case(outcome=("raised", repr(e)), nontrivial=not same, case_id=ident, calls=2)
            out.violation(rank, "gc_raised|" + ident, "great_circle_distance raised %r on in-range arguments" % (e,),
                          case=describe(rank))
            return
        out.case(outcome=(float(d1), float(d2)), nontrivial=not same, case_id=ident, calls=2)
        out.ok(3)
        if not (_finite(d1) and _finite(d2)):
            out.violation(rank, "gc_not_finite|" + ident, "great_circle_distance returned %r / %r" % (d1, d2),
                          case=describe(rank), observed=[d1, d2], expected="a finite distance")
            return
        if abs(d1 - d2) > REL * max(abs(d1), abs(d2)) + ZERO_M * scale:
            out.violation(rank, "gc_symmetry|" + ident, "d(p,q)=%r != d(q,p)=%r" % (d1, d2),
                          case=describe(rank), observed=[d1, d2], expected="equal")
        elif d1 == d2:
            out.count("gc_symmetry_bit_exact")
        if (d1 <= ZERO_M * scale) != same or d1 < 0:
            out.violation(rank, "gc_zero|" + ident,
                          "distance %r m between %s points of the sphere" % (d1, "identical" if same else "distinct"),
                          case=describe(rank), observed=d1,
                          expected="<= 1e-6 m (same point)" if same else "> 1e-6 m (distinct points)")
        half = math.pi * R
        if not d1 <= half * (1 + REL):
            out.violation(rank, "gc_bound|" + ident, "distance %r exceeds half the circumference %r" % (d1, half),
                          case=describe(rank), observed=d1, expected="<= %r" % half)
        # information only: agreement with the vector formula
        ref = R * M.sphere_angle(p[0], p[1], q[0], q[1])
        out.count("gc_within_1m_of_vector_formula" if abs(d1 - ref) <= 1.0 * scale else "gc_differs_from_vector_formula")
        if same and (p != q):
            out.count("gc_same_point_different_coordinates")
        if d1 == half:
            out.count("gc_antipodal_exactly_half_circumference")
        if out.want_sample() and not same:
            out.sample({"p": p, "q": q, "radius": R, "d": d1})

    def describe(rank):
        radius, p, q = case(rank)
        return {"p(lon,lat)": list(p), "q(lon,lat)": list(q), "radius": "default" if radius is None else radius,
                "call": "great_circle_distance(x1=%r, x2=%r, y1=%r, y2=%r)" % (p[0], q[0], p[1], q[1])}

    return FnSpace("sphere_pairs", len(GC_RADII) * n * n, fn, setup=_setup_metrics, describe=describe)


def sphere_triples_space(tier):
    pts = sphere_points(tier)
    n = len(pts)
    radices = [n, n, n]

    def case(rank):
        i, j, k = unrank_product(rank, radices)
        return pts[i], pts[j], pts[k]

    def fn(rank, out, ctx):
        a, b, c = case(rank)
        f = ctx["great_circle"]
        ident = "a=%s|b=%s|c=%s" % (_pt(a), _pt(b), _pt(c))
        distinct = not (M.same_sphere_point(*a, *b) or M.same_sphere_point(*b, *c) or M.same_sphere_point(*a, *c))
        try:
            dab, dbc, dac = _gc(f, a, b), _gc(f, b, c), _gc(f, a, c)
        except Exception as e:
            out.case(outcome=("raised", repr(e)), nontrivial=distinct, case_id=ident, calls=3)
            out.violation(rank, "gc_raised|" + ident, "great_circle_distance raised %r on in-range arguments" % (e,),
                          case=describe(rank))
            return
        out.case(outcome=(float(dab), float(dbc), float(dac)), nontrivial=distinct, case_id=ident, calls=3)
        out.ok()
        if not _leq(dac, dab + dbc, ZERO_M):
            out.violation(rank, "gc_triangle|" + ident,
                          "d(a,c)=%r > d(a,b)+d(b,c)=%r+%r" % (dac, dab, dbc),
                          case=describe(rank), observed=dac, expected="<= %r" % (dab + dbc))
        elif distinct and abs(dac - (dab + dbc)) <= ZERO_M:
            out.count("gc_triangle_tight")

    def describe(rank):
        a, b, c = case(rank)
        return {"a(lon,lat)": list(a), "b(lon,lat)": list(b), "c(lon,lat)": list(c)}

    return FnSpace("sphere_triples", n ** 3, fn, setup=_setup_metrics, describe=describe)


def sphere_range_space(tier):
    pts = sphere_points(tier)
    n = len(pts)
    radices = [n, n, len(OUT_OF_RANGE)]

    def case(rank):
        i, j, k = unrank_product(rank, radices)
        p, q = pts[i], pts[j]
        args = [p[0], q[0], p[1], q[1]]
        pos, val = OUT_OF_RANGE[k]
        args[pos] = val
        return pos, args

    def fn(rank, out, ctx):
        pos, args = case(rank)
        f = ctx["great_circle"]
        ident = "%s=%r|x1=%r|x2=%r|y1=%r|y2=%r" % ((ARGNAMES[pos], args[pos]) + tuple(args))
        try:
            d = f(*args)
        except Exception as e:
            out.case(outcome=(type(e).__name__, str(e)), nontrivial=True, case_id=ident)
            out.ok()
            if not isinstance(e, ValueError):
                out.count("gc_range_rejected_with_" + type(e).__name__)
            return
        out.case(outcome=float(d), nontrivial=True, case_id=ident)
        out.ok()
        out.violation(rank, "gc_range|" + ident,
                      "great_circle_distance accepted %s=%r and returned %r" % (ARGNAMES[pos], args[pos], d),
                      case=describe(rank), observed=d, expected="an exception (ValueError)")

    def describe(rank):
        pos, args = case(rank)
        return {"call": "great_circle_distance(x1=%r, x2=%r, y1=%r, y2=%r)" % tuple(args), "out_of_range": ARGNAMES[pos]}

    return FnSpace("sphere_out_of_range", n * n * len(OUT_OF_RANGE), fn, setup=_setup_metrics, describe=describe)


# ------------------------------------------------------------------------------------------------
# kernels
# ------------------------------------------------------------------------------------------------
def _typed(v, typing):
    """typing 0: int where integral (as the docstrings show), 1: float."""
    if typing == 0 and float(v) == int(v):
        return int(v)
    return float(v)


def _kernel_problems(k, shape):
    """Structural relations every circle / annulus kernel must satisfy; -> list of (prefix, message)."""
    probs = []
    if not isinstance(k, np.ndarray) or k.ndim != 2:
        return [("shape", "not a 2-D numpy array: %r" % type(k))]
    if k.shape[0] % 2 != 1 or k.shape[1] % 2 != 1:
        probs.append(("odd_shape", "shape %r is not odd on both axes" % (k.shape,)))
    if not np.all((k == 0) | (k == 1)):
        probs.append(("values", "values other than 0 / 1: %r" % sorted(set(np.asarray(k).ravel().tolist()))[:6]))
    if k.shape != tuple(shape):
        probs.append(("window", "shape %r, expected %r" % (k.shape, tuple(shape))))
    return probs


def _poison(k):
    """A returned kernel belongs to the caller: once judged it is overwritten in place, so a later call that hands out the same
    array again (a cache, a module-level buffer) fails its own mask comparison."""
    if isinstance(k, np.ndarray) and k.flags.writeable:
        k[...] = 7
        return True
    return False


def _axis_tie(radius, cs):
    return M.semi_axis(radius, cs) != M.float_semi_axis(radius, cs)


def _circle_mask(cx, cy, r):
    """The documented mask with the semi-axes taken from the IEEE quotient radius / cellsize, which is what the statement's
    'radius/cellsize' denotes for the floats passed in (it differs from the exact rational floor only for cell sizes that are not
    dyadic, e.g. 1 / 0.1 = 10.0 although the double 0.1 is a hair above one tenth)."""
    a, b = M.float_semi_axis(r, cx), M.float_semi_axis(r, cy)
    return M.ellipse_mask(a, b), a, b


def _annulus_mask(cx, cy, ro, ri):
    mo, ao, bo = _circle_mask(cx, cy, ro)
    mi, ai, bi = _circle_mask(cx, cy, ri)
    pad = np.zeros_like(mo)
    pad[bo - bi:bo + bi + 1, ao - ai:ao + ai + 1] = mi
    return mo - pad


def circle_space(tier):
    radii, cells = RADII[tier], CELLSIZES[tier]
    radices = [len(radii), len(cells), len(cells), 2]

    def case(rank):
        r, x, y, t = unrank_product(rank, radices)
        return _typed(cells[x], t), _typed(cells[y], t), _typed(radii[r], t)

    def fn(rank, out, ctx):
        cx, cy, r = case(rank)
        ident = "cellsize_x=%r|cellsize_y=%r|radius=%r" % (cx, cy, r)
        if _axis_tie(r, cx) or _axis_tie(r, cy):       # float floor(radius/cellsize) differs from the exact rational one
            out.count("circle_float_quotient_differs_from_exact_floor")
        exp, a, b = _circle_mask(cx, cy, r)
        nontrivial = a >= 1 and b >= 1
        try:
            k = ctx.circle_kernel(cx, cy, r)
        except Exception as e:
            out.case(outcome=("raised", repr(e)), nontrivial=nontrivial, case_id=ident)
            out.violation(rank, "circle_raised|" + ident, "circle_kernel raised %r" % (e,), case=describe(rank))
            return
        out.case(outcome=k, nontrivial=nontrivial, case_id=ident)
        out.ok(4)
        probs = _kernel_problems(k, exp.shape)
        if isinstance(k, np.ndarray) and k.ndim == 2:
            if not (np.array_equal(k, k[::-1, :]) and np.array_equal(k, k[:, ::-1])):
                probs.append(("flip", "not symmetric under both axis flips"))
            if k.shape == exp.shape and not np.array_equal(k, exp):
                probs.append(("mask", "not the ellipse mask with semi-axes a=%d columns, b=%d rows" % (a, b)))
        for prefix, msg in probs:
            out.violation(rank, "circle_%s|%s" % (prefix, ident), "circle_kernel(%r, %r, %r): %s" % (cx, cy, r, msg),
                          case=describe(rank), observed=k, expected=exp)
        if not probs:
            if not (_axis_tie(r, cx) or _axis_tie(r, cy)) and not np.array_equal(exp, M.metric_mask(cx, cy, r)):
                out.count("circle_differs_from_map_unit_disc")
            if out.want_sample() and nontrivial:
                out.sample({"cellsize_x": cx, "cellsize_y": cy, "radius": r, "kernel": k.copy()})
        if not probs and _poison(k):
            k2 = ctx.circle_kernel(cx, cy, r)
            k2 = k2.copy() if isinstance(k2, np.ndarray) else k2
            k[...] = exp                 # put the contents back: cases stay independent of one another
            if not (isinstance(k2, np.ndarray) and k2.shape == exp.shape and np.array_equal(k2, exp)):
                out.violation(rank, "circle_second_call|" + ident, "circle_kernel(%r, %r, %r) called again after the caller overwrote "
                              "the first result in place does not return the mask" % (cx, cy, r), case=describe(rank),
                              observed=k2, expected=exp)

    def describe(rank):
        cx, cy, r = case(rank)
        return {"call": "circle_kernel(cellsize_x=%r, cellsize_y=%r, radius=%r)" % (cx, cy, r)}

    return FnSpace("circle_kernel", len(radii) * len(cells) ** 2 * 2, fn, setup=_setup_kernels, describe=describe)


def annulus_space(tier):
    radii, cells = RADII[tier], CELLSIZES[tier]
    pairs = [(o, i) for o in range(len(radii)) for i in range(o)]          # inner < outer
    radices = [len(pairs), len(cells), len(cells), 2]

    def case(rank):
        p, x, y, t = unrank_product(rank, radices)
        o, i = pairs[p]
        return _typed(cells[x], t), _typed(cells[y], t), _typed(radii[o], t), _typed(radii[i], t)

    def fn(rank, out, ctx):
        cx, cy, ro, ri = case(rank)
        ident = "cellsize_x=%r|cellsize_y=%r|outer=%r|inner=%r" % (cx, cy, ro, ri)
        if any(_axis_tie(r, c) for r in (ro, ri) for c in (cx, cy)):
            out.count("annulus_float_quotient_differs_from_exact_floor")
        exp = _annulus_mask(cx, cy, ro, ri)
        nontrivial = bool(exp.any()) and bool((exp == 0).any())
        try:
            k = ctx.annulus_kernel(cx, cy, ro, ri)
        except Exception as e:
            out.case(outcome=("raised", repr(e)), nontrivial=nontrivial, case_id=ident)
            out.violation(rank, "annulus_raised|" + ident, "annulus_kernel raised %r" % (e,), case=describe(rank))
            return
        out.case(outcome=k, nontrivial=nontrivial, case_id=ident)
        out.ok(3)
        probs = _kernel_problems(k, exp.shape)
        if isinstance(k, np.ndarray) and k.ndim == 2:
            if k.size and k.min() < 0:
                probs.append(("negative", "negative cell %r" % k.min()))
            if k.shape == exp.shape and not np.array_equal(k, exp):
                probs.append(("mask", "not the outer circle minus the centred inner circle"))
        for prefix, msg in probs:
            out.violation(rank, "annulus_%s|%s" % (prefix, ident),
                          "annulus_kernel(%r, %r, %r, %r): %s" % (cx, cy, ro, ri, msg),
                          case=describe(rank), observed=k, expected=exp)
        if not probs and out.want_sample() and nontrivial:
            out.sample({"cellsize_x": cx, "cellsize_y": cy, "outer": ro, "inner": ri, "kernel": k.copy()})
        if not probs and _poison(k):
            k2 = ctx.annulus_kernel(cx, cy, ro, ri)
            k2 = k2.copy() if isinstance(k2, np.ndarray) else k2
            k[...] = exp                 # put the contents back: cases stay independent of one another
            if not (isinstance(k2, np.ndarray) and k2.shape == exp.shape and np.array_equal(k2, exp)):
                out.violation(rank, "annulus_second_call|" + ident, "annulus_kernel(%r, %r, %r, %r) called again after the caller "
                              "overwrote the first result in place does not return the mask" % (cx, cy, ro, ri),
                              case=describe(rank), observed=k2, expected=exp)

    def describe(rank):
        cx, cy, ro, ri = case(rank)
        return {"call": "annulus_kernel(cellsize_x=%r, cellsize_y=%r, outer_radius=%r, inner_radius=%r)" % (cx, cy, ro, ri)}

    return FnSpace("annulus_kernel", len(pairs) * len(cells) ** 2 * 2, fn, setup=_setup_kernels, describe=describe)


# ------------------------------------------------------------------------------------------------
# radius strings (observed through circle_kernel's shape; _get_distance compared too when it exists)
# ------------------------------------------------------------------------------------------------
def radius_string_space(tier):
    radices = [len(NUMBERS), len(SEPARATORS), len(UNITS)]

    def case(rank):
        n, s, u = unrank_product(rank, radices)
        return NUMBERS[n], SEPARATORS[s], UNITS[u]

    def fn(rank, out, ctx):
        number, sep, unit = case(rank)
        text = number + sep + unit
        verdict, metres = M.classify_radius_string(number, sep, unit)
        ident = "%r" % text
        if metres is not None:
            # shape (2*int(r/cy)+1, 2*int(r/cx)+1): cellsize_x a hair above metres/3 gives 2 columns each side iff
            # r < metres*(1+1e-9); cellsize_y a hair below metres/3 gives 3 rows each side iff r >= metres*(1-1e-9)
            cx, cy = metres * (1 + REL) / 3, metres * (1 - REL) / 3
            want_shape = (7, 5)
        else:
            cx = cy = M.natural_magnitude(number, unit) / 2.5
            want_shape = None
        calls = 1
        try:
            k = ctx.circle_kernel(cx, cy, text)
            obs = ("shape", tuple(k.shape))
        except Exception as e:
            obs = ("raised", type(e).__name__)
        private = getattr(ctx, "_get_distance", None)
        pobs = None
        if private is not None:
            calls += 1
            try:
                pobs = ("value", float(private(text)))
            except Exception as e:
                pobs = ("raised", type(e).__name__)
        else:
            out.count("radius_string_no_private_parser")
        out.case(outcome=(text, obs, pobs), nontrivial=True, case_id=ident, calls=calls)
        out.count("radius_string_expected_" + verdict)
        open_label = "scientific_notation" if "e" in number else ("bare_number_then_blank" if unit == "" else "unit=%r" % unit)
        observations = [("circle_kernel", obs)] + ([("_get_distance", pobs)] if pobs is not None else [])
        for who, o in observations:
            out.ok()
            raised = o[0] == "raised"
            if raised and o[1] != "ValueError":
                out.violation(rank, "radius_string_exception_type|%s|%s" % (who, ident),
                              "%s(%r) raised %s, not ValueError" % (who, text, o[1]), case=describe(rank),
                              observed=o, expected="ValueError" if verdict != "convert" else metres)
                continue
            if verdict == "reject" and not raised:
                out.violation(rank, "radius_string_accepted|%s|%s" % (who, ident),
                              "%s accepted the non-positive / malformed distance %r (%r)" % (who, text, o),
                              case=describe(rank), observed=o, expected="ValueError")
            elif verdict == "convert" and raised:
                out.violation(rank, "radius_string_rejected|%s|%s" % (who, ident),
                              "%s rejected %r, which is %r m by the unit table" % (who, text, metres),
                              case=describe(rank), observed=o, expected=metres)
            elif not raised:        # convert or open, accepted: the value must be number * factor
                good = (o[1] == want_shape) if o[0] == "shape" else abs(o[1] - metres) <= REL * metres
                if not good:
                    out.violation(rank, "radius_string_value|%s|%s" % (who, ident),
                                  "%s(%r): %r, expected %r m%s" % (who, text, o, metres,
                                                                  " (kernel shape (7, 5) for the bracketing cell sizes)"
                                                                  if o[0] == "shape" else ""),
                                  case=describe(rank), observed=o, expected=metres)
                elif verdict == "open" and who == "circle_kernel":
                    out.count("radius_string_open_accepted|" + open_label)
            elif verdict == "open" and who == "circle_kernel":
                out.count("radius_string_open_rejected|" + open_label)
        if out.want_sample() and verdict == "convert":
            out.sample({"radius": text, "metres": metres, "observed": [list(map(str, o)) for _, o in observations]})

    def describe(rank):
        number, sep, unit = case(rank)
        return {"radius_string": number + sep + unit, "number": number, "separator": sep, "unit": unit}

    return FnSpace("radius_strings", len(NUMBERS) * len(SEPARATORS) * len(UNITS), fn, setup=_setup_kernels,
                   describe=describe)


# ------------------------------------------------------------------------------------------------
# calc_cellsize
# ------------------------------------------------------------------------------------------------
CELL_SOURCES = ("coords_y_ascending", "coords_y_descending", "res_attr")


def cellsize_space(tier):
    cells = CELLSIZES["quick"]
    radices = [len(cells), len(cells), len(CELL_SOURCES), len(CELL_UNITS)]

    def case(rank):
        x, y, s, u = unrank_product(rank, radices)
        return _typed(cells[x], 0), _typed(cells[y], 0), CELL_SOURCES[s], CELL_UNITS[u]

    def raster(dx, dy, source, unit):
        import xarray as xr
        attrs = {} if unit is None else {"unit": unit}
        data = np.zeros((3, 4))
        if source == "res_attr":
            attrs["res"] = (dx, dy)
            return xr.DataArray(data, dims=("y", "x"), attrs=attrs)
        ys = 20.0 + dy * np.arange(3)
        if source == "coords_y_descending":
            ys = ys[::-1]
        return xr.DataArray(data, dims=("y", "x"), coords={"y": ys, "x": 10.0 + dx * np.arange(4)}, attrs=attrs)

    def fn(rank, out, ctx):
        dx, dy, source, unit = case(rank)
        ident = "dx=%r|dy=%r|%s|unit=%r" % (dx, dy, source, unit)
        is_open = unit is not None and unit not in M.UNIT_SPELLINGS
        factor = 1.0 if unit is None else M.UNIT_SPELLINGS.get(unit, M.OPEN_SPELLINGS.get(unit))
        exp = (dx * factor, dy * factor)
        try:
            res = ctx.calc_cellsize(raster(dx, dy, source, unit))
            obs = tuple(float(v) for v in res)
        except Exception as e:
            out.case(outcome=("raised", type(e).__name__), nontrivial=True, case_id=ident)
            out.ok()
            if is_open:
                out.count("cellsize_open_unit_rejected|unit=%r|%s" % (unit, type(e).__name__))
            else:
                out.violation(rank, "cellsize_raised|" + ident, "calc_cellsize raised %r" % (e,), case=describe(rank),
                              expected=exp)
            return
        out.case(outcome=obs, nontrivial=True, case_id=ident)
        out.ok()
        good = len(obs) == 2 and all(abs(o - e) <= REL * e for o, e in zip(obs, exp))
        if not good:
            out.violation(rank, "cellsize_value|" + ident,
                          "calc_cellsize -> %r, expected (cellsize_x, cellsize_y) = %r metres" % (obs, exp),
                          case=describe(rank), observed=obs, expected=exp)
        elif out.want_sample() and unit is not None:
            out.sample({"dx": dx, "dy": dy, "source": source, "unit": unit, "cellsize_m": obs})

    def describe(rank):
        dx, dy, source, unit = case(rank)
        return {"dx": dx, "dy": dy, "resolution_from": source, "attrs_unit": unit, "raster_shape": [3, 4]}

    return FnSpace("calc_cellsize", len(cells) ** 2 * len(CELL_SOURCES) * len(CELL_UNITS), fn, setup=_setup_kernels,
                   describe=describe)


def build(tier):
    return [plane_pairs_space(tier, False), plane_pairs_space(tier, True), plane_triples_space(tier),
            sphere_pairs_space(tier), sphere_triples_space(tier), sphere_range_space(tier),
            circle_space(tier), annulus_space(tier), radius_string_space(tier), cellsize_space(tier)]
