"""C12 — classifiers label every finite cell, in order, within [0, k-1].

Engine E1 (exhaustive input enumeration), NumPy backend:
  reclassify   every strictly ascending bin list drawn from {0..B} x every value of {-1,-0.5,..,B+1,NaN,+-inf}
               (1-cell rasters and whole-alphabet rasters) x float64/float32/int32, plus the documented
               "last bin = inf" form; oracle = linear scan for the first bin >= value;
               plus (kinds edge_*) every ascending list over an alphabet of edges that are NOT float32-representable
               (0.1, 0.2, 0.1+0.2, 2.3, 1e-3, 2^24+1, ..) x the cells sitting ON and immediately on either side of
               each edge IN THE RASTER'S OWN DTYPE (float32: float32(e) and its two float32 neighbours; float64: e and
               its two float64 neighbours plus the float32 triple; int32: floor/ceil), compared exactly;
  binary       `values` is an ORDERED list: every permutation of every subset (length 0..5: 326 lists) of a 5-value
               alphabet x every cell letter incl. NaN/+-inf, float and int rasters; the same for a 5-value alphabet of
               values that are not float32-representable x their dtype neighbours ("1 exactly on the listed values"
               holds for a list in any order; reclassify's bins, in contrast, are only defined for ascending lists
               and are never permuted);
  quantile / equal_interval / natural_breaks
               every raster of N cells (1xN and 2x(N/2)) over small alphabets (integers + NaN/inf, values
               that are not float32-representable, signed values + -inf, 7 distinct integers) x k, against exact-rational /
               brute-force reference models (xrmc/oracles/classify.py);
  equal_interval additionally on a DENSE (min, max, k) grid: every integer pair lo <= min < max <= hi x every k x
               float64/float32/int32, as the 2-cell raster [min, max] and as a raster holding min, max, their inner
               neighbours, every integer in between, every interval midpoint and every cut with its two neighbours
               (whether arange overshoots / the last cut falls short of max depends on (min, max, k) only);
               the same grid once more per MAGNITUDE variant: every value v of the raster replaced by v + 1e6, v - 1e6 and
               v * 2^-30 (~1e-9), all exactly representable: the range max - min stays that of the small integers while the
               magnitude of the values (or the absolute size of the range) changes by six to nine orders;
  natural_breaks additionally with num_sample=None (fit on all cells) on the NaN-free alphabets.  Every classifier is handed
               a COPY of the generated raster and judged against the generator's own values, never against values read
               back from the DataArray after the call."""
import itertools
from fractions import Fraction

import numpy as np

from ..core.digest import bytes64
from ..core.rasters import dataarray, grid
from ..core.space import Space
from ..core.spaces import SumSpace, ordered_sublists
from ..oracles import classify as ref

PROPERTY = "C12"
LEVEL = "model_checking"
NAN, INF = float("nan"), float("inf")

RULE = ("reclassify: rank -> (dtype, strictly ascending bin list = non-empty subset of {0..B}, cell value | "
        "layout of the whole value alphabet); binary: rank -> (dtype, ORDERED list of listed values = one permutation of "
        "one subset of the 5-value alphabet, shortest list first, 1-cell raster per letter | whole-alphabet raster); data-driven classifiers: rank -> (shape, mixed-radix number of the "
        "cell letters, k); equal_interval min/max grid: rank -> (integer pair min < max, k, 2-cell | full raster).  "
        "A case is non-trivial when its raster holds >= 2 distinct finite values (reclassify / "
        "binary: when the output has a non-NaN cell); distinct = distinct (input, parameters, output) digests")
ASSUMPTIONS = [
    "NumPy backend only (Dask is covered by C01); CuPy not available",
    "binary: inf / NaN are never listed in `values` (outside the documented domain)",
    "binary on a float32 raster with a listed value x that is not float32-representable: the cell float32(x) is "
    "not numerically x, but it is what a float32 raster holds where x was meant - the statement does not settle "
    "it, so that one cell is a tie (its float32 neighbours must be 0; float64 rasters are compared exactly)",
    "reclassify / binary compare the cell exactly as stored in the raster dtype with the edge / value exactly as "
    "given (float64 or int): float32(0.1) > 0.1 belongs to the NEXT bin",
    "binary: `values` is enumerated as an ordered list without repetition (ascending, descending and every other "
    "order of every subset of the alphabet); lists naming the same value twice are not generated",
    "reclassify: the statement defines the mapping for ascending bin lists only, so bin lists are never permuted "
    "(descending / shuffled bins are outside the domain)",
    "reclassify: bin lists are strictly ascending; non-strict (duplicate) ascending lists are explored but only "
    "reported informationally (counter nonstrict_*); with a final bin of +inf the +-inf cells are not asserted "
    "(the statement says NaN, the docstring example shows the last class)",
    "rasters without any finite cell have no [min,max] / percentiles: explored, behaviour only counted "
    "(counter no_finite_cell_*), not asserted",
    "a value sitting on an interior equal-interval cut or percentile-band edge (or within 1e-9 relative, 1e-6 for "
    "float32 rasters, of one) is a tie: no docstring says which side it belongs to",
    "quantile: when two of the k percentile edges coincide the function documents 'using n bins'; only the generic "
    "assertions (NaN mask, integer labels in [0,k-1], order) are made then",
    "natural_breaks: the minimum-SSD assertion is made when the raster has >= k distinct finite values; with "
    "fewer the function documents 'using k=n instead' and only the generic assertions are made; an SSD excess "
    "below 1e-6 x (sum of squares) is a tie (the dynamic programme runs in float32)",
    "equal_interval on a raster whose finite cells are all equal IS in the domain ('every finite cell a class'); "
    "any class of [0,k-1] is accepted there",
    "values outside the alphabets and rasters beyond the cell budgets are not explored",
]

# ---------------------------------------------------------------------------------------------------
# alphabets / bounds
# ---------------------------------------------------------------------------------------------------
STD = (0, 1, 2, 5, NAN, INF)
NF32 = (0.1, 0.2, 1.1, 16777217, 2.3000000001)          # not float32-representable
SIGNED = (-3, -1, 0, 4, -INF, NAN)
INTS = (0, 1, 2, 5, 16777217)
WIDE = (0, 1, 3, 6, 7, 12, 20)                           # 7 distinct finite values: deeper Jenks / cut positions

# (alphabet name, letters, dtype, max cells quick, max cells thorough)
GRIDS = [("std", STD, "f8", 6, 7), ("std", STD, "f4", 5, 6), ("nf32", NF32, "f8", 6, 7), ("nf32", NF32, "f4", 5, 6),
         ("int", INTS, "i4", 6, 7), ("signed", SIGNED, "f8", 5, 6), ("wide", WIDE, "f8", 5, 6)]
TWO_ROW_MAX = {"wide": 4}                                  # 2x(N/2) layouts only up to this many cells
KS = {"quick": (2, 3, 4, 5), "thorough": (2, 3, 4, 5, 6)}
BIN_TOP = {"quick": 6, "thorough": 9}
NEWV = (7, 3, 11, 0, 5, 2, 9, 1, 8, 4, 6, 10)            # distinct, non-monotone new values (by bin position)
BIN_VALUES = (0, 1, 2.5, -3, 255)                        # the 5-value alphabet of binary's `values`
BIN_CELLS_F = BIN_VALUES + (0.5, 3, NAN, INF, -INF)
BIN_VALUES_I = (0, 1, 2, -3, 255)
BIN_CELLS_I = BIN_VALUES_I + (3, 7)
# edges / listed values that are NOT float32-representable (float32(e) is above e for 0.1, 0.2, 0.1+0.2, 1.1 and
# below it for 1e-3, 0.7, 2.3, 2^24+1), simplest first
EDGES = {"quick": (0.1, 0.2, 0.1 + 0.2, 2.3, 1e-3, 16777217, 0.7, 1.1),
         "thorough": (0.1, 0.2, 0.1 + 0.2, 2.3, 1e-3, 16777217, 0.7, 1.1, 3e-3, 0.3, 2.3000000001)}
BIN_VALUES_NF = (0.1, 0.2, 2.3, 1e-3, 16777217)
# binary's `values` as ORDERED lists: index tuples into a 5-value alphabet, every permutation of every subset,
# shortest first (length 0: 1, 1: 5, 2: 20, 3: 60, 4: 120, 5: 120 = 326 lists)
BIN_LISTS = ordered_sublists(range(5), 5)
EI_GRID = {"quick": dict(lo=-3, hi=18, ks=tuple(range(2, 9))), "thorough": dict(lo=-5, hi=24, ks=tuple(range(2, 13)))}
# magnitude variants of the (min, max, k) grid: name -> (scale, shift), cell = v * scale + shift, exact in float64 and float32
# (1e6 + small integers < 2^24; small integers x 2^-30); int32 rasters take the two shifts only
EI_MAGNITUDE = {"+1e6": (Fraction(1), 10 ** 6), "-1e6": (Fraction(1), -10 ** 6), "x2^-30": (Fraction(1, 2 ** 30), 0)}
# natural_breaks(num_sample=None): (alphabet name, letters, dtype, max cells quick, max cells thorough) - NaN-free alphabets
NB_ALL_CELLS = [("wide", WIDE, "f8", 5, 6), ("int", INTS, "i4", 5, 6)]


def neighbours(x, dt):
    """x rounded to dtype `dt` ('f4' / 'f8') and the two adjacent numbers of that dtype, as exact Python floats."""
    t = np.dtype(dt).type
    c = t(x)
    return [float(np.nextafter(c, t(-np.inf))), float(c), float(np.nextafter(c, t(np.inf)))]


def edge_cells(edges, dt):
    """Cells on either side of every edge in the raster's own dtype (sorted, distinct)."""
    out = {0.0}
    for e in edges:
        if dt.startswith("i"):
            f = int(np.floor(e))
            out.update((f, f + 1) if f != e else (f - 1, f, f + 1))
        else:
            out.update(neighbours(e, dt))
            if dt == "f8":
                out.update(neighbours(e, "f4"))          # a float64 raster holding former float32 data
    return tuple(sorted(out))


def shapes_upto(n, two_row_max=99):
    out = []
    for c in range(1, n + 1):
        out.append((1, c))
        if c % 2 == 0 and c <= two_row_max:
            out.append((2, c // 2))
    return out


BOUNDS = {t: {
    "reclassify": {"bins": "all non-empty strictly ascending lists over {0..%d}" % BIN_TOP[t],
                   "values": "-1..%d step 0.5, NaN, +inf, -inf (int32: integers only)" % (BIN_TOP[t] + 1),
                   "dtypes": ["float64", "float32", "int32"],
                   "edge_bins": "all non-empty ascending lists over %r" % (EDGES[t],),
                   "edge_cells": "per edge e: float32 rasters float32(e) and its 2 float32 neighbours; float64 rasters "
                                 "e and its 2 float64 neighbours + the float32 triple; int32 floor(e), ceil(e) "
                                 "(e-1, e, e+1 for an integer e); plus 0"},
    "binary": {"values": "ordered lists: all %d permutations of all 32 subsets (length 0..5) of %r (ints: %r)"
                         % (len(BIN_LISTS), BIN_VALUES, BIN_VALUES_I),
               "cells": [str(x) for x in BIN_CELLS_F], "dtypes": ["float64", "float32", "int32", "int64"],
               "nf32_values": "ordered lists: all %d permutations of all 32 subsets of %r"
                              % (len(BIN_LISTS), BIN_VALUES_NF),
               "nf32_cells": "the edge_cells of these values per dtype + NaN, +-inf (float rasters)"},
    "equal_interval_minmax_grid": {
        "min_max": "every integer pair %d <= min < max <= %d" % (EI_GRID[t]["lo"], EI_GRID[t]["hi"]),
        "k": list(EI_GRID[t]["ks"]), "dtypes": ["float64", "float32", "int32"],
        "rasters": "[min, max] and {min, max, next above min, next below max, every integer between, every interval "
                   "midpoint, every cut and its two dtype neighbours} (int32: every integer of [min, max])",
        "magnitude_variants": {"none": "the integers themselves",
                               "+1e6": "every value v -> v + 1e6 (float64, float32, int32)",
                               "-1e6": "every value v -> v - 1e6 (float64, float32, int32)",
                               "x2^-30": "every value v -> v * 2^-30 ~ 9.3e-10 (float64, float32)"}},
    "natural_breaks_num_sample_None": [dict(alphabet=[str(x) for x in al], dtype=dt, max_cells=(q if t == "quick" else th),
                                            k=list(KS[t])) for nm, al, dt, q, th in NB_ALL_CELLS],
    "classifiers": {"k": list(KS[t]),
                    "grids": [dict(alphabet=[str(x) for x in al], dtype=dt, max_cells=(q if t == "quick" else th),
                                   layouts="1xN and 2x(N/2)" + (" (N <= %d)" % TWO_ROW_MAX[nm] if nm in TWO_ROW_MAX else ""))
                              for nm, al, dt, q, th in GRIDS]},
} for t in ("quick", "thorough")}


class _Null:
    def write(self, s):
        return len(s)

    def flush(self):
        pass


def _fmt(cells):
    return ",".join(repr(float(c)) for c in cells)


# ---------------------------------------------------------------------------------------------------
# reclassify
# ---------------------------------------------------------------------------------------------------
def bin_lists(top):
    return [c for n in range(1, top + 2) for c in itertools.combinations(range(top + 1), n)]


def reclass_values(top, dtype):
    if dtype.startswith("i"):
        return tuple(range(-1, top + 2))
    return tuple(x / 2.0 for x in range(-2, 2 * (top + 1) + 1)) + (NAN, INF, -INF)


class ReclassifySpace(Space):
    """kind: 'cell' (1x1 raster per value), 'raster' (whole value alphabet in 3 layouts),
    'infbin' (bins + [inf], whole alphabet), 'nonstrict' (duplicate bins; informational),
    'edge_cell' / 'edge_raster' (= 'cell' / 'raster' over the non-float32-representable edges and their
    dtype neighbours)."""
    DTYPES = ("f8", "f4", "i4")

    def __init__(self, tier, kind):
        self.kind, self.top = kind, BIN_TOP[tier]
        self.name = "reclassify_" + kind
        self.lists = bin_lists(self.top)
        self.values = {dt: reclass_values(self.top, dt) for dt in self.DTYPES}
        if kind.startswith("edge_"):
            edges = EDGES[tier]
            self.lists = [tuple(sorted(c)) for n in range(1, len(edges) + 1) for c in itertools.combinations(edges, n)]
            self.values = {dt: edge_cells(edges, dt) for dt in self.DTYPES}
            self.kind = kind = kind[5:]
        if kind == "nonstrict":
            m = min(self.top, 4)
            self.lists = [c for n in range(2, 6) for c in itertools.combinations_with_replacement(range(m + 1), n)
                          if len(set(c)) < len(c)]
        per = {dt: (len(self.values[dt]) if kind == "cell" else 3) for dt in self.DTYPES}
        self.parts = SumSpace([(dt, len(self.lists) * per[dt]) for dt in self.DTYPES])
        self.per = per
        self.size = self.parts.size

    def setup(self):
        from xrspatial.classify import reclassify
        self.fn = reclassify

    def case(self, rank):
        p, local = self.parts.locate(rank)
        dt = self.DTYPES[p]
        li, sub = divmod(local, self.per[dt])
        bins = list(self.lists[li])
        if self.kind == "infbin":
            bins = [float(b) for b in bins] + [INF]
        vals = self.values[dt]
        if self.kind == "cell":
            a = np.array([[vals[sub]]], dtype=dt)
        elif sub == 0:
            a = np.array([vals], dtype=dt)
        elif sub == 1:
            a = np.array([vals[::-1]], dtype=dt).T.copy()
        else:
            pad = vals + ((vals[0],) if len(vals) % 2 else ())
            a = np.array(pad[::-1], dtype=dt).reshape(2, -1)
        return dt, bins, list(NEWV[:len(bins)]), a

    def describe(self, rank):
        dt, bins, newv, a = self.case(rank)
        return {"raster": a, "bins": bins, "new_values": newv}

    def run(self, lo, hi, out):
        for rank in range(lo, hi):
            dt, bins, newv, a = self.case(rank)
            try:
                o = np.asarray(self.fn(dataarray(a.copy()), bins=bins, new_values=newv).values)
            except Exception as e:                                   # noqa: BLE001
                out.case(outcome=bytes64(repr(e).encode()), nontrivial=False)
                out.count("viol.reclassify.raises")
                out.violation(rank, "reclassify.raises|%s|bins=%r|cells=%s" % (dt, bins, _fmt(a.ravel())),
                              "reclassify raised %r" % (e,), case=self.describe(rank))
                continue
            out.case(outcome=bytes64(a.tobytes() + repr(bins).encode() + o.tobytes()),
                     nontrivial=bool(np.any(o == o)))
            bad = None
            cells, labs = a.ravel().tolist(), o.ravel().tolist()
            if o.shape != a.shape:
                bad = ("shape", "output shape %r" % (o.shape,))
                cells = []
            nagree = 0
            for v, lab in zip(cells, labs):
                if self.kind == "infbin" and v in (INF, -INF):
                    out.tie()
                    continue
                exp = ref.reclassify_ref(v, bins, newv)
                if (exp is None and lab != lab) or (exp is not None and lab == exp):
                    nagree += 1
                elif bad is None:
                    bad = ("value", "cell %r -> %r, expected %r (first bin whose upper bound >= value; NaN for "
                           "NaN/inf cells and above the last bin)" % (v, lab, "NaN" if exp is None else exp))
            if self.kind == "nonstrict":
                out.count("nonstrict_agree" if bad is None else "nonstrict_differ")
                if bad is not None:
                    out.note("non-strict bin list %r: %s" % (bins, bad[1]))
                continue
            out.ok(nagree)
            if bad is not None:
                out.count("viol.reclassify." + bad[0])
                out.violation(rank, "reclassify.%s|%s|bins=%r|cells=%s" % (bad[0], dt, bins, _fmt(cells)), bad[1],
                              case=self.describe(rank), observed=o,
                              expected=[ref.reclassify_ref(v, bins, newv) for v in cells])
            elif out.want_sample() and len(bins) >= 3 and self.kind != "cell":
                out.sample({"raster": a, "bins": bins, "new_values": newv, "out": o})


# ---------------------------------------------------------------------------------------------------
# binary
# ---------------------------------------------------------------------------------------------------
class BinarySpace(Space):
    """variant 'std': the 5-value alphabets above; 'nf32': listed values that are not float32-representable x the
    cells on either side of each of them in the raster's own dtype.  `values` runs over BIN_LISTS: every
    permutation of every subset of the alphabet (the order in which the values are listed must not matter)."""
    DTYPES = ("f8", "f4", "i4", "i8")

    def __init__(self, variant="std"):
        self.variant = variant
        self.name = "binary" if variant == "std" else "binary_" + variant
        self.lists = BIN_LISTS
        self.nlay = {dt: len(self.cells(dt)) + 2 for dt in self.DTYPES}
        self.parts = SumSpace([(dt, len(self.lists) * self.nlay[dt]) for dt in self.DTYPES])
        self.size = self.parts.size

    def alphabet(self, dt):
        if self.variant == "nf32":
            return BIN_VALUES_NF
        return BIN_VALUES_I if dt.startswith("i") else BIN_VALUES

    def cells(self, dt):
        if self.variant == "nf32":
            return edge_cells(BIN_VALUES_NF, dt) + (() if dt.startswith("i") else (NAN, INF, -INF))
        return BIN_CELLS_I if dt.startswith("i") else BIN_CELLS_F

    def setup(self):
        from xrspatial.classify import binary
        self.fn = binary

    def case(self, rank):
        p, local = self.parts.locate(rank)
        dt = self.DTYPES[p]
        si, lay = divmod(local, self.nlay[dt])
        alpha = self.alphabet(dt)
        values = [alpha[i] for i in self.lists[si]]
        cells = self.cells(dt)
        if lay < len(cells):
            a = np.array([[cells[lay]]], dtype=dt)
        elif lay == len(cells):
            a = np.array([cells], dtype=dt)
        else:
            pad = cells + ((cells[0],) if len(cells) % 2 else ())
            a = np.array(pad[::-1], dtype=dt).reshape(2, -1)
        return dt, values, a

    def describe(self, rank):
        dt, values, a = self.case(rank)
        return {"raster": a, "values": values}

    def run(self, lo, hi, out):
        for rank in range(lo, hi):
            dt, values, a = self.case(rank)
            key = "|%s|values=%r|cells=%s" % (dt, values, _fmt(a.ravel()))
            try:
                o = np.asarray(self.fn(dataarray(a.copy()), values).values)
            except Exception as e:                                   # noqa: BLE001
                out.case(outcome=bytes64(repr(e).encode()), nontrivial=False)
                out.count("viol.binary.raises")
                out.violation(rank, "binary.raises" + key, "binary raised %r" % (e,), case=self.describe(rank))
                continue
            out.case(outcome=bytes64(a.tobytes() + repr(values).encode() + o.tobytes()),
                     nontrivial=bool(np.any(o == 1)))
            bad = None
            if o.shape != a.shape:
                bad = "output shape %r" % (o.shape,)
            else:
                n = 0
                for v, lab in zip(a.ravel().tolist(), o.ravel().tolist()):
                    exp = ref.binary_ref(v, values, f32_raster=(dt == "f4"))
                    if exp == ref.TIE:
                        out.tie()
                    elif (exp is None and lab != lab) or (exp is not None and lab == exp):
                        n += 1
                    elif bad is None:
                        bad = "cell %r -> %r, expected %r (1 exactly on the listed values, 0 on other finite " \
                              "cells, NaN on NaN/inf)" % (v, lab, "NaN" if exp is None else exp)
                out.ok(n)
            if bad:
                out.count("viol.binary.value")
                out.violation(rank, "binary.value" + key, bad, case=self.describe(rank), observed=o,
                              expected=[ref.binary_ref(v, values, dt == "f4") for v in a.ravel().tolist()])
            elif out.want_sample() and a.size > 1 and len(values) >= 2:
                out.sample({"raster": a, "values": values, "out": o})


# ---------------------------------------------------------------------------------------------------
# quantile / equal_interval / natural_breaks
# ---------------------------------------------------------------------------------------------------
class ClassifierSpace(Space):
    kwargs = {}          # extra keyword arguments of the classifier (natural_breaks: num_sample=None)
    key_extra = ""       # ... and their spelling in the violation key

    def __init__(self, fn, alpha_name, letters, dtype, max_cells, ks, kwargs=None):
        self.fn_name, self.alpha_name, self.letters, self.dtype, self.ks = fn, alpha_name, letters, dtype, ks
        self.name = "%s_%s_%s_n%d" % (fn, alpha_name, dtype, max_cells)
        if kwargs:
            self.kwargs = dict(kwargs)
            self.key_extra = "".join("|%s=%r" % kv for kv in sorted(kwargs.items()))
            self.name += "".join("_%s_%s" % kv for kv in sorted(kwargs.items()))
        self.shapes = shapes_upto(max_cells, TWO_ROW_MAX.get(alpha_name, 99))
        self.parts = SumSpace([("%dx%d" % s, len(letters) ** (s[0] * s[1]) * len(ks)) for s in self.shapes])
        self.size = self.parts.size
        self.weight = {"quantile": 2.0, "equal_interval": 1.5, "natural_breaks": 3.0}[fn]
        self.rel_eps = 1e-6 if dtype == "f4" else 1e-9

    def setup(self):
        import warnings

        import xarray as xr
        from xrspatial import classify
        f = getattr(classify, self.fn_name)
        kw = self.kwargs
        self.fn = lambda r, k: f(r, k=k, **kw)
        # coordinates cost 0.7 ms per DataArray and play no role here: only the smallest rasters carry them
        self.mk = lambda a: dataarray(a) if a.size <= 2 else xr.DataArray(a, dims=("y", "x"))
        # natural_breaks force-enables its "not enough unique values" warning: keep it off the worker's stderr
        warnings.showwarning = lambda *a, **k: None

    def case(self, rank):
        p, local = self.parts.locate(rank)
        g, ki = divmod(local, len(self.ks))
        return grid(g, self.shapes[p], self.letters, self.dtype), self.ks[ki]

    def describe(self, rank):
        a, k = self.case(rank)
        return dict({"function": self.fn_name, "raster": a, "k": k}, **self.kwargs)

    def run(self, lo, hi, out):
        import contextlib
        with contextlib.redirect_stdout(_Null()):       # quantile() print()s its "not enough unique values" warning
            for rank in range(lo, hi):
                self.one(rank, out)

    def viol(self, out, rank, kind, text, a, k, cells, observed=None, expected=None, sig=None):
        out.count("viol.%s.%s" % (self.fn_name, kind))
        key = "%s.%s|%s|%dx%d|%s|k=%d%s" % (self.fn_name, kind, self.dtype, a.shape[0], a.shape[1], _fmt(cells), k,
                                            self.key_extra)
        out.violation(rank, key, "%s(k=%d%s) on %s %s raster [%s]: %s" % (
            self.fn_name, k, self.key_extra.replace("|", ", "), "x".join(map(str, a.shape)), a.dtype, _fmt(cells), text),
            case=dict({"function": self.fn_name, "raster": a, "k": k}, **self.kwargs), observed=observed,
            expected=expected, sig=sig)

    def one(self, rank, out):
        a, k = self.case(rank)
        fn = self.fn_name
        # the generator's own values, taken BEFORE the call; the classifier gets a copy of `a` and nothing is ever read
        # back from the DataArray it was handed (a classifier that reorders its input must not go unnoticed)
        cells = a.ravel().tolist()
        fin = tuple(sorted(float(v) for v in cells if ref.finite(v)))
        ndist = len(set(fin))
        exc = None
        try:
            o = np.asarray(self.fn(self.mk(a.copy()), k).values)
        except Exception as e:                                       # noqa: BLE001
            exc, o = e, None
        if not fin:                                                  # outside the domain: only counted
            out.case(outcome=bytes64(a.tobytes() + bytes([k]) + (repr(exc).encode() if exc else o.tobytes())),
                     nontrivial=False)
            out.count("no_finite_cell_raises" if exc else "no_finite_cell_returns")
            return
        if exc is not None:
            out.case(outcome=bytes64(a.tobytes() + bytes([k]) + type(exc).__name__.encode()), nontrivial=ndist >= 2)
            if ndist == 1:
                self.viol(out, rank, "constant_raster_raises",
                          "raised %r; every finite cell must get a class of [0,%d] and every NaN/inf cell NaN"
                          % (exc, k - 1), a, k, cells, observed=repr(exc),
                          sig="%s|constant_raster|%s" % (fn, type(exc).__name__))
            else:
                self.viol(out, rank, "raises", "raised %r" % (exc,), a, k, cells, observed=repr(exc))
            return
        out.case(outcome=bytes64(a.tobytes() + bytes([k]) + o.tobytes()), nontrivial=ndist >= 2)
        if o.shape != a.shape:
            self.viol(out, rank, "shape", "output shape %r" % (o.shape,), a, k, cells, observed=o)
            return
        labels = o.ravel().tolist()
        prob = ref.label_problems(cells, labels, k)
        if prob:
            self.viol(out, rank, prob[0], prob[1], a, k, cells, observed=o,
                      expected="NaN exactly on NaN/inf cells; integer classes of [0,%d], non-decreasing in the value"
                               % (k - 1))
            return
        out.ok()
        lab_of = {float(v): float(lab) for v, lab in zip(cells, labels) if ref.finite(v)}
        if fn == "equal_interval":
            if ndist < 2:
                return                                               # constant raster: any class accepted
            exp = dict(zip(fin, ref.equal_interval_ref(fin, k, self.rel_eps)))
            self.compare(out, rank, "intervals", exp, lab_of, a, k, cells, o,
                         "class i = i-th of %d equal-width intervals of [%r, %r]" % (k, fin[0], fin[-1]))
        elif fn == "quantile":
            edges, classes = ref.quantile_ref(fin, k, self.rel_eps)
            if classes is None:
                out.count("quantile_fewer_than_k_bands")
                return
            self.compare(out, rank, "bands", dict(zip(fin, classes)), lab_of, a, k, cells, o,
                         "percentile band edges %r" % (edges,))
        else:
            if ndist < k:
                out.count("natural_breaks_fewer_than_k_values")
                return
            got = ref.ssd_of_labels([v for v in cells if ref.finite(v)],
                                    [lab for v, lab in zip(cells, labels) if ref.finite(v)])
            best = ref.min_ssd(fin, k)
            if got == best:
                out.ok()
            elif got - best <= ref.sum_squares(fin) / 10 ** 6:
                out.tie()
            else:
                self.viol(out, rank, "ssd", "partition has within-class SSD %s (%.9g) but the minimum over all "
                          "partitions into %d contiguous classes is %s (%.9g)"
                          % (got, float(got), k, best, float(best)), a, k, cells, observed=o,
                          expected="a partition with SSD %s" % best)
                return
        if out.want_sample() and ndist >= 3 and len(cells) >= 4:
            out.sample({"function": fn, "raster": a, "k": k, "out": o})

    def compare(self, out, rank, kind, exp, lab_of, a, k, cells, o, what):
        nok = ntie = 0
        bad = None
        for v, e in exp.items():
            if e == ref.TIE:
                ntie += 1
            elif lab_of[v] == e:
                nok += 1
            elif bad is None:
                bad = "value %r got class %r, expected %d (%s)" % (v, lab_of[v], e, what)
        out.ok(nok)
        out.tie(ntie)
        if bad:
            self.viol(out, rank, kind, bad, a, k, cells, observed=o,
                      expected=[("tie" if exp[float(v)] == ref.TIE else exp[float(v)]) if ref.finite(v) else "nan"
                                for v in cells])


class EqualIntervalGridSpace(ClassifierSpace):
    """equal_interval on a dense (min, max, k) grid: rank -> (integer pair min < max, k, layout).
    layout 0: the 1x2 raster [min, max]; layout 1: a 2-row raster holding min, max, the dtype neighbours just inside
    them, every integer in between, the midpoint of every interval and every cut with its two dtype neighbours
    (int32: every integer of [min, max]).  All of ClassifierSpace's assertions apply (every finite cell a class of
    [0, k-1], order, interval index away from the cuts; on / next to a cut: tie).
    magnitude: None, or a key of EI_MAGNITUDE: every "integer" v of the construction above is v * scale + shift (exact),
    cuts / midpoints / neighbours are taken on the transformed [min, max]."""

    def __init__(self, tier, dtype, magnitude=None):
        g = EI_GRID[tier]
        self.fn_name, self.alpha_name, self.dtype, self.ks = "equal_interval", "minmax", dtype, g["ks"]
        self.name = "equal_interval_minmax_%s_%d..%d" % (dtype, g["lo"], g["hi"]) + ("_" + magnitude if magnitude else "")
        self.scale, self.shift = EI_MAGNITUDE[magnitude] if magnitude else (Fraction(1), 0)
        self.pairs = [(a, b) for b in range(g["lo"] + 1, g["hi"] + 1) for a in range(b - 1, g["lo"] - 1, -1)]
        self.size = len(self.pairs) * len(self.ks) * 2
        self.weight = 1.5
        self.rel_eps = 1e-6 if dtype == "f4" else 1e-9

    def case(self, rank):
        r, lay = divmod(rank, 2)
        pi, ki = divmod(r, len(self.ks))
        (mn, mx), k, dt = self.pairs[pi], self.ks[ki], self.dtype
        isint = dt.startswith("i")

        def tr(v):                     # exact: small integer * power of two, or small integer + 1e6
            t = v * self.scale + self.shift
            return int(t) if isint else float(t)
        if lay == 0:
            return np.array([[tr(mn), tr(mx)]], dtype=dt), k
        cells = set(tr(v) for v in range(mn, mx + 1))
        if not isint:
            lo, hi = Fraction(tr(mn)), Fraction(tr(mx))
            cells.update((neighbours(tr(mn), dt)[2], neighbours(tr(mx), dt)[0]))
            cuts = [lo + (hi - lo) * i / k for i in range(k + 1)]
            for c0, c1 in zip(cuts, cuts[1:]):
                cells.add(neighbours(float((c0 + c1) / 2), dt)[1])
            for c in cuts[1:-1]:
                cells.update(neighbours(float(c), dt))
        cells = sorted(cells, reverse=True)
        cells += [tr(mn)] * (len(cells) % 2)
        return np.array(cells, dtype=dt).reshape(2, -1), k


def build(tier):
    spaces = [ReclassifySpace(tier, kind) for kind in ("cell", "raster", "infbin", "nonstrict",
                                                       "edge_cell", "edge_raster")]
    spaces += [BinarySpace(), BinarySpace("nf32")]
    spaces += [EqualIntervalGridSpace(tier, dt) for dt in ("f8", "f4", "i4")]
    spaces += [EqualIntervalGridSpace(tier, dt, m) for m in EI_MAGNITUDE for dt in ("f8", "f4", "i4")
               if not (dt == "i4" and EI_MAGNITUDE[m][0] != 1)]
    for fn in ("quantile", "equal_interval", "natural_breaks"):
        for name, letters, dt, q, th in GRIDS:
            spaces.append(ClassifierSpace(fn, name, letters, dt, q if tier == "quick" else th, KS[tier]))
    for name, letters, dt, q, th in NB_ALL_CELLS:
        spaces.append(ClassifierSpace("natural_breaks", name, letters, dt, q if tier == "quick" else th, KS[tier],
                                      kwargs={"num_sample": None}))
    return spaces
