"""C06 — proximity / allocation / direction name one real target, never underestimated.

Engine E1: every layout of small rasters over the cell alphabet {0 = background, T = target, NaN} is run
through the real proximity(), allocation() and direction() (NumPy backend) and the three outputs are
judged together against a brute-force nearest-target model (xrmc/oracles/proximity.py).  A second cell alphabet
{0, a, b} ("value precision") carries pairs of values that only float64 / int64 can tell apart, so that the target
test is exercised at the raster's own precision.

Two execution modes of the same source (DESIGN 1.2): the three functions re-JIT a closure on every call
(~1.5 s per call compiled, ~0.6 ms under NUMBA_DISABLE_JIT=1), so the large enumerations are `interp`
spaces and a small exhaustive `jit` conformance space judges the compiled code with the same oracle; every
jit space has an interpreted twin that runs the identical cases."""
import itertools

import numpy as np

from ..core.digest import bytes64
from ..core.space import Space
from ..core.spaces import SumSpace, unrank_product
from ..oracles import proximity as orc

PROPERTY = "C06"
LEVEL = "model_checking"
NAN = float("nan")

RTOL, ATOL = 1e-5, 1e-6      # float32 kernel vs float64 model (distances)
ANG_TOL = 1e-3               # degrees (float32 ulp at 360 is 3e-5; the library's 57.29578 adds 3e-6)
COINCIDENT = 1e-6            # two distinct cells closer than this are the same point (pole / antimeridian)

RULE = ("default_*: every raster of the listed shape over the listed alphabet (rank = mixed-radix number of the "
        "cell letters, letters ordered 0, T, NaN; a T cell carries the value 1 + its row-major index, unique to the "
        "cell); config_*: every {0,T} layout x coordinate system x metric x max_distance x target_values (config_HxW: the "
        "first seven coordinate systems; config_wide_HxW: the wide-cell systems x2_y0.5 and lonlat_arctic_wide, with the "
        "very large finite max_distance 'huge' next to the unbounded one; config_huge_HxW: the first seven systems x "
        "metric under max_distance 'huge', default targets; config_max0_HxW: all nine systems x metric x max_distance 0 "
        "given as the int 0 and as the float 0.0, 3x3 with default targets and 2x3 with every target_values option: only "
        "target cells have a target within max_distance, every other cell must be NaN in all three outputs); "
        "conf_*: all {0,T} layouts of 2x3 x metric and a fixed slice of 3x3 layouts x metric x configuration variants, "
        "run compiled (jit) and interpreted (twin space, same cases); sparse_HxW_leK: every placement of <= K targets; "
        "precision_HxW[_leK]: every layout over {0, a, b} (all 729 of 2x3; 3x3 with <= K non-background cells: K = 2 quick, 5 thorough) x value pair (a, b) that float32 cannot tell apart or cannot hold (PRECISION: 0.3 vs float32(0.3) and 2^24+1 vs "
        "2^24 in float64 / int64 rasters with target_values = [a] in both directions; 1e-60, 1e200 and their negatives as "
        "default targets), conf_precision_2x3_*: a fixed layout slice of the same product, compiled and interpreted. "
        "One case = proximity + allocation + direction on the same raster (3 implementation calls) judged together; "
        "validated = cases with a definite verdict, tie_skipped = cell-level assertions skipped because D* is within "
        "tolerance of max_distance or two cells coincide geographically. A case is non-trivial when it has >= 1 target "
        "and >= 1 non-target cell; distinct = distinct (configuration, raster, three outputs) digests.")
ASSUMPTIONS = [
    "bearing convention asserted (pinned by the direction() docstring example and _calc_direction): 0 is reserved "
    "for the cell that is itself the target; otherwise degrees in (0, 360] measured in the coordinate plane clockwise "
    "from the direction of decreasing y coordinate (360, the library's 'north'), 90 = increasing x, 180 = increasing y "
    "coordinate (the library's 'south': with ascending y this is increasing row index, with the docstring's descending y "
    "it is decreasing row index), 270 = decreasing x; the bearing is planar in (x, y) for every metric, GREAT_CIRCLE included",
    "GREAT_CIRCLE = arc on a sphere of radius 6378137 m between (lon=x, lat=y); coordinates are kept inside "
    "[-180,180] x [-90,90] (outside raises by design); grids touching +-180 / +-90 contain distinct cells that are "
    "the same point on the sphere: for a non-target cell coinciding with a target (D* <= 1e-6) 'proximity != 0' is a tie and not asserted",
    "rasters that contain the meridian twice (a column at lon -180 and another at +180) are not generated: the two "
    "columns are the same points, the nearest target of a cell may then sit at the other end of the row and a sweep "
    "that only hands candidates to grid neighbours cannot see it (measured on linspace(-180,180,w) x linspace(90,-90,h): "
    "226 of 512 3x3 layouts and 1986 of 4096 3x4 layouts are over-estimated under GREAT_CIRCLE; every other relation holds); "
    "the +-180 / +-90 edges are reached by two grids that each touch one pole and one side of the antimeridian",
    "any target consistent with all three outputs is accepted (equidistant targets may be chosen freely); distances "
    "compared with rtol 1e-5 / atol 1e-6 (float32 output), bearings with 1e-3 degrees",
    "bounded max_distance: a cell whose D* is within rtol of max_distance may be NaN or not (tie), unless D* == "
    "max_distance exactly in IEEE arithmetic (then it is within); the statement only requires NaN where no target is "
    "within max_distance, a NaN at a cell with D* <= max_distance is reported by the exactness relation",
    "max_distance 'huge' (1e8, finite, beyond every distance on every grid; config_wide_* and config_huge_*) is a bounded "
    "max_distance for the judge: 'no NaN with unbounded max_distance' is asserted on the 'inf' cases, a NaN under 'huge' is a "
    "cell with a target within max_distance that is not exact and is reported by the exactness relation (prox-inexact)",
    "lonlat_arctic_wide (lat 70..60 step 5, lon 0, 30, .. : cells ~3x wider than tall in metres) under GREAT_CIRCLE: the "
    "diagonal neighbour towards the pole is nearer than the neighbour along the parallel, which no planar metric allows; the "
    "sweep's hand-over from grid neighbours then over-estimates on 14 of the 512 3x3 layouts (same class as the recorded "
    "4x4 / 3x4 GDAL-sweep findings; keys in c06_known_inexact_3x3_arctic_great_circle.json) - asserted, not exempted",
    "exactness p == D* is asserted on every exhaustively enumerated grid (<= 16 cells; the quick tier runs the <= 4-target "
    "layouts of the 4x4 grid that the thorough tier enumerates completely) and for single-target layouts; on "
    "the other sparse_* grids (6x6, 2x8, 8x2: not exhaustive layout spaces) it is only counted for layouts with >= 2 targets",
    "not generated: +-inf cells, NaN or inf inside target_values, max_distance < 0 or NaN, dask-backed rasters (C07), "
    "rasters without coordinates, dims other than ('y','x')",
    "max_distance = 0 ('all max_distance': the smallest non-negative bound) is in the domain: a target cell is at distance "
    "0 <= 0 from itself and keeps proximity 0 / its own value / direction 0, every non-target cell has no target within "
    "max_distance and must be NaN in all three outputs; a non-target cell that is the same point on the sphere as a target "
    "(D* <= 1e-6) is a tie there as well",
    "explicit target_values are run on {0,T} layouts whose T cells carry the class value 1 + (row+col) % 3 "
    "(so that non-zero non-target cells and several targets per value occur); allocation then names the class and "
    "proximity + direction pin the cell",
    "allocation() returns a float32 raster, so the value it reports for the named target is compared with the float32 "
    "rounding of that cell's value (identity on every small-integer alphabet; in the precision_* spaces 2^24+1 is reported "
    "as 2^24, 1e-60 as 0 and 1e200 as inf - the output dtype is taken as given, not judged here); which cell is named is "
    "pinned by proximity + direction, and the target test (proximity 0 exactly on targets, decoy b is NOT a target) is "
    "judged on the unrounded float64 / int64 values",
    "precision_*: target_values are given as Python numbers of the raster's kind (floats for 0.3, ints for 2^24+k); not "
    "generated: integer ids >= 2^53 (float64 itself cannot hold them), uint64, float16 rasters",
    "jit vs interpreted agreement is established through the common oracle (both within 1e-5 of the model on the "
    "same cases), not by comparing tie-breaking choices across modes",
]

# ---- coordinate systems: name -> (ys, xs) as functions of the shape ------------------------------------
SYSTEMS = {
    "unit_asc": lambda h, w: (np.arange(h, dtype=float), np.arange(w, dtype=float)),
    "unit_ydesc": lambda h, w: (np.arange(h, dtype=float)[::-1].copy(), np.arange(w, dtype=float)),
    "x0.5_y2desc": lambda h, w: (2.0 * np.arange(h, dtype=float)[::-1], 0.5 * np.arange(w, dtype=float)),
    "offset_xdesc": lambda h, w: (-50.0 + np.arange(h, dtype=float), 100.0 - np.arange(w, dtype=float)),
    "lonlat_mid": lambda h, w: (40.0 - 15.0 * np.arange(h, dtype=float), -5.0 + 10.0 * np.arange(w, dtype=float)),
    # touch the +90 / -180 and the -90 / +180 domain edges (the pole row is one point on the sphere)
    "lonlat_nw_edge": lambda h, w: (90.0 - 60.0 * np.arange(h, dtype=float), -180.0 + 60.0 * np.arange(w, dtype=float)),
    "lonlat_se_edge": lambda h, w: (-90.0 + 60.0 * np.arange(h, dtype=float)[::-1], 180.0 - 60.0 * np.arange(w, dtype=float)[::-1]),
    # cells WIDER than tall (x0.5_y2desc, lonlat_mid have them taller than wide, the unit systems square)
    "x2_y0.5": lambda h, w: (0.5 * np.arange(h, dtype=float), 2.0 * np.arange(w, dtype=float)),
    # high-latitude lon/lat grid, wider than tall (3x3: lon 0..60, lat 70..60): under GREAT_CIRCLE the edge along the
    # lower latitude is LONGER than the corner-to-corner arc, which is therefore no upper bound of the distances
    "lonlat_arctic_wide": lambda h, w: (70.0 - 5.0 * np.arange(h, dtype=float), 30.0 * np.arange(w, dtype=float)),
}
SYS_NAMES = list(SYSTEMS)
SYS_BASE = SYS_NAMES[:7]
SYS_WIDE = SYS_NAMES[7:]
METRICS = ["EUCLIDEAN", "MANHATTAN", "GREAT_CIRCLE"]
MAXD = ["inf", "1u", "1.5u", "2.3u", "diag"]
MAXD_WIDE = ["inf", "huge", "1u", "1.5u", "2.3u", "diag"]
MAXD_ZERO = ["0", "0.0"]      # the lower end of the max_distance domain, as the int 0 and as the float 0.0
HUGE = 1e8                    # 'huge': finite, beyond every distance of every grid (half the Earth's circumference is 2.0e7 m)
TVS = [("default", None), ("[2]", [2]), ("[3,1]", [3, 1]), ("[0]", [0])]


def max_distance_value(name, ys, xs, metric):
    """Numeric max_distance of a named option.  u = the metric's length of sqrt(sx*sy) coordinate units."""
    if name == "inf":
        return float("inf")
    if name == "huge":
        return HUGE
    if name == "0":
        return 0                  # passed as a Python int
    if name == "0.0":
        return 0.0
    if name == "diag":
        return float(orc.distance(metric, xs[0], ys[0], xs[-1], ys[-1]))
    sx, sy = abs(float(xs[1] - xs[0])), abs(float(ys[1] - ys[0]))
    u = (sx * sy) ** 0.5
    if metric == "GREAT_CIRCLE":
        u = orc.EARTH_RADIUS * np.pi / 180.0 * u
    return float(u * float(name[:-1]))


def fmt_cells(cells):
    return "[" + ",".join("(%d,%d)" % rc for rc in cells) + "]"


def layout_key(shape, letters):
    w = shape[1]
    k = "%dx%d|targets=%s" % (shape[0], w, fmt_cells([(i // w, i % w) for i, l in enumerate(letters) if l == 1]))
    nans = [(i // w, i % w) for i, l in enumerate(letters) if l == 2]
    if nans:
        k += "|nan=" + fmt_cells(nans)
    return k


def unique_raster(shape, letters, dtype=float):
    a = np.zeros(shape[0] * shape[1], dtype=dtype)
    for i, l in enumerate(letters):
        if l == 1:
            a[i] = i + 1
        elif l == 2:
            a[i] = NAN
    return a.reshape(shape)


def class_raster(shape, letters):
    a = np.zeros(shape[0] * shape[1])
    w = shape[1]
    for i, l in enumerate(letters):
        if l == 1:
            a[i] = 1 + (i // w + i % w) % 3
    return a.reshape(shape)


# ---- the judge -------------------------------------------------------------------------------------------
def judge(a, outs, D, B, tv, maxd, exact):
    """-> (problems [(relation, message)], ties, inexact_cells).  `outs` = (proximity, allocation, direction) arrays."""
    h, w = a.shape
    problems = []
    for name, o in zip(("proximity", "allocation", "direction"), outs):
        if o.shape != a.shape:
            return [("prox-shape", "%s has shape %r, raster %r" % (name, o.shape, a.shape))], 0, 0
    p, al, dr = (np.asarray(o, dtype=np.float64).ravel() for o in outs)
    # allocation() returns a float32 raster: the value it can report for a target is the float32 rounding of the
    # cell value (identity for every small-integer alphabet; 2**24+1 -> 2**24, 1e-60 -> 0, 1e200 -> inf).  WHICH cell
    # is named is pinned by proximity + direction below, the target test itself is judged on the unrounded values.
    with np.errstate(over="ignore"):
        vals = np.asarray(a).astype(np.float32).astype(np.float64).ravel()
    tm = orc.target_mask(a, tv).ravel()
    Ds = orc.nearest(D, tm)
    pn, an, dn = np.isnan(p), np.isnan(al), np.isnan(dr)
    maxd = float(maxd)
    bounded = maxd != float("inf")
    tol_m = RTOL * maxd + ATOL if bounded else 0.0
    ties = 0

    def cell(mask):
        i = int(np.flatnonzero(mask)[0])
        return i, "cell (%d,%d): proximity=%r allocation=%r direction=%r, D*=%r" % (
            i // w, i % w, float(p[i]), float(al[i]), float(dr[i]), float(Ds[i]))

    # 1. proximity is 0 exactly on target cells
    bad = tm & ~(p == 0)
    if bad.any():
        problems.append(("prox-zero-target", "target cell without proximity 0: " + cell(bad)[1]))
    else:
        z = ~tm & (p == 0)
        co = z & (Ds <= COINCIDENT)
        ties += int(co.sum())
        z &= ~co
        if z.any():
            problems.append(("prox-zero-target", "proximity 0 on a non-target cell: " + cell(z)[1]))
    # 2. the three outputs are NaN together
    mism = (pn != an) | (pn != dn)
    if mism.any():
        problems.append(("prox-nan-mismatch", "outputs are not NaN at the same cells: " + cell(mism)[1]))
    # 3. >= 1 target and unbounded: no NaN anywhere
    anyn = pn | an | dn
    if not bounded and tm.any() and anyn.any():
        problems.append(("prox-nan-unbounded", "NaN although a target exists and max_distance is unbounded: " + cell(anyn)[1]))
    # 4. no target within max_distance -> NaN in all three
    if tm.any():
        beyond = Ds > maxd + tol_m if bounded else np.zeros(len(p), bool)
        exact_tie = bounded & (Ds == maxd) & (Ds.astype(np.float32).astype(np.float64) == Ds)
        # max_distance 0: a non-target cell that is the same point as a target (pole row) is at distance 0 = max_distance;
        # whether it then reports that target or NaN is the same open question as 'proximity 0 on it' above -> tie
        exact_tie &= ~(~tm & (Ds <= COINCIDENT))
        tie_m = (np.abs(Ds - maxd) <= tol_m) & ~exact_tie if bounded else np.zeros(len(p), bool)
    else:
        beyond = np.ones(len(p), bool)
        tie_m = np.zeros(len(p), bool)
    ties += int(tie_m.sum())
    notnan = beyond & ~(pn & an & dn)
    if notnan.any():
        problems.append(("prox-beyond-max", "cell without a target within max_distance=%r is not NaN in all three outputs: %s"
                         % (maxd, cell(notnan)[1])))
    # 5. every non-NaN proximity is the distance to a real target, named by allocation and direction
    fin = ~pn
    if fin.any():
        match = (tm[None, :] & (vals[None, :] == al[:, None])
                 & (np.abs(D - p[:, None]) <= RTOL * D + ATOL)
                 & (np.abs(B - dr[:, None]) <= ANG_TOL))
        nowit = fin & ~match.any(axis=1)
        if nowit.any():
            i, txt = cell(nowit)
            cands = [(int(j) // w, int(j) % w, float(vals[j]), float(D[i, j]), float(B[i, j])) for j in np.flatnonzero(tm)]
            problems.append(("prox-witness", "no target cell has value == allocation, distance == proximity and bearing == "
                             "direction: %s; targets (row, col, value, distance, bearing): %r" % (txt, cands[:8])))
        # 5b. "the one whose value allocation reports": allocation is a float32 raster, so a target value that float32 cannot
        #     hold (ids >= 2**24, |v| < 1e-45 or > 3.4e38) is reported ROUNDED - possibly to the value of another, non-target
        #     cell.  Reported under its own relation (known finding: call-site defect of the float32 output buffer).
        truev = np.asarray(a, dtype=np.float64).ravel()
        rounded = fin & match.any(axis=1) & ~(match & (truev[None, :] == al[:, None])).any(axis=1)
        if rounded.any():
            i, txt = cell(rounded)
            j = int(np.flatnonzero(match[i])[0])
            problems.append(("alloc-rounded", "allocation reports %r for the target at (%d,%d) whose value is %r (float32 output): %s"
                             % (float(al[i]), j // w, j % w, float(truev[j]), txt)))
        # 6. never smaller than the distance to the truly nearest target
        under = fin & (p < Ds - (RTOL * np.where(np.isfinite(Ds), Ds, 0.0) + ATOL))
        if under.any():
            problems.append(("prox-underestimate", "proximity smaller than the nearest-target distance: " + cell(under)[1]))
        # 7. never larger than max_distance
        if bounded:
            over = fin & (p > maxd + tol_m)
            if over.any():
                problems.append(("prox-exceeds-max", "proximity larger than max_distance=%r: %s" % (maxd, cell(over)[1])))
    # 8. exactness
    inexact = 0
    if tm.any():
        required = ~beyond & ~tie_m
        off = required & ~(np.abs(p - Ds) <= RTOL * Ds + ATOL)      # NaN counts as off
        inexact = int(off.sum())
        if inexact and (exact or int(tm.sum()) == 1):
            problems.append(("prox-inexact", "proximity is not the exact nearest-target distance at %d cell(s); first: %s"
                             % (inexact, cell(off)[1])))
    return problems, ties, inexact


class ProxSpace(Space):
    """Common driver: subclasses map rank -> case dict via `case(rank)`."""
    mode = "interp"
    exact = True

    def setup(self):
        import xarray as xr
        from xrspatial.proximity import allocation, direction, proximity
        self.fns = (proximity, allocation, direction)
        self.xr = xr
        self.tables = {}
        if self.mode == "jit":       # compile the shared kernels once
            r = xr.DataArray(np.array([[0.0, 1.0]]), dims=("y", "x"), coords={"y": [0.0], "x": [0.0, 1.0]})
            proximity(r)

    def table(self, shape, sysname, metric):
        k = (shape, sysname, metric)
        if k not in self.tables:
            ys, xs = SYSTEMS[sysname](*shape)
            self.tables[k] = (ys, xs) + orc.pair_tables(ys, xs, metric)
        return self.tables[k]

    def describe(self, rank):
        c = self.case(rank)
        ys, xs = SYSTEMS[c["sys"]](*c["a"].shape)
        return {"raster": c["a"], "y": ys, "x": xs, "distance_metric": c["metric"], "max_distance": c["maxd_name"],
                "target_values": c["tv"], "coords_dtype": c.get("cdtype", "float64")}

    def run(self, lo, hi, out):
        xr = self.xr
        for rank in range(lo, hi):
            c = self.case(rank)
            a = c["a"]
            shape = a.shape
            ys, xs, D, B = self.table(shape, c["sys"], c["metric"])
            maxd = max_distance_value(c["maxd_name"], ys, xs, c["metric"])
            kw = {}
            if not c.get("defaults"):
                kw["distance_metric"] = c["metric"]
            if maxd != float("inf"):
                kw["max_distance"] = maxd
            if c["tv"] is not None:
                kw["target_values"] = list(c["tv"])
            cdt = c.get("cdtype", "float64")
            r = xr.DataArray(a.copy(), dims=("y", "x"), coords={"y": ys.astype(cdt), "x": xs.astype(cdt)})
            key = c["key"]
            try:
                outs = tuple(np.asarray(f(r, **kw).values) for f in self.fns)
            except Exception as e:  # an in-domain input must not raise
                out.case(outcome=bytes64(repr(e).encode()), nontrivial=False, calls=3)
                out.ok()
                out.violation(rank, "prox-exception|" + key, "%s: %s" % (type(e).__name__, e), case=self.describe(rank),
                              observed=repr(e), expected="three rasters")
                continue
            problems, ties, inexact = judge(a, outs, D, B, c["tv"], maxd, self.exact)
            tm = orc.target_mask(a, c["tv"])
            nt = bool(tm.any() and not tm.all())
            out.case(outcome=bytes64(key.encode() + a.tobytes() + b"".join(o.tobytes() for o in outs)), nontrivial=nt, calls=3)
            out.ok()
            if ties:
                out.tie(ties)
            if inexact and not problems:
                out.count("inexact_layouts_not_asserted")
            for rel, msg in problems[:5]:
                out.violation(rank, rel + "|" + key, msg, case=self.describe(rank),
                              sig="allocation|float32-output-rounds-the-target-value" if rel == "alloc-rounded" else None,
                              observed={"proximity": outs[0], "allocation": outs[1], "direction": outs[2]},
                              expected={"nearest_target_distance": orc.nearest(D, tm.ravel()).reshape(shape),
                                        "max_distance": maxd})
            if not problems and nt and out.want_sample() and int(tm.sum()) >= 2:
                d = self.describe(rank)
                d.update(proximity=outs[0], allocation=outs[1], direction=outs[2])
                out.sample(d)


class DefaultSpace(ProxSpace):
    """Every raster of `shape` over the first `nletters` letters of (0, T, NaN); all arguments left at their defaults."""

    def __init__(self, shape, nletters, exact=True):
        self.shape, self.nletters = shape, nletters
        self.name = "default_%dx%d_%dletters" % (shape[0], shape[1], nletters)
        self.size = nletters ** (shape[0] * shape[1])
        self.weight = shape[0] * shape[1]

    def case(self, rank):
        letters = unrank_product(rank, [self.nletters] * (self.shape[0] * self.shape[1]))
        return dict(a=unique_raster(self.shape, letters), sys="unit_asc", metric="EUCLIDEAN", maxd_name="inf", tv=None,
                    defaults=True, key=layout_key(self.shape, letters))


class ThinSpace(ProxSpace):
    """Degenerate shapes (single row / column / cell), 3 letters, defaults."""

    def __init__(self, shapes):
        self.shapes = shapes
        self.sum = SumSpace([(s, 3 ** (s[0] * s[1])) for s in shapes])
        self.name = "default_thin_3letters"
        self.size = self.sum.size

    def case(self, rank):
        i, local = self.sum.locate(rank)
        shape = self.shapes[i]
        letters = unrank_product(local, [3] * (shape[0] * shape[1]))
        return dict(a=unique_raster(shape, letters), sys="unit_ydesc", metric="EUCLIDEAN", maxd_name="inf", tv=None,
                    defaults=True, key=layout_key(shape, letters))


class DtypeSpace(ProxSpace):
    """Every {0,T} layout x raster dtype, integer coordinates with descending y (the docstring set-up), defaults."""
    DTYPES = ["int32", "int64", "float32", "uint8"]

    def __init__(self, shape):
        self.shape = shape
        self.n = 2 ** (shape[0] * shape[1])
        self.name = "default_%dx%d_dtypes" % shape
        self.size = self.n * len(self.DTYPES)

    def case(self, rank):
        di, lay = divmod(rank, self.n)
        letters = unrank_product(lay, [2] * (self.shape[0] * self.shape[1]))
        dt = self.DTYPES[di]
        return dict(a=unique_raster(self.shape, letters, dtype=dt), sys="unit_ydesc", metric="EUCLIDEAN", maxd_name="inf",
                    tv=None, defaults=True, cdtype="int64", key=layout_key(self.shape, letters) + "|dtype=" + dt)


class SparseSpace(ProxSpace):
    """Every placement of <= kmax targets on a grid.  exact=False: not part of an exhaustively enumerated layout space,
    exactness is asserted for 1 target only and counted otherwise."""

    def __init__(self, shape, kmax, exact):
        self.shape, self.exact = shape, exact
        n = shape[0] * shape[1]
        self.places = [c for k in range(kmax + 1) for c in itertools.combinations(range(n), k)]
        self.name = "sparse_%dx%d_le%dtargets" % (shape[0], shape[1], kmax)
        self.size = len(self.places)
        self.weight = n

    def case(self, rank):
        letters = [0] * (self.shape[0] * self.shape[1])
        for i in self.places[rank]:
            letters[i] = 1
        return dict(a=unique_raster(self.shape, letters), sys="unit_asc", metric="EUCLIDEAN", maxd_name="inf", tv=None,
                    defaults=True, key=layout_key(self.shape, letters))


def config_case(shape, letters, sysname, metric, maxd_name, tvi):
    tvname, tv = TVS[tvi]
    a = unique_raster(shape, letters) if tv is None else class_raster(shape, letters)
    return dict(a=a, sys=sysname, metric=metric, maxd_name=maxd_name, tv=tv,
                key="%s|cfg=%s/%s/max=%s/tv=%s" % (layout_key(shape, letters), sysname, metric, maxd_name, tvname))


class ConfigSpace(ProxSpace):
    """Every {0,T} layout x coordinate system x metric x max_distance x target_values (configuration is the major index)."""

    def __init__(self, shape, ntv, tag="config", systems=None, maxds=None):
        self.shape = shape
        self.systems, self.maxds = list(systems or SYS_BASE), list(maxds or MAXD)
        self.n = 2 ** (shape[0] * shape[1])
        self.radices = [len(self.systems), len(METRICS), len(self.maxds), ntv]
        self.ncfg = int(np.prod(self.radices))
        self.name = "%s_%dx%d" % (tag, shape[0], shape[1])
        self.size = self.n * self.ncfg
        self.weight = shape[0] * shape[1]

    def case(self, rank):
        cfg, lay = divmod(rank, self.n)
        si, mi, xi, ti = unrank_product(cfg, self.radices)
        letters = unrank_product(lay, [2] * (self.shape[0] * self.shape[1]))
        return config_case(self.shape, letters, self.systems[si], METRICS[mi], self.maxds[xi], ti)


class Conf2x3Space(ProxSpace):
    """All {0,T} layouts of 2x3 x metric (each metric on its own coordinate system), otherwise default arguments."""
    SYS = {"EUCLIDEAN": "unit_asc", "MANHATTAN": "x0.5_y2desc", "GREAT_CIRCLE": "lonlat_mid"}

    def __init__(self, mode, other_metric_stride=1):
        self.mode = mode
        self.name = "conf_2x3_" + mode
        # every layout under EUCLIDEAN; every `stride`-th layout under the two other metrics (stride 1 = all)
        self.pairs = [(0, lay) for lay in range(64)] + [(mi, lay) for mi in (1, 2) for lay in range(1, 64, other_metric_stride)]
        self.size = len(self.pairs)
        self.weight = 1000 if mode == "jit" else 1

    def case(self, rank):
        mi, lay = self.pairs[rank]
        letters = unrank_product(lay, [2] * 6)
        return config_case((2, 3), letters, self.SYS[METRICS[mi]], METRICS[mi], "inf", 0)


class Conf3x3Space(ProxSpace):
    """A fixed slice of 3x3 {0,T} layouts x metric x configuration variants (bounded distance, explicit targets)."""
    VARIANTS = [("unit_ydesc", "1.5u", 1), ("lonlat_se_edge", "diag", 0), ("offset_xdesc", "2.3u", 2), ("x0.5_y2desc", "1u", 3)]

    def __init__(self, mode, nlayouts, nvariants):
        self.mode = mode
        self.layouts = [(37 + 101 * k) % 512 for k in range(nlayouts)]
        self.nv = nvariants
        self.name = "conf_3x3slice_" + mode
        self.size = nlayouts * 3 * nvariants
        self.weight = 1000 if mode == "jit" else 1

    def case(self, rank):
        li, mi, vi = unrank_product(rank, [len(self.layouts), 3, self.nv])
        letters = unrank_product(self.layouts[li], [2] * 9)
        sysname, maxd_name, ti = self.VARIANTS[vi]
        return config_case((3, 3), letters, sysname, METRICS[mi], maxd_name, ti)


# ---- value precision: cell values / target_values that float32 cannot hold -----------------------------------
F32_03 = float(np.float32(0.3))      # 0.30000001192092896 = the float32 nearest to 0.3, written as a float64
BIG = 2 ** 24                        # 16777216; BIG + 1 is the first integer without a float32 representation
# (name, raster dtype, value of letter a, value of letter b, target_values or None = default targets).
# Explicit target_values name letter a only: b (the "decoy") differs from a in float64 / int64 but collides with it
# under float32 rounding, so a target test taken at reduced precision either loses a or adopts b.  Default targets:
# non-zero finite magnitudes that float32 flushes to 0 or overflows to inf are targets like any other value.
PRECISION = [
    ("f64:a=0.3,b=f32(0.3),tv=[a]", "float64", 0.3, F32_03, [0.3]),
    ("f64:a=f32(0.3),b=0.3,tv=[a]", "float64", F32_03, 0.3, [F32_03]),
    ("f64:a=2^24+1,b=2^24,tv=[a]", "float64", BIG + 1, BIG, [BIG + 1]),
    ("f64:a=2^24,b=2^24+1,tv=[a]", "float64", BIG, BIG + 1, [BIG]),
    ("i64:a=2^24+1,b=2^24,tv=[a]", "int64", BIG + 1, BIG, [BIG + 1]),
    ("i64:a=2^24,b=2^24+1,tv=[a]", "int64", BIG, BIG + 1, [BIG]),
    ("f64:a=1e-60,b=NaN,default", "float64", 1e-60, NAN, None),
    ("f64:a=1e200,b=NaN,default", "float64", 1e200, NAN, None),
    ("f64:a=1e-60,b=1e200,default", "float64", 1e-60, 1e200, None),
    ("f64:a=-1e-60,b=-1e200,default", "float64", -1e-60, -1e200, None),
]
PRECISION_SYS = {(2, 3): "unit_asc", (3, 3): "x0.5_y2desc"}


def precision_layouts(shape, kmax):
    """Every letter vector over {0 = background, 1 = a, 2 = b} with <= kmax non-background cells, fewest first."""
    n = shape[0] * shape[1]
    lays = []
    for k in range(min(kmax, n) + 1):
        for cells in itertools.combinations(range(n), k):
            for letters in itertools.product((1, 2), repeat=k):
                lay = [0] * n
                for i, l in zip(cells, letters):
                    lay[i] = l
                lays.append(tuple(lay))
    return lays


def precision_case(shape, letters, vi):
    name, dt, va, vb, tv = PRECISION[vi]
    a = np.zeros(shape[0] * shape[1], dtype=dt)
    for i, l in enumerate(letters):
        if l:
            a[i] = va if l == 1 else vb
    w = shape[1]
    key = "%dx%d|vp=%s|a=%s|b=%s" % (shape[0], w, name, fmt_cells([(i // w, i % w) for i, l in enumerate(letters) if l == 1]),
                                     fmt_cells([(i // w, i % w) for i, l in enumerate(letters) if l == 2]))
    return dict(a=a.reshape(shape), sys=PRECISION_SYS[shape], metric="EUCLIDEAN", maxd_name="inf", tv=tv, defaults=True, key=key)


class PrecisionSpace(ProxSpace):
    """Value precision: every {0, a, b} layout (<= kmax non-background cells) x PRECISION variant, default arguments
    apart from target_values (the variant is the major index)."""

    def __init__(self, shape, kmax):
        self.shape = shape
        self.layouts = precision_layouts(shape, kmax)
        n = shape[0] * shape[1]
        self.name = "precision_%dx%d" % shape + ("" if kmax >= n else "_le%dcells" % kmax)
        self.size = len(self.layouts) * len(PRECISION)
        self.weight = n

    def case(self, rank):
        vi, li = divmod(rank, len(self.layouts))
        return precision_case(self.shape, self.layouts[li], vi)


class PrecisionConfSpace(ProxSpace):
    """Per PRECISION variant the first `per_variant` 2x3 layouts of the fixed sequence (37 + 101 k) mod 729 (mixed-radix
    letters over {0, a, b}) that contain both a and b; run compiled and interpreted (twin)."""

    def __init__(self, mode, per_variant):
        self.mode = mode
        seq = []
        for k in range(729):
            letters = tuple(unrank_product((37 + 101 * k) % 729, [3] * 6))
            if 1 in letters and 2 in letters:
                seq.append(letters)
            if len(seq) == per_variant:
                break
        self.layouts = seq
        self.name = "conf_precision_2x3_" + mode
        self.size = len(seq) * len(PRECISION)
        self.weight = 1000 if mode == "jit" else 1

    def case(self, rank):
        vi, li = divmod(rank, len(self.layouts))
        return precision_case((2, 3), self.layouts[li], vi)


TIERS = {
    "quick": dict(thin=[(1, 1), (1, 2), (2, 1), (1, 5), (5, 1), (2, 2)], default=[((3, 3), 3)], dtypes=(3, 3),
                  config=((3, 3), 3), config_wide=((3, 3), 2), config_huge=(3, 3), config_max0=[((3, 3), 1), ((2, 3), 4)], sparse=[((4, 4), 4, True), ((6, 6), 2, False), ((2, 8), 3, False), ((8, 2), 3, False)],
                  slice=(4, 2), precision=[((2, 3), 6), ((3, 3), 2)], precision_conf=1),
    "thorough": dict(thin=[(1, 1), (1, 2), (2, 1), (1, 5), (5, 1), (2, 2), (1, 7), (7, 1), (2, 3), (3, 2)],
                     default=[((3, 3), 3), ((2, 5), 3), ((3, 4), 3), ((4, 4), 2)], dtypes=(3, 3),
                     config=((3, 4), 4), config_wide=((3, 4), 3), config_huge=(3, 4), config_max0=[((3, 4), 1), ((3, 3), 4)], sparse=[((6, 6), 3, False), ((2, 8), 4, False), ((8, 2), 4, False)], slice=(32, 4),
                     precision=[((2, 3), 6), ((3, 3), 5)], precision_conf=4),
}
BOUNDS = {t: {"default_configuration": [dict(shape=list(s), letters=["0", "T", "NaN"][:n]) for s, n in b["default"]],
              "thin_shapes_3letters": [list(s) for s in b["thin"]],
              "dtype_layouts_0T": dict(shape=list(b["dtypes"]), dtypes=DtypeSpace.DTYPES, coords="int64, y descending"),
              "configuration_product_0T": dict(shape=list(b["config"][0]), coordinate_systems=SYS_BASE, metrics=METRICS,
                                               max_distance=MAXD, target_values=[n for n, _ in TVS[:b["config"][1]]]),
              "configuration_product_wide_cells_0T": dict(shape=list(b["config_wide"][0]), coordinate_systems=SYS_WIDE,
                                                          metrics=METRICS, max_distance=MAXD_WIDE,
                                                          target_values=[n for n, _ in TVS[:b["config_wide"][1]]]),
              "configuration_product_huge_max_distance_0T": dict(shape=list(b["config_huge"]), coordinate_systems=SYS_BASE,
                                                                 metrics=METRICS, max_distance=["huge"],
                                                                 target_values=["default"]),
              "configuration_product_zero_max_distance_0T": [dict(shape=list(sh), coordinate_systems=SYS_NAMES, metrics=METRICS,
                                                                  max_distance=MAXD_ZERO, target_values=[n for n, _ in TVS[:ntv]])
                                                             for sh, ntv in b["config_max0"]],
              "max_distance_options": {"inf": "argument omitted", "huge": HUGE, "0": "the int 0", "0.0": "the float 0.0", "Nu": "N x the metric's length of "
                                       "sqrt(sx*sy) coordinate units", "diag": "first-to-last-cell distance in the metric"},
              "sparse_0T": [dict(shape=list(sh), max_targets=k, exactness_asserted="all layouts" if ex else "1 target")
                            for sh, k, ex in b["sparse"]],
              "jit_conformance": dict(all_layouts="2x3: all 64 layouts x EUCLIDEAN; MANHATTAN and GREAT_CIRCLE on all (interpreted, thorough) or every 4th layout (compiled, quick)", slice_3x3=dict(layouts=b["slice"][0], variants=b["slice"][1],
                                                                                    metrics=3)),
              "value_precision_0ab": dict(variants=[v[0] for v in PRECISION],
                                          grids=[dict(shape=list(sh), max_non_background_cells=min(k, sh[0] * sh[1]),
                                                      coordinates=PRECISION_SYS[sh]) for sh, k in b["precision"]],
                                          configuration="defaults (EUCLIDEAN, unbounded); target_values=[a] or default targets",
                                          jit_conformance_layouts_per_variant=b["precision_conf"]),
              "tolerances": dict(rtol=RTOL, atol=ATOL, bearing_deg=ANG_TOL)} for t, b in TIERS.items()}


def build(tier):
    b = TIERS[tier]
    spaces = [ThinSpace(b["thin"])]
    spaces += [DefaultSpace(s, n) for s, n in b["default"]]
    spaces.append(DtypeSpace(b["dtypes"]))
    spaces.append(ConfigSpace(*b["config"]))
    spaces.append(ConfigSpace(*b["config_wide"], tag="config_wide", systems=SYS_WIDE, maxds=MAXD_WIDE))
    spaces.append(ConfigSpace(b["config_huge"], 1, tag="config_huge", systems=SYS_BASE, maxds=["huge"]))
    spaces += [ConfigSpace(sh, ntv, tag="config_max0", systems=SYS_NAMES, maxds=MAXD_ZERO) for sh, ntv in b["config_max0"]]
    spaces += [SparseSpace(*sp) for sp in b["sparse"]]
    spaces += [PrecisionSpace(*ps) for ps in b["precision"]]
    for mode in ("jit", "interp"):
        spaces.append(Conf2x3Space(mode, 4 if (tier == "quick" and mode == "jit") else 1))
        spaces.append(Conf3x3Space(mode, *b["slice"]))
        spaces.append(PrecisionConfSpace(mode, b["precision_conf"]))
    return spaces
