"""C02 — zonal stats summarise exactly the valid cells of each zone (NumPy backend).

Engine E1.  The statistics depend only on the sequence of (zone, value) pairs in flatten order, so
rasters are enumerated as *all* sequences of N cells over (zone alphabet x value alphabet), laid out
1xN and (N even) 2x(N/2).  Three kinds of spaces:
  def_*     default parameters, both return types                      (core and extended alphabets)
  par_*     zone_ids x nodata_values (+ each with the DataArray form)  (core alphabets; parx_* = full product
            zone_ids x nodata_values x return_type)
  fun_*     stats_funcs (names, pairs, reversed list, user reducers) x return_type (fun1_* = without the pairs)
  near_*    nodata_values = 0 / 3 / 1000.0 with a value alphabet made of nodata itself, its two float64 neighbours
            (np.nextafter), nodata + 5e-9, nodata * (1 + 5e-6) and two ordinary letters: a value that is close to
            but different from nodata is a valid cell ("finite and different from nodata_values")
  gap_*     zone_ids sub-lists over (ids present in a raster with zones from {10, 20, 40}) + the absent ids
            5, 25, 99: absent ids below the minimum, between two existing ids and above the maximum, alone and
            mixed with existing ids, in any order
  memb_* / memp_*   memory layout of the two rasters (C-ordered, Fortran-ordered, transposed view - chosen
            independently for zones and values) on the non-square shapes 2x3, 3x2, 2x4, where memory order and
            logical order differ; the oracle works on logical cell positions
One rank = one call of xrspatial.zonal.stats, compared with the dictionary group-by model of
xrmc/oracles/zonal.py."""
import itertools

import numpy as np

from ..core.digest import bytes64
from ..core.space import Space
from ..core.spaces import SumSpace, ordered_sublists, unrank_product
from ..oracles import zonal as oz

PROPERTY = "C02"
LEVEL = "model_checking"
RULE = ("every sequence of N (zone, value) cells over the listed alphabets (rank = mixed-radix number, zone letters "
        "outer, value letters inner) x every listed layout x every listed parameter setting; one case = one call of "
        "zonal.stats.  Parameter settings: zone_ids in {None} + all ordered sub-lists (length 0..3, no repetition) of "
        "(ids present in the raster + the absent id 5); nodata_values in {None, 0, 3}; stats_funcs in {default list, "
        "each single name, each unordered pair, reversed default list, dict of three user reducers, three one-reducer "
        "dicts}; return_type both.  near_* spaces: nodata_values fixed per space (0, 3, 1000.0), value letters = nodata, "
        "nextafter(nodata, +-inf), nodata+5e-9, nodata*(1+5e-6) (nodata=0: -5e-9), 1.0, NaN; gap_* spaces: zone_ids in "
        "{None} + all ordered sub-lists (length 0..3) of (ids present + absent ids 5, 25, 99) over the zone alphabet "
        "{10, 20, 40}; memb_* spaces: every zones raster over {1, 2} x every values raster over {0, 1} x layout pairs "
        "(zones, values) in {C, F}^2 minus (C, C); memp_* spaces: every zones raster over {1, 2} x the position rasters "
        "(1..N in flatten order; each one-hot raster) x layout pairs in {C, F, T}^2 minus (C, C), where C = C-contiguous, "
        "F = np.array(order='F'), T = transposed view of a C-contiguous array of the transposed shape.  "
        "A case is non-trivial when at least one selected zone has a valid cell; "
        "distinct = distinct digests of the returned table / raster")
ASSUMPTIONS = [
    "NumPy backend only (Dask is C03's subject); CuPy not explorable here",
    "zone ids / values outside the alphabets, rasters with more than N cells, and shapes other than 1xN / 2x(N/2) "
    "are not explored (small-scope argument: stats are a function of the flattened (zone, value) sequence only)",
    "user reducers are symmetric functions of the zone's valid values (the order in which a zone's cells reach the "
    "reducer is unspecified), and are never called on an empty zone (the statement gives NaN there)",
    "zone_ids lists without repeated ids; nodata_values is a finite number or None (NaN as nodata is not generated)",
    "column order of the DataFrame and the order of the 'stats' coordinate are not asserted (matched by label); the "
    "row order is asserted (ascending ids, as stated)",
    "coords / attrs / dtype of the result are not part of the statement and are not asserted",
    "comparison tolerance rtol 1e-9 (atol 1e-12) against exact rational arithmetic on the small-integer / dyadic "
    "alphabets; rtol 1e-5 (atol 1e-6) when the values are float32 (the reducers then run in float32)",
    "near-nodata letters are float64 only (for nodata=0 the neighbours are the two smallest subnormals); with them "
    "std / var of values that differ by a few ulp are compared within the same rtol 1e-9 / atol 1e-12 (the absolute "
    "term covers the cancellation error of the two-pass variance: |error| <= ~2e-13 * max deviation)",
    "memory layouts: contiguous C / Fortran order and whole-array transposed views only (no negative or "
    "non-unit strides); rasters are handed to xarray.DataArray without copying, the layout is asserted by the check "
    "(counter layout:*)",
]
NAN, INF = float("nan"), float("inf")
ABSENT = 5

FAMILIES = {
    # name: (zone alphabet, value alphabet, zone dtype, value dtype)     simplest letters first
    "f8f8": ((0.0, 2.0, 7.0, NAN), (0.0, 1.0, 3.0, NAN), "f8", "f8"),
    "i8i8": ((0, 2, 7, -3), (0, 1, 3, 5), "i8", "i8"),
    "f8i4": ((0.0, 2.0, 7.0, NAN), (0, 1, 3, 5), "f8", "i4"),
    "i4f4": ((0, 2, 7, -3), (0.0, 1.0, 3.0, NAN), "i4", "f4"),
    "ext": ((0.0, 2.0, 7.0, -1.5, NAN, INF, -INF), (0.0, 1.0, 3.0, 5.0, NAN, INF), "f8", "f8"),
    # absent requested ids below / between / above the existing ones (see ABSENT_IDS)
    "f8": ((10.0, 20.0, 40.0), (1.0, 3.0), "f8", "f8"),
    "i8": ((10, 20, 40), (1, 3), "i8", "i8"),
    # memory layout spaces
    "bin": ((1.0, 2.0), (0.0, 1.0), "f8", "f8"),
    "pos": ((1.0, 2.0), ("1..N", "one-hot"), "f8", "f8"),
}


def near_letters(nd):
    """nodata itself, its float64 neighbours, values within 1e-9 absolute / 1e-6 relative of it, two ordinary letters."""
    nd = float(nd)
    rel = nd * (1 + 5e-6) if nd != 0 else -5e-9
    out = (nd, float(np.nextafter(nd, INF)), float(np.nextafter(nd, -INF)), nd + 5e-9, rel, 1.0, NAN)
    assert len({x for x in out if x == x}) == 6 and all(x != nd for x in out[1:5])
    return out


NEAR_NODATA = {"nd0": 0, "nd3": 3, "nd1k": 1000.0}
for _f, _nd in NEAR_NODATA.items():
    FAMILIES[_f] = ((0.0, 2.0, NAN), near_letters(_nd), "f8", "f8")
ABSENT_IDS = {"f8": (5, 25, 99), "i8": (5, 25, 99)}      # default: (ABSENT,)
MEM_ALL = [(a, b) for a in "CFT" for b in "CFT" if (a, b) != ("C", "C")]
MEM_CF = [(a, b) for a in "CF" for b in "CF" if (a, b) != ("C", "C")]
MEM_SHAPES = ((2, 3), (3, 2), (2, 4))


def laid_out(a, how):
    """Copy of the 2-D array `a` (same logical content) with the requested memory layout."""
    if how == "C":
        return a.copy(order="C")
    if how == "F":
        return np.array(a, order="F", copy=True)
    if how == "T":
        return a.T.copy(order="C").T
    raise KeyError(how)
NODATA = (None, 0, 3)
RTYPES = ("df", "xr")
SINGLES = [(n,) for n in oz.STAT_NAMES]
PAIRS = list(itertools.combinations(oz.STAT_NAMES, 2))
CUSTOM = tuple(oz.CUSTOM_REDUCERS)
# stats_funcs options: ("default" | "list" | "dict", names)
FUNC_OPTIONS = ([("default", oz.STAT_NAMES)] + [("list", s) for s in SINGLES] + [("list", p) for p in PAIRS]
                + [("list", tuple(reversed(oz.STAT_NAMES)))] + [("dict", CUSTOM)] + [("dict", (c,)) for c in CUSTOM])

# (kind, family, N values, layouts policy)
#   def   default parameters x return_type
#   par   zone_ids x nodata (DataFrame) + zone_ids x DataArray + nodata x DataArray   (one at a time + the stated pair)
#   parx  full product zone_ids x nodata x return_type
#   fun   every stats_funcs option x return_type;   fun1 = without the 21 pairs
#   near  nodata fixed by the family x return_type
#   gap   zone_ids (present + absent ids below / between / above) x return_type
#   memb / memp  layout pairs x return_type on the shapes of MEM_SHAPES with N cells
PLAN = {
    "quick": [("def", "f8f8", (1, 2, 3), "all"), ("def", "f8f8", (4,), "square"), ("def", "i8i8", (1, 2, 3), "all"),
              ("def", "f8i4", (1, 2, 3), "all"), ("def", "i4f4", (1, 2, 3), "all"),
              ("def", "ext", (1, 2, 3), "all"),
              ("parx", "f8f8", (1, 2), "all"), ("par", "f8f8", (3,), "all"), ("parx", "i8i8", (1, 2), "all"),
              ("fun", "f8f8", (1, 2), "all"), ("fun1", "f8f8", (3,), "all"), ("fun", "i8i8", (2,), "all"),
              ("near", "nd0", (1, 2, 3), "all"), ("near", "nd3", (1, 2, 3), "all"), ("near", "nd1k", (1, 2, 3), "all"),
              ("gap", "f8", (1, 2, 3), "all"), ("gap", "i8", (2,), "all"),
              ("memb", "bin", (6,), MEM_SHAPES), ("memp", "pos", (6, 8), MEM_SHAPES)],
    "thorough": [("def", "f8f8", (1, 2, 3, 4, 5), "all"), ("def", "i8i8", (1, 2, 3, 4), "all"),
                 ("def", "f8i4", (1, 2, 3, 4), "all"), ("def", "i4f4", (1, 2, 3, 4), "all"),
                 ("def", "ext", (1, 2, 3), "all"),
                 ("parx", "f8f8", (1, 2, 3), "all"), ("par", "f8f8", (4,), "square"),
                 ("parx", "i8i8", (1, 2, 3), "all"),
                 ("fun", "f8f8", (1, 2, 3), "all"), ("fun1", "f8f8", (4,), "square"), ("fun", "i8i8", (1, 2, 3), "all"),
                 ("near", "nd0", (1, 2, 3), "all"), ("near", "nd3", (1, 2, 3), "all"),
                 ("near", "nd1k", (1, 2, 3), "all"),
                 ("gap", "f8", (1, 2, 3, 4), "all"), ("gap", "i8", (1, 2, 3), "all"),
                 ("memb", "bin", (6,), MEM_SHAPES), ("memp", "pos", (6, 8), MEM_SHAPES)],
}
FUN1 = [f for f in FUNC_OPTIONS[1:] if not (f[0] == "list" and len(f[1]) == 2)]


def layouts(n, policy="all"):
    """Pad-free shapes: 1xN and, for even N, 2x(N/2); policy 'square' keeps only the 2-row one; a tuple of
    shapes keeps those with N cells."""
    if not isinstance(policy, str):
        return [tuple(s) for s in policy if s[0] * s[1] == n]
    out = [(1, n)]
    if n % 2 == 0:
        out.append((2, n // 2))
    return out[-1:] if policy == "square" else out


BOUNDS = {t: {"spaces": [dict(kind=k, family=f, zone_alphabet=[str(x) for x in FAMILIES[f][0]],
                              value_alphabet=[str(x) for x in FAMILIES[f][1]], dtypes=list(FAMILIES[f][2:]),
                              cells=list(ns), layouts={n: layouts(n, pol) for n in ns}) for k, f, ns, pol in plan],
              "zone_ids": "None + ordered sub-lists of length 0..3 of (present ids + absent id 5); gap spaces: "
                          "present ids (from 10, 20, 40) + absent ids 5, 25, 99",
              "nodata_values": [str(x) for x in NODATA] + ["near spaces: %s" % sorted(NEAR_NODATA.values())],
              "stats_funcs_options": len(FUNC_OPTIONS), "return_type": list(RTYPES),
              "memory_layouts": {"memb": ["z%s,v%s" % m for m in MEM_CF], "memp": ["z%s,v%s" % m for m in MEM_ALL],
                                 "memp_value_rasters": "1..N in flatten order + the N one-hot rasters"},
              "trimmed": ("def_f8f8_N4 runs on the 2x2 layout only (the 1xN layouts stay at N <= 3 and in every other "
                          "family) to pay for the near / gap / mem spaces" if t == "quick" else "nothing")}
          for t, plan in PLAN.items()}


def _fmt(a):
    return repr(a.tolist()).replace(" ", "")


class StatsSpace(Space):
    def __init__(self, kind, fam, n, policy):
        self.kind, self.fam, self.n = kind, fam, n
        self.za, self.va, self.zdt, self.vdt = FAMILIES[fam]
        self.name = "%s_%s_N%d" % (kind, fam, n)
        self.lay = layouts(n, policy)
        self.nzseq = len(self.za) ** n
        self.nvseq = n + 1 if kind == "memp" else len(self.va) ** n
        self._vc = {}
        self.rtol, self.atol = (1e-5, 1e-6) if "f4" in (self.zdt, self.vdt) else (1e-9, 1e-12)
        self.pres = [self._present(zi) for zi in range(self.nzseq)]
        self.nvar = [len(self.variants(ids)) for ids in self.pres]
        self.sum = SumSpace([(zi, self.nvar[zi] * self.nvseq) for zi in range(self.nzseq)])
        self.size = self.sum.size
        self.weight = {"def": 1.0, "par": 0.9, "parx": 0.9, "fun": 0.5, "fun1": 0.5}.get(kind, 0.9) * n

    # ---- enumeration ---------------------------------------------------------------------------------
    def zseq(self, zi):
        return [self.za[i] for i in unrank_product(zi, [len(self.za)] * self.n)]

    def vseq(self, vi):
        if self.kind == "memp":     # position rasters: 1..N in flatten order, then the one-hot rasters
            return [float(i + 1) for i in range(self.n)] if vi == 0 else [float(i == vi - 1) for i in range(self.n)]
        return [self.va[i] for i in unrank_product(vi, [len(self.va)] * self.n)]

    def _present(self, zi):
        return tuple(sorted({z for z in self.zseq(zi) if oz.finite(z)}))

    def variants(self, ids):
        """(shape, zone_ids, nodata, stats_funcs option, return type[, (zones layout, values layout)]) settings for a
        raster whose zones are `ids`."""
        if ids in self._vc:
            return self._vc[ids]
        dflt = FUNC_OPTIONS[0]
        if self.kind == "def":
            v = [(s, None, None, dflt, rt) for s in self.lay for rt in RTYPES]
        elif self.kind == "near":
            v = [(s, None, NEAR_NODATA[self.fam], dflt, rt) for s in self.lay for rt in RTYPES]
        elif self.kind == "gap":
            absent = [float(a) if self.zdt.startswith("f") else a for a in ABSENT_IDS[self.fam]]
            zl = [None] + ordered_sublists(list(ids) + absent, 3)
            v = [(s, z, None, dflt, rt) for s in self.lay for z in zl for rt in RTYPES]
        elif self.kind in ("memb", "memp"):
            v = [(s, None, None, dflt, rt, m) for s in self.lay for m in (MEM_CF if self.kind == "memb" else MEM_ALL)
                 for rt in RTYPES]
        elif self.kind in ("par", "parx"):
            absent = float(ABSENT) if self.zdt.startswith("f") else ABSENT
            zl = [None] + ordered_sublists(list(ids) + [absent], 3)
            if self.kind == "parx":
                v = [(s, z, nd, dflt, rt) for s in self.lay for z in zl for nd in NODATA for rt in RTYPES]
            else:
                v = []
                for s in self.lay:
                    v += [(s, z, nd, dflt, "df") for z in zl for nd in NODATA]
                    v += [(s, z, None, dflt, "xr") for z in zl]
                    v += [(s, None, nd, dflt, "xr") for nd in NODATA[1:]]
        else:
            opts = FUNC_OPTIONS[1:] if self.kind == "fun" else FUN1
            v = [(s, None, None, f, rt) for s in self.lay for f in opts for rt in RTYPES]
        self._vc[ids] = v
        return v

    def case(self, rank):
        zi, local = self.sum.locate(rank)
        vi, k = divmod(local, self.nvar[zi])
        var = self.variants(self.pres[zi])[k]
        shape, zone_ids, nodata, funcs, rt = var[:5]
        z = np.array(self.zseq(zi), dtype=self.zdt).reshape(shape)
        v = np.array(self.vseq(vi), dtype=self.vdt).reshape(shape)
        return z, v, zone_ids, nodata, funcs, rt, (var[5] if len(var) > 5 else ("C", "C"))

    def describe(self, rank):
        z, v, zone_ids, nodata, funcs, rt, mem = self.case(rank)
        d = {"zones": z, "values": v, "zone_ids": None if zone_ids is None else list(zone_ids),
             "nodata_values": nodata, "stats_funcs": [funcs[0], list(funcs[1])],
             "return_type": "pandas.DataFrame" if rt == "df" else "xarray.DataArray"}
        if mem != ("C", "C"):
            d["memory_layout"] = {"zones": mem[0], "values": mem[1],
                                  "legend": "C = C-contiguous, F = np.array(a, order='F'), T = a.T.copy().T (transposed view)"}
        return d

    # ---- exploration ---------------------------------------------------------------------------------
    def setup(self):
        import xarray as xr
        from xrspatial import zonal
        self.stats, self.DataArray = zonal.stats, xr.DataArray
        z = xr.DataArray(np.array([[0.0, 2.0]]), dims=("y", "x"))
        zonal.stats(z, z)           # JIT warm-up of _strides

    def run(self, lo, hi, out):
        for rank in range(lo, hi):
            self.one(rank, out)

    def one(self, rank, out):
        z, v, zone_ids, nodata, funcs, rt, mem = self.case(rank)
        names = funcs[1]
        kw = {}
        if zone_ids is not None:
            kw["zone_ids"] = list(zone_ids)
        if nodata is not None:
            kw["nodata_values"] = nodata
        if funcs[0] == "list":
            kw["stats_funcs"] = list(names)
        elif funcs[0] == "dict":
            kw["stats_funcs"] = {nm: oz.CUSTOM_REDUCERS[nm][0] for nm in names}
        if rt == "xr":
            kw["return_type"] = "xarray.DataArray"
        ident = "z=%s|v=%s|%s%s|zone_ids=%s|nodata=%s|stats=%s|rt=%s" % (
            _fmt(z), _fmt(v), self.zdt, self.vdt, None if zone_ids is None else list(zone_ids), nodata,
            "default" if funcs[0] == "default" else funcs[0] + ":" + ",".join(names), rt)
        ident = ident.replace(" ", "")
        zin, vin = laid_out(z, mem[0]), laid_out(v, mem[1])
        if mem != ("C", "C"):
            ident += "|mem=z%s,v%s" % mem
            for a, how in ((zin, mem[0]), (vin, mem[1])):       # the layout really is the one named
                assert a.flags.c_contiguous == (how == "C") and a.flags.f_contiguous == (how != "C"), (how, a.flags)
                assert a.flags.owndata == (how != "T")
            out.count("layout:z%s,v%s" % mem)
        cause = "neginf-zone" if bool(np.any(np.isneginf(z))) else "unexplained"

        def bad(symptom, msg, observed=None, expected=None):
            out.count("viol:%s/%s" % (cause, symptom))
            out.violation(rank, "C02|stats/%s/%s|%s" % (cause, symptom, ident), "zonal.stats(%s): %s" % (ident, msg),
                          case=self.describe(rank), observed=observed, expected=expected)

        try:
            zda, vda = self.DataArray(zin, dims=("y", "x")), self.DataArray(vin, dims=("y", "x"))
            assert zda.data.strides == zin.strides and vda.data.strides == vin.strides   # handed over without a copy
            res = self.stats(zones=zda, values=vda, **kw)
        except Exception as e:  # in-domain input: an exception is a violation
            out.case(outcome=("exc", type(e).__name__), nontrivial=False, calls=1)
            out.ok()
            return bad("exception", "raised %s: %s" % (type(e).__name__, str(e)[:300]), observed=repr(e))

        if rt == "df":
            ids, tab = oz.stats_table(z, v, names, zone_ids, nodata)
            cols = [str(c) for c in res.columns]
            arr = res.to_numpy(dtype=float)
            nontrivial = any(x == x for x in tab[names[0]]) if names else False
            out.case(outcome=bytes64(arr.tobytes() + repr(cols).encode()), nontrivial=nontrivial, calls=1)
            out.ok()
            expected = {"zone": ids, **tab}
            if "zone" not in cols or any(nm not in cols for nm in names) or arr.shape[1] != len(names) + 1:
                return bad("format", "columns %r, expected 'zone' + %r" % (cols, list(names)), res, expected)
            got = arr[:, cols.index("zone")].tolist()
            if got != ids:
                return bad("rows", "rows are zones %r, expected exactly %r (ascending ids present%s)"
                           % (got, ids, "" if zone_ids is None else " and requested"), res, expected)
            for nm in names:
                col = arr[:, cols.index(nm)].tolist()
                for zid, o, e in zip(ids, col, tab[nm]):
                    if not oz.close(o, e, self.rtol, self.atol):
                        return bad("values", "%s of zone %r is %r, expected %r (over exactly the valid cells of the zone)"
                                   % (nm, zid, o, e), res, expected)
            if nontrivial and len(ids) >= 2 and out.want_sample():
                out.sample({"call": self.describe(rank), "result": res})
        else:
            ids, ras = oz.stats_raster(z, v, names, zone_ids, nodata)
            o = np.asarray(res.values, dtype=float)
            try:
                labels = [str(s) for s in res["stats"].values.tolist()]
            except Exception:
                labels = None
            nontrivial = any(x == x for row in ras[names[0]] for x in row) if names else False
            out.case(outcome=bytes64(o.tobytes() + repr(labels).encode()), nontrivial=nontrivial, calls=1)
            out.ok()
            if labels is None or sorted(labels) != sorted(names) or o.shape != (len(names),) + z.shape:
                return bad("format", "result has shape %r / stats labels %r, expected %r / %r"
                           % (o.shape, labels, (len(names),) + z.shape, list(names)), res, ras)
            for nm in names:
                got = o[labels.index(nm)].tolist()
                exp = ras[nm]
                for y in range(z.shape[0]):
                    for x in range(z.shape[1]):
                        if not oz.close(got[y][x], exp[y][x], self.rtol, self.atol):
                            return bad("raster", "%s raster cell (%d,%d) (zone %r) is %r, expected %r"
                                       % (nm, y, x, z[y, x].item(), got[y][x], exp[y][x]), res, ras)
            if nontrivial and len(ids) >= 2 and out.want_sample():
                out.sample({"call": self.describe(rank), "result": o})


def build(tier):
    return [StatsSpace(kind, fam, n, pol) for kind, fam, ns, pol in PLAN[tier] for n in ns]
