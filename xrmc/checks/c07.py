"""C07 — chunked proximity / allocation / direction equal the whole-raster (NumPy) result.

E1: every chunk decomposition x every layout with <= 2 targets x max_distance grid (halo widths from 0
cells to the raster's own size, the single-block fallback, inf) x functions / metrics / cell sizes, run in
interpreted mode (the same sources under NUMBA_DISABLE_JIT=1: the per-call closure costs 1.3 s to compile)
plus a compiled conformance slice.  E3: controlled scheduler + write monitor on every compute,
deviation-bounded schedule enumeration on a 2-block graph."""
import itertools

import numpy as np

from ..core.rasters import dataarray
from ..core.space import Space
from ..core.spaces import chunkings, unrank_product
from ..oracles import proximity as orc

PROPERTY = "C07"
LEVEL = "model_checking"
RULE = ("case = (function, target layout, coordinate system, metric, max_distance, chunking) computed on the Dask backend "
        "under the controlled scheduler and compared with the same call on the NumPy backend (values 1e-6, NaN pattern "
        "exact; allocation/direction may name any of several equidistant nearest targets); non-trivial = >= 2 chunks and "
        ">= 1 target; distinct = digest of (chunks, output)")
ASSUMPTIONS = [
    "domain of the statement: halo (in cells) <= raster height/width; larger halos raise inside Dask and are not generated",
    "layouts with <= 2 targets (thorough: <= 3 on 3x4): with more targets the ported GDAL sweep is itself inexact "
    "(see C06 known finding), so chunked and whole-raster sweeps may legitimately name different real targets",
    "cells with two or more nearest targets at equal distance (1e-9): allocation/direction may differ between the chunked "
    "and the whole-raster sweep; any target at the minimal distance is accepted",
    "large enumerations run the library sources under the CPython interpreter (NUMBA_DISABLE_JIT=1); a compiled slice "
    "is compared case by case (traces validated against the compiled implementation)",
    "GREAT_CIRCLE on Dask: the halo is computed from the cell size in degrees while max_distance is in metres, so only small "
    "max_distance values (halo within the raster) and the single-block fallback are in the domain; both are exercised",
]
NAN = float("nan")
SHAPE = (3, 4)
FUNCS = ("proximity", "allocation", "direction")

COORDS = {
    "unit_desc": (np.array([2.0, 1.0, 0.0]), np.array([0.0, 1.0, 2.0, 3.0])),
    "unit_asc": (np.array([0.0, 1.0, 2.0]), np.array([0.0, 1.0, 2.0, 3.0])),
    "nonsquare": (np.array([10.0, 8.0, 6.0]), np.array([-1.0, -0.5, 0.0, 0.5])),     # cellsize_x 0.5, cellsize_y 2
    "xdesc_yasc": (np.array([0.0, 1.5, 3.0]), np.array([9.0, 6.0, 3.0, 0.0])),      # x descending, y ascending, 3 x 1.5 cells
    # projected-metre coordinates: large magnitude, small cells, values not representable in float32
    "utm_like": (4649776.25 - 0.3 * np.arange(3), 436000.15 + 0.3 * np.arange(4)),
    # degrees for GREAT_CIRCLE (max_distance is in metres: a few metres reach only the target itself, the halo is still > 0)
    "lonlat_deg": (np.array([41.0, 40.0, 39.0]), np.array([-1.0, 0.0, 1.0, 2.0])),
}
BOUNDS = {
    "quick": {"raster": [3, 4], "chunkings": 32, "max_targets": 2, "max_distance_cells": [0.4, 1, 1.4, 1.5, 2, 2.5, "extent", "inf"],
              "schedule_deviations": 1},
    "thorough": {"raster": [3, 4], "chunkings": 32, "max_targets": 3, "extra_raster": [4, 4], "schedule_deviations": 1},
}


def layouts(shape, maxt):
    n = shape[0] * shape[1]
    out = []
    for k in range(1, maxt + 1):
        out.extend(itertools.combinations(range(n), k))
    return out


def layout_array(shape, cells):
    a = np.zeros(shape)
    for i, c in enumerate(cells):
        a.flat[c] = 10.0 + c          # value unique to the cell
    return a


def halo_ok(shape, ys, xs, md):
    cy = abs(ys[1] - ys[0])
    cx = abs(xs[1] - xs[0])
    return int(md / cy + 0.5) <= shape[0] and int(md / cx + 0.5) <= shape[1]


class _Base(Space):
    mode = "interp"

    def setup(self):
        import dask
        import dask.array as da
        import xrspatial
        from ..sched import dask_explorer as dx
        self.dask, self.da, self.dx = dask, da, dx
        self.fn = {"proximity": xrspatial.proximity, "allocation": xrspatial.allocation, "direction": xrspatial.direction}
        self.refcache = {}
        self.tabcache = {}

    def tables(self, cname, metric, shape):
        k = (cname, metric, shape)
        if k not in self.tabcache:
            ys, xs = self.coords(cname, shape)
            self.tabcache[k] = orc.pair_tables(ys, xs, metric)
        return self.tabcache[k]

    def coords(self, cname, shape):
        ys, xs = COORDS[cname]
        if shape != SHAPE:   # extend the progression
            ys = ys[0] + (ys[1] - ys[0]) * np.arange(shape[0])
            xs = xs[0] + (xs[1] - xs[0]) * np.arange(shape[1])
        return ys, xs

    def reference(self, f, a, cname, kw, key):
        if key not in self.refcache:
            if len(self.refcache) > 3000:
                self.refcache.clear()
            ys, xs = self.coords(cname, a.shape)
            self.refcache[key] = np.asarray(self.fn[f](dataarray(a.copy(), ys, xs), **kw).values)
        return self.refcache[key]

    def dask_call(self, f, a, cname, kw, ch, prefix=(), monitor="deps"):
        ys, xs = self.coords(cname, a.shape)
        s = self.dx.ControlledScheduler(prefix, monitor)
        with self.dask.config.set(scheduler=s.get):
            r = self.fn[f](dataarray(a.copy(), ys, xs, chunks=ch), **kw)
            lazy = isinstance(r.data, self.da.Array)
            val = np.asarray(r.data.compute()) if lazy else np.asarray(r.data)
        return val, lazy, s

    def compare(self, f, a, cname, metric, ref, val):
        """-> (ok, ties, msg)"""
        if ref.shape != val.shape:
            return False, 0, "shape differs"
        nr, nv = np.isnan(ref), np.isnan(val)
        if not np.array_equal(nr, nv):
            return False, 0, "NaN pattern differs from the NumPy result"
        close = np.isclose(val, ref, rtol=1e-6, atol=1e-6, equal_nan=True)
        if close.all():
            return True, 0, ""
        if f == "proximity":
            return False, 0, "distance differs from the NumPy result at %s" % (np.argwhere(~close)[0].tolist(),)
        # allocation / direction: accept another target at the same minimal distance
        D, B = self.tables(cname, metric, a.shape)
        tm = orc.target_mask(a).ravel()
        ties = 0
        for r, c in np.argwhere(~close):
            i = r * a.shape[1] + c
            d = np.where(tm, D[i], np.inf)
            near = np.flatnonzero(np.abs(d - d.min()) <= 1e-9 * max(1.0, d.min()))
            if len(near) < 2:
                return False, ties, "%s differs from the NumPy result at %s and the nearest target is unique" % (f, [int(r), int(c)])
            if f == "allocation":
                okc = any(abs(val[r, c] - a.flat[j]) < 1e-6 for j in near)
            else:
                okc = any(abs(val[r, c] - B[i, j]) < 1e-3 for j in near)
            if not okc:
                return False, ties, "%s at %s names no nearest target" % (f, [int(r), int(c)])
            ties += 1
        return True, ties, ""

    def one(self, out, rank, f, a, cname, metric, md, ch, cells):
        kw = {"distance_metric": metric}
        if md is not None:
            kw["max_distance"] = md
        refkey = (f, a.tobytes(), a.shape, cname, metric, md)
        nblocks = len(ch[0]) * len(ch[1])
        case = {"function": f, "targets": [divmod(c, a.shape[1]) for c in cells], "coords": cname, "metric": metric,
                "max_distance": md, "chunks": ch, "shape": a.shape}
        key = "c07|%s|%dx%d|targets=%s|%s|%s|md=%s|chunks=%s" % (f, a.shape[0], a.shape[1], list(cells), cname, metric, md, ch)
        ref = self.reference(f, a, cname, kw, refkey)
        try:
            val, lazy, s = self.dask_call(f, a, cname, kw, ch)
        except Exception as e:
            out.case(outcome=("exc", type(e).__name__), nontrivial=nblocks > 1, calls=1)
            out.violation(rank, key, "Dask-backed %s raises %s: %s" % (f, type(e).__name__, str(e)[:200]), case=case)
            return
        out.calls(s.tasks)
        out.count("tasks_executed", s.tasks)
        ok, ties, msg = self.compare(f, a, cname, metric, ref, val)
        out.case(outcome=(f, str(ch), val), nontrivial=nblocks > 1 and len(cells) > 0, calls=1)
        out.ok()
        out.tie(ties)
        if not lazy:
            out.violation(rank, key + "|eager", "result is not Dask-backed before compute", case=case)
        if not ok:
            out.violation(rank, key, msg, case=case, observed=val, expected=ref)
        if s.impure:
            out.count("impure_tasks", len(s.impure))
            out.note("impure task: %s" % (s.impure[0],))
        if out.want_sample() and ok and nblocks > 2 and len(cells) == 2:
            out.sample(dict(case, tasks=s.tasks, result=val))


class HaloSpace(_Base):
    """proximity: every chunking x every <= k-target layout x every max_distance of the grid (one coordinate system)."""

    def __init__(self, tier, name, shape, funcs, cname, metric, mds, maxt, ch_stride=1):
        self.shape, self.funcs, self.cname, self.metric = shape, funcs, cname, metric
        ys, xs = COORDS[cname]
        self.mds = [m for m in mds if m is None or m == float("inf") or halo_ok(shape, ys, xs, m) or m >= 1e6]
        self.lay = layouts(shape, maxt)
        self.chs = chunkings(*shape)[::ch_stride]
        self.name = name
        self.radices = [len(funcs), len(self.lay), len(self.mds), len(self.chs)]
        self.size = int(np.prod(self.radices))
        self.weight = 2.0

    def describe(self, rank):
        fi, li, mi, ci = unrank_product(rank, self.radices)
        return {"function": self.funcs[fi], "targets": [divmod(c, self.shape[1]) for c in self.lay[li]],
                "max_distance": self.mds[mi], "chunks": self.chs[ci], "coords": self.cname, "metric": self.metric}

    def run(self, lo, hi, out):
        for rank in range(lo, hi):
            fi, li, mi, ci = unrank_product(rank, self.radices)
            cells = self.lay[li]
            a = layout_array(self.shape, cells)
            self.one(out, rank, self.funcs[fi], a, self.cname, self.metric, self.mds[mi], self.chs[ci], cells)


class NanSpace(_Base):
    """NaN cells in the raster (never targets) next to chunk borders."""

    def __init__(self, tier):
        self.lay = layouts(SHAPE, 1) if tier == "thorough" else [(0,), (5,), (11,)]
        self.chs = chunkings(*SHAPE)[1::3] if tier == "thorough" else chunkings(*SHAPE)[1::6]
        self.mds = [1.0, 1.5, None] if tier == "thorough" else [1.0, None]
        self.name = "nan_cells_3x4"
        self.radices = [len(FUNCS), len(self.lay), 12, len(self.mds), len(self.chs)]
        self.size = int(np.prod(self.radices))

    def describe(self, rank):
        fi, li, ni, mi, ci = unrank_product(rank, self.radices)
        return {"function": FUNCS[fi], "target": self.lay[li], "nan_cell": ni, "max_distance": self.mds[mi], "chunks": self.chs[ci]}

    def run(self, lo, hi, out):
        for rank in range(lo, hi):
            fi, li, ni, mi, ci = unrank_product(rank, self.radices)
            cells = self.lay[li]
            if ni in cells:
                out.case(outcome=None, nontrivial=False, calls=0)
                continue
            a = layout_array(SHAPE, cells)
            a.flat[ni] = NAN
            self.one(out, rank, FUNCS[fi], a, "unit_desc", "EUCLIDEAN", self.mds[mi], self.chs[ci], cells)


class TargetValuesSpace(_Base):
    """explicit target_values (0 among them: the raster's background and any zero-filled halo become targets) x chunkings."""

    def __init__(self, tier):
        self.tvs = [[0.0], [0.0, 12.0], [15.0], [12.0, 15.0]]
        self.lay = [(2, 5), (0, 11), (5,), (3, 8)]          # cells carrying 10+cell; everything else is 0
        self.mds = [1.0, 1.5, 2.5, None]
        self.chs = chunkings(*SHAPE)[1::2] if tier == "quick" else chunkings(*SHAPE)
        self.cfgs = ["unit_desc", "unit_asc"]
        self.radices = [len(FUNCS), len(self.tvs), len(self.lay), len(self.mds), len(self.cfgs), len(self.chs)]
        self.name = "explicit_target_values_3x4"
        self.size = int(np.prod(self.radices))
        self.weight = 2.0

    def describe(self, rank):
        fi, ti, li, mi, gi, ci = unrank_product(rank, self.radices)
        return {"function": FUNCS[fi], "target_values": self.tvs[ti], "nonzero_cells": self.lay[li], "max_distance": self.mds[mi],
                "coords": self.cfgs[gi], "chunks": self.chs[ci]}

    def run(self, lo, hi, out):
        for rank in range(lo, hi):
            fi, ti, li, mi, gi, ci = unrank_product(rank, self.radices)
            a = layout_array(SHAPE, self.lay[li])
            f, tv, md, cname, ch = FUNCS[fi], self.tvs[ti], self.mds[mi], self.cfgs[gi], self.chs[ci]
            kw = {"target_values": list(tv)}
            if md is not None:
                kw["max_distance"] = md
            ys, xs = self.coords(cname, SHAPE)
            ref = np.asarray(self.fn[f](dataarray(a.copy(), ys, xs), **kw).values)
            key = "c07|tv|%s|cells=%s|tv=%s|md=%s|%s|chunks=%s" % (f, list(self.lay[li]), tv, md, cname, ch)
            try:
                s = self.dx.ControlledScheduler((), "deps")
                with self.dask.config.set(scheduler=s.get):
                    val = np.asarray(self.fn[f](dataarray(a.copy(), ys, xs, chunks=ch), **kw).data.compute())
            except Exception as e:
                out.case(outcome=("exc", type(e).__name__), calls=1)
                out.violation(rank, key, "Dask-backed %s raises %r" % (f, e), case=self.describe(rank))
                continue
            out.calls(s.tasks)
            nr, nv = np.isnan(ref), np.isnan(val)
            ok = np.array_equal(nr, nv) and bool(np.allclose(val[~nv], ref[~nr], rtol=1e-6, atol=1e-6))
            ties = 0
            if not ok and f != "proximity" and np.array_equal(nr, nv):
                # equidistant targets: several cells carry the same target value 0, any nearest one may be named
                D, B = self.tables(cname, "EUCLIDEAN", SHAPE)
                tm = orc.target_mask(a, tv).ravel()
                ok = True
                for r, c in np.argwhere(~np.isclose(val, ref, rtol=1e-6, atol=1e-6, equal_nan=True)):
                    i = r * SHAPE[1] + c
                    d = np.where(tm, D[i], np.inf)
                    near = np.flatnonzero(np.abs(d - d.min()) <= 1e-9 * max(1.0, d.min()))
                    good = (any(abs(val[r, c] - a.flat[j]) < 1e-6 for j in near) if f == "allocation"
                            else any(abs(val[r, c] - B[i, j]) < 1e-3 for j in near))
                    if len(near) < 2 or not good:
                        ok = False
                        break
                    ties += 1
            out.case(outcome=(f, str(ch), val), nontrivial=len(ch[0]) * len(ch[1]) > 1, calls=1)
            out.ok()
            out.tie(ties)
            if not ok:
                out.violation(rank, key, "%s with target_values=%s differs from the NumPy result" % (f, tv), case=self.describe(rank),
                              observed=val, expected=ref)


class SignedTargetsSpace(_Base):
    """default targets of both signs (values that cancel inside a chunk: +v and -v) x chunkings x max_distance."""

    def __init__(self, tier):
        self.lay = [((0, 5.0), (1, -5.0)), ((2, 5.0), (9, -5.0)), ((5, 3.0), (6, -3.0)), ((0, 4.0), (11, -4.0)), ((1, 2.0), (2, -1.0), (3, -1.0)),
                    ((4, -7.0),), ((7, 2.5), (8, -2.5), (10, 1.0))]
        self.mds = [1.0, 2.5, None]
        self.funcs = ("proximity", "allocation")
        self.chs = chunkings(*SHAPE)[1::2] if tier == "quick" else chunkings(*SHAPE)
        self.radices = [len(self.funcs), len(self.lay), len(self.mds), len(self.chs)]
        self.name = "signed_default_targets_3x4"
        self.size = int(np.prod(self.radices))
        self.weight = 2.0

    def describe(self, rank):
        fi, li, mi, ci = unrank_product(rank, self.radices)
        return {"function": self.funcs[fi], "cells(value)": self.lay[li], "max_distance": self.mds[mi], "chunks": self.chs[ci]}

    def run(self, lo, hi, out):
        for rank in range(lo, hi):
            fi, li, mi, ci = unrank_product(rank, self.radices)
            a = np.zeros(SHAPE)
            for c, v in self.lay[li]:
                a.flat[c] = v
            cells = tuple(c for c, _ in self.lay[li])
            # distinct |values| are not guaranteed: allocation ties are resolved through the generic comparison
            self.one(out, rank, self.funcs[fi], a, "unit_desc", "EUCLIDEAN", self.mds[mi], self.chs[ci], cells)


NONUNIFORM = {
    "y_stretched": (np.array([0.0, 1.0, 3.0]), np.array([0.0, 1.0, 2.0, 3.0]), "x"),       # chunk only the evenly spaced axis
    "x_stretched": (np.array([2.0, 1.0, 0.0]), np.array([0.0, 0.5, 1.5, 3.5]), "y"),
}


class NonUniformCoordsSpace(_Base):
    """coordinate axes that are not evenly spaced (the NumPy path uses the true coordinates): with a finite max_distance only
    the evenly spaced axis is chunked (the halo is sized from the mean cell size); with unbounded distance every chunking."""

    def __init__(self, tier):
        self.lay = layouts(SHAPE, 1) + [(2, 9), (0, 11)]
        self.cfg = [("y_stretched", 1.5), ("y_stretched", None), ("x_stretched", 1.0), ("x_stretched", None)]
        self.chs = chunkings(*SHAPE)
        self.radices = [len(FUNCS), len(self.lay), len(self.cfg), len(self.chs)]
        self.name = "non_uniform_coordinates_3x4"
        self.size = int(np.prod(self.radices))
        self.weight = 2.0

    def coords(self, cname, shape):
        if cname in NONUNIFORM:
            return NONUNIFORM[cname][0], NONUNIFORM[cname][1]
        return super().coords(cname, shape)

    def describe(self, rank):
        fi, li, gi, ci = unrank_product(rank, self.radices)
        return {"function": FUNCS[fi], "targets": self.lay[li], "coords": self.cfg[gi][0], "max_distance": self.cfg[gi][1], "chunks": self.chs[ci]}

    def run(self, lo, hi, out):
        for rank in range(lo, hi):
            fi, li, gi, ci = unrank_product(rank, self.radices)
            cname, md = self.cfg[gi]
            ch = self.chs[ci]
            free_axis = NONUNIFORM[cname][2]
            if md is not None and ((free_axis == "x" and len(ch[0]) > 1) or (free_axis == "y" and len(ch[1]) > 1)):
                out.case(outcome=None, nontrivial=False, calls=0)
                out.count("skipped:finite max_distance with the stretched axis chunked (halo from mean cell size)")
                continue
            cells = self.lay[li]
            self.one(out, rank, FUNCS[fi], layout_array(SHAPE, cells), cname, "EUCLIDEAN", md, ch, cells)


class JointComputeSpace(_Base):
    """several lazy proximity-family results (different functions / parameters / rasters with different coordinates)
    computed together in ONE graph: each must still equal its own NumPy result."""

    def __init__(self, tier):
        self.chs = [((3,), (2, 2)), ((1, 2), (4,)), ((2, 1), (1, 3)), ((1, 1, 1), (2, 2))]
        self.groups = ["functions_same_raster", "max_distance_same_halo", "target_values", "metrics", "different_coordinates"]
        self.name = "joint_compute_proximity_family"
        self.size = len(self.groups) * len(self.chs)
        self.grain = 2
        self.weight = 10.0

    def describe(self, rank):
        gi, ci = divmod(rank, len(self.chs))
        return {"group": self.groups[gi], "chunks": self.chs[ci], "computed": "together in one dask.compute"}

    def variants(self, group):
        a = layout_array(SHAPE, (2, 9))
        P, A, Dr = self.fn["proximity"], self.fn["allocation"], self.fn["direction"]
        if group == "functions_same_raster":
            return [("unit_desc", a, P, dict(max_distance=1.5)), ("unit_desc", a, A, dict(max_distance=1.5)),
                    ("unit_desc", a, Dr, dict(max_distance=1.5))]
        if group == "max_distance_same_halo":       # 2.0 and 2.4 give the same halo depth on unit cells
            return [("unit_desc", a, P, dict(max_distance=2.0)), ("unit_desc", a, P, dict(max_distance=2.4)),
                    ("unit_desc", a, P, dict(max_distance=1.6))]
        if group == "target_values":
            return [("unit_desc", a, P, dict(max_distance=2.0, target_values=[12.0])),
                    ("unit_desc", a, P, dict(max_distance=2.0, target_values=[19.0])), ("unit_desc", a, P, dict(max_distance=2.0))]
        if group == "metrics":
            return [("unit_desc", a, P, dict(max_distance=2.0)), ("unit_desc", a, P, dict(max_distance=2.0, distance_metric="MANHATTAN"))]
        return [("unit_desc", a, P, dict(max_distance=2.0)), ("nonsquare", a, P, dict(max_distance=2.0)),
                ("xdesc_yasc", a, P, dict(max_distance=3.0)), ("unit_asc", a, Dr, dict(max_distance=2.0))]

    def run(self, lo, hi, out):
        for rank in range(lo, hi):
            gi, ci = divmod(rank, len(self.chs))
            group, ch = self.groups[gi], self.chs[ci]
            vs = self.variants(group)
            refs = []
            for cname, a, f, kw in vs:
                ys, xs = self.coords(cname, SHAPE)
                refs.append(np.asarray(f(dataarray(a.copy(), ys, xs), **kw).values))
            key = "c07|joint|%s|chunks=%s" % (group, ch)
            try:
                s = self.dx.ControlledScheduler((), "deps")
                with self.dask.config.set(scheduler=s.get):
                    shared = {}
                    lazies = []
                    for cname, a, f, kw in vs:
                        if cname not in shared:       # the SAME Dask-backed DataArray object is reused within a coordinate system
                            ys, xs = self.coords(cname, SHAPE)
                            shared[cname] = dataarray(a.copy(), ys, xs, chunks=ch)
                        lazies.append(f(shared[cname], **kw))
                    vals = self.dask.compute(*[z.data for z in lazies])
            except Exception as e:
                out.case(outcome=("exc", type(e).__name__), calls=1)
                out.violation(rank, key + "|raises", "joint compute raises %r" % (e,), case=self.describe(rank))
                continue
            out.calls(s.tasks)
            for i, (val, ref) in enumerate(zip(vals, refs)):
                val = np.asarray(val)
                out.case(outcome=(group, i, str(ch), val), nontrivial=True, calls=1)
                out.ok()
                nr, nv = np.isnan(ref), np.isnan(val)
                if not (np.array_equal(nr, nv) and np.allclose(val[~nv], ref[~nr], rtol=1e-6, atol=1e-6)):
                    out.violation(rank, key + "|variant=%d" % i, "computed together with other proximity-family results, result %d of group "
                                  "%s no longer equals its own NumPy result" % (i, group), case=dict(self.describe(rank), variant=i),
                                  observed=val, expected=ref)
            if out.want_sample():
                out.sample(dict(self.describe(rank), results=len(vs), tasks=s.tasks))


class ScheduleSpace(_Base):
    def __init__(self, tier):
        self.items = [("proximity", 1.5), ("allocation", 1.0), ("direction", None)]
        self.cap = 2500 if tier == "quick" else 30000
        self.name = "sched_le1_deviation_2blocks"
        self.size = len(self.items)
        self.grain = 1
        self.weight = 100.0

    def describe(self, rank):
        return {"function": self.items[rank][0], "max_distance": self.items[rank][1], "chunks": ((3,), (2, 2)), "deviation_bound": 1}

    def run(self, lo, hi, out):
        ch = ((3,), (2, 2))
        cells = (1, 10)
        a = layout_array(SHAPE, cells)
        ys, xs = COORDS["unit_desc"]
        for rank in range(lo, hi):
            f, md = self.items[rank]
            kw = {} if md is None else {"max_distance": md}
            ref = np.asarray(self.fn[f](dataarray(a.copy(), ys, xs), **kw).values)
            results = set()

            def cf(get):
                with self.dask.config.set(scheduler=get):
                    return np.asarray(self.fn[f](dataarray(a.copy(), ys, xs, chunks=ch), **kw).data.compute())

            def on_exec(chs, val, sch):
                ok, ties, msg = self.compare(f, a, "unit_desc", "EUCLIDEAN", ref, val)
                out.case(outcome=(f, tuple(sch.order)), nontrivial=any(chs), calls=sch.tasks)
                out.ok()
                results.add(val.tobytes())
                if not ok:
                    out.violation(rank, "c07|sched|%s|md=%s|choices=%s" % (f, md, chs), "schedule changes the result: " + msg)
                if sch.impure:
                    out.count("impure_tasks", len(sch.impure))
            st = self.dx.explore_schedules(cf, 1, monitor="deps", max_execs=self.cap, on_exec=on_exec)
            out.count("schedules", st["executions"])
            if st["capped"]:
                out.count("schedule_caps_hit")
                out.note("schedule cap %d hit for %s" % (self.cap, f))
            out.sample({"function": f, "schedules": st["executions"], "points": st["max_points"], "max_ready": st["max_ready"],
                        "distinct_results": len(results)})


class JitConformance(_Base):
    """compiled slice: the same comparison with the JIT-compiled kernels (1.3 s per call)."""
    mode = "jit"

    def __init__(self, tier):
        self.lay = [(0,), (5,), (11,), (2, 9)] if tier == "quick" else layouts(SHAPE, 1) + [(2, 9), (0, 11), (4, 7)]
        self.chs = [((3,), (2, 2)), ((1, 2), (4,)), ((2, 1), (1, 3)), ((1, 1, 1), (1, 1, 1, 1))]
        self.cfg = [("unit_desc", "EUCLIDEAN", 1.5), ("nonsquare", "MANHATTAN", 2.0), ("unit_asc", "EUCLIDEAN", None)]
        if tier == "thorough":
            self.cfg.append(("unit_desc", "GREAT_CIRCLE", None))
        self.radices = [len(FUNCS), len(self.lay), len(self.cfg), len(self.chs)]
        self.name = "jit_conformance_3x4"
        self.size = int(np.prod(self.radices))
        self.weight = 20.0
        self.grain = 2

    def describe(self, rank):
        fi, li, gi, ci = unrank_product(rank, self.radices)
        return {"function": FUNCS[fi], "targets": self.lay[li], "config": self.cfg[gi], "chunks": self.chs[ci], "mode": "compiled"}

    def run(self, lo, hi, out):
        for rank in range(lo, hi):
            fi, li, gi, ci = unrank_product(rank, self.radices)
            cname, metric, md = self.cfg[gi]
            cells = self.lay[li]
            a = layout_array(SHAPE, cells)
            self.one(out, rank, FUNCS[fi], a, cname, metric, md, self.chs[ci], cells)


def build(tier):
    fin = [0.0, 0.4, 1.0, 1.4, 1.5, 2.0, 2.5]          # 0.0: only the targets themselves are within reach
    big = [3.7, float("inf")]        # >= extent of the 3x4 unit raster (sqrt(13) = 3.61): single-block fallback
    maxt = 2 if tier == "quick" else 3
    sp = [
        HaloSpace(tier, "proximity_halo_3x4_unit", SHAPE, ("proximity",), "unit_desc", "EUCLIDEAN", fin, maxt,
                  ch_stride=2 if tier == "quick" else 1),
        HaloSpace(tier, "alloc_dir_halo_3x4_unit", SHAPE, ("allocation", "direction"), "unit_desc", "EUCLIDEAN",
                  [1.0, 1.5, 2.5], 2, ch_stride=4 if tier == "quick" else 1),
        HaloSpace(tier, "single_block_fallback_3x4", SHAPE, FUNCS, "unit_asc", "EUCLIDEAN", big, 2,
                  ch_stride=4 if tier == "quick" else 1),
        HaloSpace(tier, "nonsquare_cells_3x4", SHAPE, ("proximity", "direction"), "nonsquare", "EUCLIDEAN",
                  [0.5, 1.0, 2.0, 2.1, 4.0], 1 if tier == "quick" else 2, ch_stride=2 if tier == "quick" else 1),
        HaloSpace(tier, "manhattan_3x4", SHAPE, ("proximity", "allocation"), "unit_desc", "MANHATTAN", [1.0, 2.0, 2.5], 1 if tier == "quick" else 2,
                  ch_stride=2 if tier == "quick" else 1),
        HaloSpace(tier, "xdesc_yasc_cells_3x4", SHAPE, FUNCS, "xdesc_yasc", "EUCLIDEAN", [1.5, 3.0, 4.5], 1 if tier == "quick" else 2,
                  ch_stride=2 if tier == "quick" else 1),
        HaloSpace(tier, "utm_like_coords_3x4", SHAPE, ("proximity", "direction"), "utm_like", "EUCLIDEAN", [0.3, 0.45, 0.75],
                  1 if tier == "quick" else 2, ch_stride=2 if tier == "quick" else 1),
        HaloSpace(tier, "great_circle_halo_3x4", SHAPE, FUNCS, "lonlat_deg", "GREAT_CIRCLE", [1.0, 2.5],
                  1 if tier == "quick" else 2, ch_stride=2 if tier == "quick" else 1),
        NanSpace(tier),
        TargetValuesSpace(tier),
        SignedTargetsSpace(tier),
        NonUniformCoordsSpace(tier),
        JointComputeSpace(tier),
        ScheduleSpace(tier),
        JitConformance(tier),
    ]
    if tier == "thorough":
        sp.append(HaloSpace(tier, "proximity_halo_4x4_unit", (4, 4), ("proximity",), "unit_desc", "EUCLIDEAN",
                            [1.0, 1.5, 2.5, 3.0], 2))
    return sp
