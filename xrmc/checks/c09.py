"""C09 — focal results are statistics of exactly the cells under the kernel.

Exhaustive enumeration (engine E1) of 0/1 kernels x rasters x statistic selections / user reducer
programs for focal.apply and focal_stats; rasters x passes x excludes for focal.mean; weighted
kernels x rasters for convolution_2d; kernels x clustered rasters for hotspots (value set, threshold
classes with the tie rule, exact antisymmetry); kernel validation.  NumPy backend.  Every case is
compared with the slicing reference in xrmc/oracles/focal.py."""
import itertools
from functools import lru_cache

import numpy as np

from ..core.rasters import generic, grid, same
from ..core.space import Space
from ..core.spaces import unrank_product
from ..oracles import focal as ref

PROPERTY = "C09"
LEVEL = "model_checking"
RULE = ("focal_stats / apply: every 0/1 kernel of the listed shapes (rank = bit mask, row-major) x every raster "
        "of the listed family (generic, one NaN at every position, NaN blocks giving all-NaN windows, integer) x "
        "the seven statistics in one list (rotated by the kernel index), every kernel x (quick: 5 rasters, thorough: "
        "every raster) x every statistic selection (7 names alone + 6 lists), every kernel x every raster x every "
        "reducer program (count of non-NaN, the same followed by overwriting the window it was handed, sum of squares, value at window position (i,j) for every (i,j) of the "
        "kernel shape); mean: every raster of the "
        "family / every grid over the alphabet x passes {0,1,2,3} x excludes {[nan],[0],[nan,3.0]}; convolution_2d: "
        "every odd shape <= 5x5 x 4 all-distinct weight patterns + 3 patterns with all-zero outer rows / columns / ring x rasters; hotspots: kernels x rasters with a "
        "plateau at every placement, called on r and on -r.  A case is non-trivial when its output has >= 2 "
        "distinct non-NaN values (hotspots: a non-zero class); distinct = distinct (input, output) digests.  "
        "validated counts compared cases; tie_skipped counts hotspot cells within 1e-4 of a threshold and mean "
        "cases where a computed value lands within 1e-9 of an excluded value.")
ASSUMPTIONS = [
    "NumPy backend only (Dask chunkings are C01's subject; CuPy unavailable)",
    "kernels contain only 0 and 1 for apply/focal_stats/hotspots (documented: 'values of 1 indicate the kernel') and "
    "have >= 1 one; kernel dtypes float64 (int64, float32 in the dtype conformance space)",
    "focal_stats conventions taken from the numpy nan-functions its table maps to: population std/var (ddof=0), "
    "sum of an empty/all-NaN neighbourhood = 0, every other statistic of it = NaN",
    "focal.apply on a neighbourhood with no valid cell: compared with the same reducer on the reference window "
    "(all NaN), nothing else is assumed",
    "user reducers are numba nopython functions returning a scalar (required by the API)",
    "focal.mean: `excludes` is a list of floats, or of ints only, in the main spaces; a list mixing int and float "
    "literals ([nan, 3]) is explored in its own space mean_excludes_mixed",
    "convolution_2d weights are non-zero and all distinct (0 * NaN is NaN in the literal sum; not probed)",
    "hotspots: rasters with zero global std (documented ZeroDivisionError) are not generated; cells whose window "
    "leaves the raster or contains a NaN have no neighbourhood mean: only the value set and the antisymmetry are "
    "asserted there; global std is the population std",
    "float32 kernels: outputs compared with atol 1e-6 + rtol 1e-5 * scale against a float64 reference computed on "
    "the float32-rounded raster, scale = max(|expected|, magnitude of the terms: sum of |v| for sum and convolution, "
    "max |v| for mean/std, max v^2 for var) so that float32 accumulation under cancellation is not reported; exact "
    "comparison for max/min/pick/count always and for sum/range/sum-of-squares/integer-weight convolution on integer "
    "rasters; focal.mean (float64) rtol 1e-9",
]
NAN = float("nan")
STATS = ("mean", "max", "min", "range", "std", "var", "sum")
STAT_LISTS = (list(STATS), list(reversed(STATS)), ["min", "sum"], ["sum", "min"], ["std", "var", "mean"],
              ["range", "max", "min"])
SELECTIONS = tuple([s] for s in STATS) + tuple(STAT_LISTS)
PASSES = (0, 1, 2, 3)
EXCLUDES = ((NAN,), (0,), (NAN, 3.0))
RTOL32, ATOL32 = 1e-5, 1e-6

BOUNDS = {
    "quick": {
        "kernels": {"1x3": "all 7", "3x1": "all 7", "3x3": "all 511", "3x5": "<=2 zeros or <=2 ones (241)",
                    "5x3": "<=2 zeros or <=2 ones (241)"},
        "rasters": "4x5 (5x4 for 5x3 kernels): generic, NaN at each of 20 positions, 4 NaN-block rasters, 2nd generic; int64 generic "
                   "rasters in the *_i8 spaces; int64/int32/float32 rasters and int64/float32 kernels in stats_3x3_dtypes",
        "stats": {"every kernel x every raster": "the seven names in one list, rotated by the kernel index",
                  "every kernel x 5 rasters (generic, nan@(1,2), nan@(0,0), nanblock[0:3,0:3], only(1,2))":
                      {"1x3,3x1,3x3": [list(s) for s in SELECTIONS], "3x5,5x3": [list(s) for s in SELECTIONS[:8]]}},
        "reducers": ["count", "count_poison (counts, then overwrites its window)", "sumsq", "pick(i,j) for every window position"],
        "mean": {"passes": list(PASSES), "excludes": ["[nan]", "[0]", "[nan,3.0]"],
                 "grids": ["3x3 over {nan,0,3}", "2x3 over {nan,0,3,5}", "2x3 over {0,3,5} int64",
                           "4x5 family + value placements"]},
        "convolution": {"shapes": "odd <= 5x5 (9)", "weights": 4, "rasters": "4x5 family, 6x7 (5)"},
        "hotspots": {"kernels": "1x1, all 1x3, 3x1, 3x3, full+cross 3x5/5x3/5x5", "raster": "5x6 plateaus {1x1,2x2,3x3} x placements x amplitude {6, 14}; 2 integer rasters; 1 raster with NaN"},
    },
    "thorough": {
        "kernels": {"1x3": "all 7", "3x1": "all 7", "3x3": "all 511", "3x5": "all 32767", "5x3": "all 32767"},
        "rasters": "as quick + NaN at every pair of positions (190) for 1x3/3x1/3x3; the full 3x5/5x3 enumeration uses 6 (stats) / 2 (apply) rasters",
        "stats": {"every kernel x every raster (incl. NaN pairs; 3x5/5x3 all: 6 rasters)":
                      "the seven names in one list, rotated by the kernel index",
                  "every kernel (3x5/5x3: sparse) x the 26 quick rasters":
                      {"1x3,3x1,3x3": [list(s) for s in SELECTIONS], "3x5,5x3": [list(s) for s in SELECTIONS[:8]]}},
        "reducers": ["count", "count_poison (counts, then overwrites its window)", "sumsq", "pick(i,j) for every window position"],
        "mean": {"passes": list(PASSES), "excludes": ["[nan]", "[0]", "[nan,3.0]"],
                 "grids": ["3x3 over {nan,0,3}", "2x3 over {nan,0,3,5}", "2x3 over {0,3,5} int64", "3x3 over {nan,0,3,5}",
                           "2x4 over {nan,0,3,5}",
                           "4x5 family + value placements"]},
        "convolution": {"shapes": "odd <= 5x5 (9)", "weights": 4, "rasters": "4x5 family, 6x7 + NaN at every position"},
        "hotspots": {"kernels": "as quick", "raster": "5x6 and 6x7 plateaus {1x1,2x2,2x3,3x3} x placements x amplitude {4, 6, 9, 14, 25}; integer and NaN rasters"},
    },
}


# ------------------------------------------------------------------------------------------------
# kernels
# ------------------------------------------------------------------------------------------------
def kernel_from_mask(shape, mask, dtype=np.float64):
    """0/1 kernel whose row-major cells are the binary digits of `mask` (most significant first)."""
    n = shape[0] * shape[1]
    bits = [(mask >> (n - 1 - i)) & 1 for i in range(n)]
    return np.array(bits, dtype=dtype).reshape(shape)


def kernel_str(k):
    return "%dx%d:%s" % (k.shape[0], k.shape[1], "".join(str(int(v)) for v in np.asarray(k).ravel()))


@lru_cache(maxsize=None)
def masks_all(n):
    return tuple(range(1, 2 ** n))


@lru_cache(maxsize=None)
def masks_sparse(n):
    """masks with <= 2 ones (>= 1) or <= 2 zeros, fewest ones first."""
    out = []
    for k in (1, 2):
        for pos in itertools.combinations(range(n), k):
            out.append(sum(1 << (n - 1 - p) for p in pos))
    full = 2 ** n - 1
    for k in (0, 1, 2):
        for pos in itertools.combinations(range(n), k):
            out.append(full - sum(1 << (n - 1 - p) for p in pos))
    return tuple(out)


# ------------------------------------------------------------------------------------------------
# rasters
# ------------------------------------------------------------------------------------------------
@lru_cache(maxsize=None)
def raster_family(shape, pairs=False):
    """[(name, array)]: generic, NaN at each position, rasters with entirely-NaN windows, 2nd generic
    (+ NaN at every pair of positions)."""
    h, w = shape
    g = generic(shape)
    out = [("generic", g)]
    for p in range(h * w):
        a = g.copy()
        a.flat[p] = NAN
        out.append(("nan@(%d,%d)" % divmod(p, w), a))
    a = g.copy(); a[0:3, 0:3] = NAN
    out.append(("nanblock[0:3,0:3]", a))
    a = g.copy(); a[0:3, :] = NAN
    out.append(("nanblock[0:3,:]", a))
    a = np.full(shape, NAN); a[1, 2] = g[1, 2]
    out.append(("only(1,2)", a))
    out.append(("allnan", np.full(shape, NAN)))
    out.append(("generic1", generic(shape, variant=1)))
    if pairs:
        for p, q in itertools.combinations(range(h * w), 2):
            a = g.copy()
            a.flat[p] = NAN
            a.flat[q] = NAN
            out.append(("nan@(%d,%d)+(%d,%d)" % (divmod(p, w) + divmod(q, w)), a))
    return tuple(out)


@lru_cache(maxsize=None)
def int_family(shape):
    """Integer rasters live in their own spaces: every (reducer, raster dtype) pair is a separate JIT
    specialisation of the kernel under test (0.7 s each)."""
    return (("generic_i8", generic(shape, dtype=np.int64)), ("generic1_i8", generic(shape, variant=1, dtype=np.int64)))


def dataarray(a):
    """Coordinate-free DataArray (coordinates play no role in C09 and cost 1 ms per construction)."""
    import xarray as xr
    return xr.DataArray(a, dims=("y", "x"))


def pick(family, names):
    d = dict(family)
    return tuple((n, d[n]) for n in names)


def nontrivial_output(o):
    v = np.asarray(o, dtype=float)
    v = v[~np.isnan(v)]
    return bool(v.size and v.min() != v.max())


def first_diff(obs, exp, rtol, atol, scale=None):
    """(index, observed, expected) of the first cell with a different NaN-ness or with
    |observed - expected| > atol + rtol * scale, or None.  `scale` defaults to |expected|; for sums of
    float32 terms of both signs it is the sum of the absolute terms (the quantity float32 rounding of the
    accumulation is relative to), so that cancellation cannot raise a false alarm."""
    obs = np.asarray(obs, dtype=float)
    exp = np.asarray(exp, dtype=float)
    if obs.shape != exp.shape:
        return ("shape", obs.shape, exp.shape)
    if scale is None:
        if same(obs, exp, rtol, atol):
            return None
        scale = np.abs(exp)
    no, ne = np.isnan(obs), np.isnan(exp)
    with np.errstate(invalid="ignore"):
        bad = (no != ne) | (~ne & ~no & ~(np.abs(obs - exp) <= atol + rtol * np.maximum(scale, np.abs(exp))))
        bad |= ~ne & ~no & (np.isinf(obs) | np.isinf(exp)) & (obs != exp)
    if not bad.any():
        return None
    idx = tuple(int(t[0]) for t in np.nonzero(bad))
    return (idx, float(obs[idx]), float(exp[idx]))


# ------------------------------------------------------------------------------------------------
# user reducer programs (built once per worker)
# ------------------------------------------------------------------------------------------------
_REDUCERS = {}


def _make_pick(i, j):
    def pick_ij(window):
        return window[i, j]
    pick_ij.__name__ = pick_ij.__qualname__ = "pick_%d_%d" % (i, j)
    return pick_ij


def _count(window):
    n = 0
    for v in window.flat:
        if not np.isnan(v):
            n += 1
    return n


def _sumsq(window):
    s = 0.0
    for v in window.flat:
        if not np.isnan(v):
            x = float(v)
            s += x * x
    return s


def _count_poison(window):
    """count of non-NaN, then the window is overwritten: a reducer owns the window it is handed (the next cell must get a
    fresh one, with every position outside the kernel NaN again)."""
    n = 0
    for i in range(window.shape[0]):
        for j in range(window.shape[1]):
            if not np.isnan(window[i, j]):
                n += 1
            window[i, j] = 1.0
    return n


def reducer(name):
    """-> (jitted function for the API, plain Python twin for the reference window)."""
    if name not in _REDUCERS:
        import numba
        jit = numba.jit(nopython=True, nogil=True)
        if name == "count":
            py = _count
        elif name == "count_poison":         # the reference twin does not mutate (reference windows are shared)
            _REDUCERS[name] = (jit(_count_poison), _count)
            return _REDUCERS[name]
        elif name == "sumsq":
            py = _sumsq
        else:
            i, j = (int(t) for t in name[5:-1].split(","))
            py = _make_pick(i, j)
        _REDUCERS[name] = (jit(py), py)
    return _REDUCERS[name]


def reducer_names(shape):
    return ["count", "count_poison", "sumsq"] + ["pick(%d,%d)" % (i, j) for i in range(shape[0]) for j in range(shape[1])]


# ------------------------------------------------------------------------------------------------
# focal_stats / apply over kernels x rasters x programs
# ------------------------------------------------------------------------------------------------
class KernelSpace(Space):
    """rank -> (kernel, raster, program).  stats: the program varies fastest so the reference statistics
    of a (kernel, raster) pair are computed once; apply: the program varies slowest and a shard holds
    (a part of) one reducer, so a worker only JIT-compiles the reducers of its own shards."""

    def __init__(self, name, kind, kshape, masks, rasters, programs, kdtype=np.float64, rotate=False, nshards=None):
        self.name, self.kind, self.kshape, self.masks, self.rasters = name, kind, kshape, masks, rasters
        self.programs, self.kdtype, self.rotate = programs, kdtype, rotate
        self.radices = [len(masks), len(rasters), len(programs)]
        npairs = len(masks) * len(rasters)
        self.size = npairs * len(programs)
        self.weight = 3.0 if kind == "stats" else 1.0
        if kind == "apply":
            self.radices = [len(programs), len(masks), len(rasters)]
            self.grain = -(-npairs // max(1, round(npairs / 5000.0)))
        elif nshards:
            self.grain = max(1, -(-self.size // nshards))
        self._pair = None

    def unrank(self, rank):
        if self.kind == "apply":
            pi, ki, ri = unrank_product(rank, self.radices)
            return ki, ri, pi
        return unrank_product(rank, self.radices)

    def setup(self):
        from xrspatial import focal
        self.focal = focal
        ref.selftest()

    def case(self, rank):
        ki, ri, pi = self.unrank(rank)
        kernel = kernel_from_mask(self.kshape, self.masks[ki], self.kdtype)
        rname, a = self.rasters[ri]
        prog = self.programs[pi]
        if self.rotate:            # one list per (kernel, raster): the seven names rotated by the kernel index
            s = ki % len(prog)
            prog = list(prog[s:]) + list(prog[:s])
        return ki, ri, kernel, rname, a, prog

    def describe(self, rank):
        _, _, kernel, rname, a, prog = self.case(rank)
        return {"function": "focal_stats" if self.kind == "stats" else "apply", "kernel": kernel,
                "raster_name": rname, "raster": a, "program": prog}

    def run(self, lo, hi, out):
        for rank in range(lo, hi):
            ki, ri, kernel, rname, a, prog = self.case(rank)
            if self._pair is None or self._pair[0] != (ki, ri):
                self._pair = ((ki, ri), ref.focal_windows(a, kernel), {})
            _, wins, cache = self._pair
            r = dataarray(a.copy())
            intdata = a.dtype.kind in "iu"
            kid = "k=%s|r=%dx%d:%s" % (kernel_str(kernel), a.shape[0], a.shape[1], rname)
            if self.kdtype != np.float64 or a.dtype not in (np.float64, np.int64):
                kid += "|dtypes=%s,%s" % (np.dtype(self.kdtype).name, a.dtype.name)
            if self.kind == "stats":
                self.run_stats(rank, out, kid, r, a, kernel, prog, wins, cache, intdata)
            else:
                self.run_apply(rank, out, kid, r, a, kernel, prog, wins, intdata)

    def run_stats(self, rank, out, kid, r, a, kernel, names, wins, cache, intdata):
        key = "focal_stats|%s|stats=%s" % (kid, ",".join(names))
        try:
            res = self.focal.focal_stats(r, kernel.copy(), list(names))
        except Exception as e:  # in-domain input
            out.case(outcome=("raised", type(e).__name__), nontrivial=False)
            out.violation(rank, key, "focal_stats raised %s: %s" % (type(e).__name__, str(e)[:300]),
                          case=self.describe(rank), sig=None)
            return
        o = np.asarray(res.values)
        if "all" not in cache:
            cache["all"] = dict(zip(STATS, ref.focal_stats(a, kernel, STATS, windows=wins)))
            sabs, mabs = ref.focal_scales(a, kernel, windows=wins)
            cache["scale"] = {"sum": sabs, "mean": mabs, "std": mabs, "var": mabs * mabs, "range": None}
        exp = np.stack([cache["all"][n] for n in names])
        problems = []
        labels = [str(v) for v in res["stats"].values] if "stats" in res.coords else None
        if res.dims != ("stats",) + r.dims or o.shape != exp.shape or labels != list(names):
            problems.append("result dims %r shape %r labels %r, expected ('stats','y','x') %r %r"
                            % (res.dims, o.shape, labels, exp.shape, list(names)))
        else:
            for i, n in enumerate(names):
                exact = n in ("max", "min") or (intdata and n in ("sum", "range"))
                d = first_diff(o[i], exp[i], 0 if exact else RTOL32, 0 if exact else ATOL32,
                               None if exact else cache["scale"][n])
                if d:
                    problems.append("stat %r at cell %r: got %r, the %s of the cells under the kernel is %r"
                                    % (n, d[0], d[1], n, d[2]))
                    break
        out.case(outcome=(kernel, a, o), nontrivial=nontrivial_output(o), calls=len(names))
        out.ok()
        if problems:
            out.violation(rank, key, "; ".join(problems), case=self.describe(rank), observed=o, expected=exp)
        elif out.want_sample() and len(names) == 2 and nontrivial_output(o):
            out.sample({"function": "focal_stats", "kernel": kernel, "raster": a, "stats": names, "result": o})

    def run_apply(self, rank, out, kid, r, a, kernel, prog, wins, intdata):
        key = "apply|%s|f=%s" % (kid, prog)
        jitted, py = reducer(prog)
        try:
            res = self.focal.apply(r, kernel.copy(), jitted)
        except Exception as e:
            out.case(outcome=("raised", type(e).__name__), nontrivial=False)
            out.violation(rank, key, "apply raised %s: %s" % (type(e).__name__, str(e)[:300]), case=self.describe(rank))
            return
        o = np.asarray(res.values)
        exp = ref.focal_apply(a, kernel, py, windows=wins)
        exact = prog != "sumsq" or intdata
        d = first_diff(o, exp, 0 if exact else RTOL32, 0 if exact else ATOL32)
        out.case(outcome=(kernel, a, prog, o), nontrivial=nontrivial_output(o))
        out.ok()
        if d:
            out.violation(rank, key, "reducer %s at cell %r returned %r; on the window of exactly the cells under the "
                          "kernel (others NaN) it returns %r" % (prog, d[0], d[1], d[2]),
                          case=self.describe(rank), observed=o, expected=exp)
        elif out.want_sample() and prog.startswith("pick") and nontrivial_output(o):
            out.sample({"function": "apply", "kernel": kernel, "raster": a, "reducer": prog, "result": o})


class DtypeSpace(KernelSpace):
    """Conformance over kernel / raster dtypes (each combination is a separate JIT specialisation)."""
    COMBOS = ((np.int64, np.float64), (np.int64, np.int64), (np.float64, np.float32), (np.float64, np.int32),
              (np.float32, np.float64))

    def __init__(self, name, kshape, masks):
        fam = []
        for kd, rd in self.COMBOS:
            g = generic((4, 5), dtype=rd)
            fam.append(("generic_%s/k_%s" % (np.dtype(rd).name, np.dtype(kd).name), g, kd))
            if np.dtype(rd).kind == "f":
                a = g.copy(); a[1, 2] = NAN
                fam.append(("nan@(1,2)_%s/k_%s" % (np.dtype(rd).name, np.dtype(kd).name), a, kd))
        self._fam = fam
        KernelSpace.__init__(self, name, "stats", kshape, masks, tuple((n, a) for n, a, _ in fam),
                             (["sum", "min"],), nshards=4)

    def case(self, rank):
        ki, ri, pi = unrank_product(rank, self.radices)
        self.kdtype = self._fam[ri][2]
        kernel = kernel_from_mask(self.kshape, self.masks[ki], self.kdtype)
        rname, a = self.rasters[ri]
        return ki, ri, kernel, rname, a, self.programs[pi]


# ------------------------------------------------------------------------------------------------
# focal.mean
# ------------------------------------------------------------------------------------------------
def excl_str(ex):
    return "[" + ",".join("nan" if e != e else repr(e) for e in ex) + "]"


class MeanSpace(Space):
    """rank -> (raster, passes, excludes).  `rasters` is a list of (name, array) or (shape, alphabet, dtype)."""

    def __init__(self, name, rasters=None, gridspec=None, excludes=EXCLUDES, passes=PASSES, sig=None):
        self.name, self.rasters, self.gridspec, self.excludes, self.passes, self.sig = \
            name, rasters, gridspec, excludes, passes, sig
        if gridspec:
            shape, alphabet, _ = gridspec
            self.nr = len(alphabet) ** (shape[0] * shape[1])
        else:
            self.nr = len(rasters)
        self.radices = [self.nr, len(passes), len(excludes)]
        self.size = self.nr * len(passes) * len(excludes)

    def setup(self):
        from xrspatial import focal
        self.mean = focal.mean

    def case(self, rank):
        ri, pi, ei = unrank_product(rank, self.radices)
        if self.gridspec:
            shape, alphabet, dtype = self.gridspec
            a = grid(ri, shape, alphabet, dtype)
            rname = "%dx%d:%s" % (shape[0], shape[1], ",".join("nan" if v != v else "%g" % v for v in a.ravel()))
        else:
            n, a = self.rasters[ri]
            rname = "%dx%d:%s" % (a.shape[0], a.shape[1], n)
        return rname, a, self.passes[pi], self.excludes[ei]

    def describe(self, rank):
        rname, a, passes, ex = self.case(rank)
        return {"function": "mean", "raster_name": rname, "raster": a, "passes": passes,
                "excludes": [("nan" if e != e else e) for e in ex],
                "excludes_types": [type(e).__name__ for e in ex]}

    def run(self, lo, hi, out):
        for rank in range(lo, hi):
            rname, a, passes, ex = self.case(rank)
            key = "mean|r=%s|passes=%d|excludes=%s" % (rname, passes, excl_str(ex))
            r = dataarray(a.copy())
            try:
                res = self.mean(r, passes=passes, excludes=list(ex))
            except Exception as e:
                out.case(outcome=("raised", type(e).__name__), nontrivial=False)
                out.violation(rank, key, "mean(passes=%d, excludes=%s) raised %s: %s"
                              % (passes, excl_str(ex), type(e).__name__, " ".join(str(e).split())[:300]),
                              case=self.describe(rank), sig=self.sig)
                continue
            o = np.asarray(res.values)
            exp, tie = ref.focal_mean(a, passes, ex)
            changed = not same(o, np.asarray(a, dtype=float))
            out.case(outcome=(a, passes, excl_str(ex), o), nontrivial=changed and nontrivial_output(o), calls=1)
            if tie:
                out.tie()
                continue
            out.ok()
            d = first_diff(o, exp, 1e-9, 1e-12)
            if d:
                out.violation(rank, key, "cell %r is %r; %d pass(es) of the clipped 3x3 NaN-ignoring mean with "
                              "excluded values %s passed through give %r" % (d[0], d[1], passes, excl_str(ex), d[2]),
                              case=self.describe(rank), observed=o, expected=exp)
            elif out.want_sample() and passes == 2 and changed:
                out.sample({"function": "mean", "raster": a, "passes": passes, "excludes": excl_str(ex), "result": o})


@lru_cache(maxsize=None)
def mean_family():
    fam = list(raster_family((4, 5)) + int_family((4, 5)))
    g = generic((4, 5))
    for v in (0.0, 3.0):
        for p in range(20):
            a = g.copy()
            a.flat[p] = v
            fam.append(("%g@(%d,%d)" % ((v,) + divmod(p, 5)), a))
    small = np.round(g / 5.0)                       # small integers with repeats, incl. 0 and +-3
    fam.append(("round(generic/5)", small))
    fam.append(("round(generic/5)_i8", small.astype(np.int64)))
    a = small.copy(); a[0, 0] = NAN; a[2, 3] = NAN
    fam.append(("round(generic/5)+nan", a))
    fam.append(("threes", np.full((4, 5), 3.0)))
    # magnitudes: tiny values and small relief on a large offset (every pass still moves the cells by a relative 1e-7 or more)
    fam.append(("generic*2^-30", g * 2.0 ** -30))
    fam.append(("generic+2^20", g + 2.0 ** 20))
    a = g * 2.0 ** -30; a[1, 1] = NAN
    fam.append(("generic*2^-30+nan", a))
    return tuple(fam)


# ------------------------------------------------------------------------------------------------
# convolution_2d
# ------------------------------------------------------------------------------------------------
CONV_SHAPES = tuple((r, c) for r in (1, 3, 5) for c in (1, 3, 5))
# zero_*: weights 1..n with the two outer rows / the two outer columns / the whole outer ring set to 0 (where the shape has them):
# a zero weight still belongs to the window, whose extent - and so the NaN border - is given by the kernel's SHAPE
CONV_PATTERNS = ("1..n", "1..n_i8", "dyadic+-", "irrational", "zero_rows", "zero_cols", "zero_ring")


def conv_kernel(shape, pattern):
    n = shape[0] * shape[1]
    k = np.arange(n, dtype=np.float64)
    if pattern == "1..n":
        w = k + 1
    elif pattern == "1..n_i8":
        w = (k + 1).astype(np.int64)
    elif pattern == "dyadic+-":
        w = (k - n // 2 - 0.5) * 0.25
    elif pattern.startswith("zero_"):
        w = (k + 1).reshape(shape)
        if pattern in ("zero_rows", "zero_ring") and shape[0] >= 3:
            w[0, :] = 0
            w[-1, :] = 0
        if pattern in ("zero_cols", "zero_ring") and shape[1] >= 3:
            w[:, 0] = 0
            w[:, -1] = 0
        return w
    else:
        w = 0.1 * (k + 1) + 1.0 / (k + 3) - 0.7
    return w.reshape(shape)


@lru_cache(maxsize=None)
def conv_rasters(tier):
    fam = [("4x5:" + n, a) for n, a in raster_family((4, 5)) + int_family((4, 5)) if n not in ("generic1",)]
    g = generic((6, 7))
    fam += [("6x7:generic", g), ("6x7:generic1", generic((6, 7), variant=1)),
            ("6x7:generic_i8", generic((6, 7), dtype=np.int64)), ("6x7:generic_f4", generic((6, 7), dtype=np.float32))]
    pos = range(42) if tier == "thorough" else (0, 24)
    for p in pos:
        a = g.copy()
        a.flat[p] = NAN
        fam.append(("6x7:nan@(%d,%d)" % divmod(p, 7), a))
    return tuple(fam)


class ConvSpace(Space):
    def __init__(self, tier):
        self.name = "convolution_2d"
        self.rasters = conv_rasters(tier)
        self.radices = [len(CONV_SHAPES), len(CONV_PATTERNS), len(self.rasters)]
        self.size = self.radices[0] * self.radices[1] * self.radices[2]
        self.grain = max(1, -(-self.size // 8))

    def setup(self):
        from xrspatial import convolution
        self.conv = convolution.convolution_2d

    def case(self, rank):
        si, pi, ri = unrank_product(rank, self.radices)
        return CONV_SHAPES[si], CONV_PATTERNS[pi], self.rasters[ri]

    def describe(self, rank):
        shape, pat, (rname, a) = self.case(rank)
        return {"function": "convolution_2d", "kernel": conv_kernel(shape, pat), "raster_name": rname, "raster": a}

    def run(self, lo, hi, out):
        for rank in range(lo, hi):
            shape, pat, (rname, a) = self.case(rank)
            k = conv_kernel(shape, pat)
            key = "convolution_2d|k=%dx%d:%s|r=%s" % (shape[0], shape[1], pat, rname)
            try:
                res = self.conv(dataarray(a.copy()), k.copy())
            except Exception as e:
                out.case(outcome=("raised", type(e).__name__), nontrivial=False)
                out.violation(rank, key, "convolution_2d raised %s: %s" % (type(e).__name__, str(e)[:300]),
                              case=self.describe(rank))
                continue
            o = np.asarray(res.values)
            exp = ref.convolution_2d(a, k)
            exact = a.dtype.kind in "iu" and pat.startswith("1..n")
            d = first_diff(o, exp, 0 if exact else RTOL32, 0 if exact else ATOL32,
                           None if exact else ref.convolution_2d(np.abs(a), np.abs(k)))
            out.case(outcome=(k, a, o), nontrivial=nontrivial_output(o))
            out.ok()
            if d:
                out.violation(rank, key, "cell %r is %r; the kernel-weighted sum over the full window (NaN where the "
                              "window leaves the raster) is %r" % d, case=self.describe(rank), observed=o, expected=exp)
            elif out.want_sample() and nontrivial_output(o) and shape[0] != shape[1]:
                out.sample({"function": "convolution_2d", "kernel": k, "raster": a, "result": o})


# ------------------------------------------------------------------------------------------------
# hotspots
# ------------------------------------------------------------------------------------------------
HOT_VALUES = frozenset((0, 90, -90, 95, -95, 99, -99))


@lru_cache(maxsize=None)
def hot_kernels():
    ks = [np.ones((1, 1))]
    for shape in ((1, 3), (3, 1), (3, 3)):
        ks += [kernel_from_mask(shape, m) for m in masks_all(shape[0] * shape[1])]
    for shape in ((3, 5), (5, 3), (5, 5)):
        ks.append(np.ones(shape))
        c = np.zeros(shape); c[shape[0] // 2, :] = 1; c[:, shape[1] // 2] = 1
        ks.append(c)
        e = np.zeros(shape); e[0, 0] = 1; e[-1, -2] = 1
        ks.append(e)
    return tuple(ks)


@lru_cache(maxsize=None)
def hot_rasters(tier):
    shapes = ((5, 6), (6, 7)) if tier == "thorough" else ((5, 6),)
    amps = (4.0, 6.0, 9.0, 14.0, 25.0) if tier == "thorough" else (6.0, 14.0)
    out = []
    for shape in shapes:
        base = generic(shape) / 8.0
        for bh, bw in ((1, 1), (2, 2), (2, 3), (3, 3)) if tier == "thorough" else ((1, 1), (2, 2), (3, 3)):
            for y in range(shape[0] - bh + 1):
                for x in range(shape[1] - bw + 1):
                    for amp in amps:
                        a = base.copy()
                        a[y:y + bh, x:x + bw] += amp
                        out.append(("%dx%d:generic/8+%g*block%dx%d@(%d,%d)" % (shape + (amp, bh, bw, y, x)), a))
        # integer rasters and one NaN raster per shape
        a = np.round(generic(shape) / 4.0).astype(np.int64); a[1:3, 2:4] += 12
        out.append(("%dx%d:int+12*block2x2@(1,2)" % shape, a))
        a = np.round(generic(shape) / 4.0).astype(np.int32); a[2, 3] += 20
        out.append(("%dx%d:int32+20@(2,3)" % shape, a))
        a = base.copy(); a[1:3, 1:3] += 9.0; a[0, 0] = NAN; a[3, 4] = NAN
        out.append(("%dx%d:generic/8+9*block2x2@(1,1)+nan(0,0)(3,4)" % shape, a))
    return tuple(out)


class HotSpace(Space):
    def __init__(self, tier):
        self.name = "hotspots"
        self.kernels, self.rasters = hot_kernels(), hot_rasters(tier)
        self.radices = [len(self.kernels), len(self.rasters)]
        self.size = self.radices[0] * self.radices[1]
        self.weight = 2.0

    def setup(self):
        from xrspatial import focal
        self.hotspots = focal.hotspots

    def case(self, rank):
        ki, ri = unrank_product(rank, self.radices)
        return self.kernels[ki], self.rasters[ri]

    def describe(self, rank):
        k, (rname, a) = self.case(rank)
        return {"function": "hotspots", "kernel": k, "raster_name": rname, "raster": a}

    def run(self, lo, hi, out):
        for rank in range(lo, hi):
            k, (rname, a) = self.case(rank)
            key = "hotspots|k=%s|r=%s" % (kernel_str(k), rname)
            try:
                o = np.asarray(self.hotspots(dataarray(a.copy()), k.copy()).values)
                on = np.asarray(self.hotspots(dataarray(-a), k.copy()).values)
            except Exception as e:
                out.case(outcome=("raised", type(e).__name__), nontrivial=False)
                out.violation(rank, key, "hotspots raised %s: %s" % (type(e).__name__, str(e)[:300]),
                              case=self.describe(rank))
                continue
            exp, decided, ties, z = ref.hotspots(a, k)
            problems = []
            vals = set(int(v) for v in np.unique(o)) | set(int(v) for v in np.unique(on))
            if o.shape != a.shape or o.dtype.kind not in "iu" and not np.all(o == np.round(o)):
                problems.append("result shape/dtype %r %s" % (o.shape, o.dtype))
            elif not vals <= HOT_VALUES:
                problems.append("values %r outside {0, +-90, +-95, +-99}" % sorted(vals - HOT_VALUES))
            elif not np.array_equal(on.astype(np.int64), -o.astype(np.int64)):
                y, x = [int(t[0]) for t in np.nonzero(on.astype(np.int64) != -o.astype(np.int64))]
                problems.append("hotspots(-r)[%d,%d] = %d but hotspots(r)[%d,%d] = %d" % (y, x, on[y, x], y, x, o[y, x]))
            elif not np.array_equal(o.astype(np.int64)[decided], exp[decided]):
                bad = decided & (o.astype(np.int64) != exp)
                y, x = [int(t[0]) for t in np.nonzero(bad)]
                problems.append("cell (%d,%d): z-score of the neighbourhood mean is %.6f -> class %d, got %d"
                                % (y, x, z[y, x], exp[y, x], o[y, x]))
            out.case(outcome=(k, a, o), nontrivial=bool(np.any(o != 0)), calls=2)
            out.ok()
            out.tie(int(ties.sum()))
            out.count("hotspot_cells_decided", int(decided.sum()))
            for c in (90, 95, 99):
                out.count("hotspot_cells_class_%d" % c, int(np.sum(np.abs(exp[decided]) == c)))
            out.count("hotspot_cells_undefined_z_observed_zero", int(np.sum(np.isnan(z) & (o == 0))))
            out.count("hotspot_cells_undefined_z_observed_nonzero", int(np.sum(np.isnan(z) & (o != 0))))
            if problems:
                out.violation(rank, key, "; ".join(problems), case=self.describe(rank), observed=o, expected=exp)
            elif out.want_sample() and len(set(np.unique(o))) >= 3:
                out.sample({"function": "hotspots", "kernel": k, "raster": a, "z": z, "result": o})


# ------------------------------------------------------------------------------------------------
# kernel validation
# ------------------------------------------------------------------------------------------------
NON_ARRAYS = (("list", [[0, 1, 0], [1, 1, 1], [0, 1, 0]]), ("tuple", ((1, 1, 1),)), ("None", None), ("int", 1),
              ("str", "circle"))


class ValidationSpace(Space):
    """custom_kernel / apply / focal_stats x (every shape 1..6 x 1..6, int and float | non-arrays):
    odd x odd ndarrays are accepted (custom_kernel returns the kernel itself), everything else is rejected."""
    FUNCS = ("custom_kernel", "apply", "focal_stats")

    def __init__(self):
        self.name = "kernel_validation"
        self.kcases = [("ones(%d,%d)%s" % (r, c, dt), (r, c, dt)) for r in range(1, 7) for c in range(1, 7)
                       for dt in ("f8", "i8")] + [(n, None) for n, _ in NON_ARRAYS]
        self.size = len(self.kcases) * len(self.FUNCS)
        self.grain = self.size

    def setup(self):
        from xrspatial import convolution, focal
        self.fn = {"custom_kernel": lambda r, k: convolution.custom_kernel(k),
                   "apply": lambda r, k: focal.apply(r, k),
                   "focal_stats": lambda r, k: focal.focal_stats(r, k, ["sum"])}

    def case(self, rank):
        ci, fi = unrank_product(rank, [len(self.kcases), len(self.FUNCS)])
        name, spec = self.kcases[ci]
        k = np.ones(spec[:2], dtype=spec[2]) if spec else dict(NON_ARRAYS)[name]
        return name, spec, k, self.FUNCS[fi]

    def describe(self, rank):
        name, spec, k, fn = self.case(rank)
        return {"function": fn, "kernel": name}

    def run(self, lo, hi, out):
        a = generic((6, 7))
        for rank in range(lo, hi):
            name, spec, k, fn = self.case(rank)
            valid = spec is not None and spec[0] % 2 == 1 and spec[1] % 2 == 1
            key = "kernel_validation|fn=%s|kernel=%s" % (fn, name)
            raised, res = None, None
            try:
                res = self.fn[fn](dataarray(a.copy()), k)
            except Exception as e:
                raised = e
            out.case(outcome=(fn, name, type(raised).__name__), nontrivial=not valid)
            out.ok()
            if valid and raised is not None:
                out.violation(rank, key, "%s rejected a valid odd-shaped ndarray kernel %s: %s: %s"
                              % (fn, name, type(raised).__name__, str(raised)[:200]), case=self.describe(rank))
            elif valid and fn == "custom_kernel" and res is not k:
                out.violation(rank, key, "custom_kernel did not return the valid kernel itself", case=self.describe(rank))
            elif not valid and raised is None:
                out.violation(rank, key, "%s accepted the invalid kernel %s (%s)"
                              % (fn, name, "even shape" if spec else "not an ndarray"), case=self.describe(rank))


# ------------------------------------------------------------------------------------------------
def build(tier):
    thorough = tier == "thorough"
    sp = []
    all7 = (list(STATS),)
    fewnames = ["generic", "nan@(1,2)", "nan@(0,0)", "nanblock[0:3,0:3]", "only(1,2)"]
    fam45q = raster_family((4, 5))
    fam54q = raster_family((5, 4))
    # every kernel x every raster: the seven statistics in one call (list rotated by the kernel index);
    # every kernel x (quick: 5 rasters, thorough: every raster) x every selection (names alone, lists)
    for shape in ((1, 3), (3, 1), (3, 3)):
        tag = "%dx%d" % shape
        masks = masks_all(shape[0] * shape[1])
        sp.append(KernelSpace("stats_" + tag, "stats", shape, masks, raster_family((4, 5), pairs=thorough), all7, rotate=True))
        sp.append(KernelSpace("stats_%s_sel" % tag, "stats", shape, masks, fam45q if thorough else pick(fam45q, fewnames),
                              SELECTIONS))
        sp.append(KernelSpace("apply_" + tag, "apply", shape, masks, raster_family((4, 5), pairs=thorough),
                              tuple(reducer_names(shape))))
    for shape, fam in (((3, 5), fam45q), ((5, 3), fam54q)):
        tag = "%dx%d" % shape
        masks = masks_sparse(15)
        sp.append(KernelSpace("stats_%s_sparse" % tag, "stats", shape, masks, fam, all7, rotate=True))
        sp.append(KernelSpace("stats_%s_sparse_sel" % tag, "stats", shape, masks, fam if thorough else pick(fam, fewnames),
                              SELECTIONS[:8]))
        sp.append(KernelSpace("apply_%s_sparse" % tag, "apply", shape, masks, fam, tuple(reducer_names(shape))))
        if thorough:
            few = pick(fam, ["generic", "nan@(1,2)", "nan@(0,0)", "nanblock[0:3,0:3]", "generic1"]) + int_family(fam[0][1].shape)[:1]
            sp.append(KernelSpace("stats_%s_all" % tag, "stats", shape, masks_all(15), few, all7, rotate=True))
            sp.append(KernelSpace("apply_%s_all" % tag, "apply", shape, masks_all(15), few[:2],
                                  tuple(reducer_names(shape))))
    sp.append(KernelSpace("stats_3x3_i8", "stats", (3, 3), masks_all(9), int_family((4, 5)), all7, rotate=True, nshards=4))
    sp.append(KernelSpace("apply_3x3_i8", "apply", (3, 3), masks_all(9), int_family((4, 5)),
                          ("count", "count_poison", "sumsq", "pick(0,1)", "pick(2,0)")))
    sp.append(DtypeSpace("stats_3x3_dtypes", (3, 3), masks_all(9)))
    sp.append(MeanSpace("mean_4x5", rasters=mean_family()))
    sp.append(MeanSpace("mean_3x3_nan03", gridspec=((3, 3), (NAN, 0.0, 3.0), "f8")))
    sp.append(MeanSpace("mean_2x3_nan035", gridspec=((2, 3), (NAN, 0.0, 3.0, 5.0), "f8")))
    sp.append(MeanSpace("mean_2x3_035_i8", gridspec=((2, 3), (0, 3, 5), "i8"), excludes=((NAN,), (0,), (NAN, 3.0))))
    if thorough:
        sp.append(MeanSpace("mean_3x3_nan035", gridspec=((3, 3), (NAN, 0.0, 3.0, 5.0), "f8")))
        sp.append(MeanSpace("mean_2x4_nan035", gridspec=((2, 4), (NAN, 0.0, 3.0, 5.0), "f8")))
    sp.append(MeanSpace("mean_excludes_mixed", rasters=pick(mean_family(), ["generic", "round(generic/5)", "threes"]),
                        excludes=((NAN, 3), (3, NAN), (0, 2.5)), passes=(1, 2),
                        sig="mean|excludes list mixing int and float|exception"))
    sp.append(ConvSpace(tier))
    sp.append(HotSpace(tier))
    sp.append(ValidationSpace())
    return sp
