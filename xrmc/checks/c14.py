"""C14 — a_star_search returns a valid, shortest path between the cells the caller named.

Exhaustive enumeration (engine E1): every layout of small grids over {free, barrier[, NaN]} x every (start, goal)
cell pair x connectivity {4, 8} x snap flags (3x4 in the quick tier: every layout with at most 3 barriers, snapping
off), and every coordinate system (all four axis orientations, fractional steps, offsets) x every way of naming a cell
(its own coordinates / a point displaced by +-0.49 cell) on free and single-barrier layouts, own coordinates on every
2x4 layout.  The `barriers` argument is an ORDERED list: on layouts over {free, 0, 2, 7} (space paths_2x2_fb3_lists;
thorough also 2x3 over {free, 0, 2}) every permutation of every 2- and 3-element sublist of (0, 2, 7) is passed - a cell
is a barrier exactly when its value is in the list, in whatever order the list names the values (a value of the
alphabet that is not listed is an ordinary crossable cell).  Each result is read as a chain
by xrmc.oracles.astar and compared with Dijkstra on the same move set."""
import itertools
import re

import numpy as np

from ..core.digest import bytes64
from ..core.space import Space
from ..core.spaces import unrank_product
from ..oracles import astar as O

PROPERTY = "C14"
LEVEL = "model_checking"
RULE = ("rank = mixed-radix number (layout, barrier list [one list per space except in the '_lists' spaces: every "
        "permutation of every sublist of the listed lengths of the alphabet's barrier values], coordinate system, "
        "connectivity, start cell, start displacement, goal "
        "cell, goal displacement, snap flags); layouts = every assignment of the alphabet letters to the cells of "
        "the shape (simplest first: rank 0 = all free; '_sym' spaces: one representative per orbit of the symmetry "
        "group of the rectangle; 'leN' = every layout with at most N barrier cells, fewest barriers first: 'le1' = all "
        "free + every single-barrier layout, 'le3' on 3x4 = 1 + 12 + 66 + 220 layouts); an end point is named by the "
        "coordinates ys[i]+dy*step_y, xs[j]+dx*step_x with dy,dx in {0,-0.49,+0.49} (0,0 = the cell's own "
        "coordinates).  One implementation call per case (+ up to a few diagnostic calls on a failing case, counted "
        "as impl calls, that only choose the label of the violation).  A case is non-trivial when the optimal route "
        "needs a detour (longer than on an obstacle-free grid), or no route joins two crossable end points, or "
        "snapping moves an end point, or a cell is named in a non-unit coordinate system / by a displaced point "
        "(start != goal); distinct = distinct (layout, coordinate system, result raster) digests")
ASSUMPTIONS = [
    "rasters with a single row or column are not generated: the cell size is then 0/0 (calc_res divides by n-1) "
    "and a_star_search raises ZeroDivisionError unless a 'res' attribute is supplied; outside the documented domain",
    "start/goal points farther than 0.49 cell from a cell centre (nearest-centre ties at 0.5) and points outside "
    "the raster's footprint are not generated; points within the outer half cell of an edge cell ARE generated "
    "(their nearest centre is the edge cell)",
    "coordinates are evenly spaced (origin + step*k in float64); irregular axes are outside the domain of "
    "get_dataarray_resolution",
    "'nearest crossable cell' is accepted under every reading: distance measured from the end point's cell or from "
    "the point itself, in cell units or in coordinate units (they differ only for displaced points / the "
    "anisotropic system x0.1_y0.25); any of several equidistant cells is accepted",
    "the path spaces pass attrs res=(1.0, 1.0) (the documented cell-size attribute) with unit coordinates: "
    "calc_res computes exactly the same 1.0 for them, it only saves 8 xarray reductions per call; the coords_* "
    "spaces without the '_res' suffix pass no attribute (cell size computed from the coordinates)",
    "barrier lists: floats without repetition, every order (ascending, descending, every other permutation) of "
    "every sublist of length 2..3 of the barrier values (0, 2, 7); lists naming a value twice, NaN / inf in the "
    "list and integer-typed lists are not generated; in the '_lists' spaces a cell is non-crossable exactly when "
    "its value is in the list passed for that case",
    "surface values other than free/barrier/NaN letters, friction, dask/cupy backends (a_star_search has none) "
    "are not explored; start == goal on a crossable cell is asserted as the one-cell chain {start: 0}",
    "quick tier: 3x4 is explored for the layouts with at most 3 barrier cells (299 of 4096) with snapping off; the "
    "thorough tier takes every 3x4 layout",
    "thorough tier, to stay inside the time budget: 3x4 and 2x6 take the snap flags both-off / both-on (mixed "
    "flags are enumerated in full on 2x2, 3x3, 2x4, 2x3), 4x4 takes snapping off only; the coordinate spaces use "
    "connectivity 8 and the flag sets listed in the bounds (the coordinate -> cell step does not depend on them)",
    "4x4 (and thorough 3x3 three-letter) layouts are reduced by the 8 symmetries of the square: the statement is "
    "symmetric, the implementation's scan order is not, so tie-breaking orders are covered only through the "
    "unreduced smaller shapes",
]
NAN = float("nan")

# letter 0 is always the simplest (free); `barriers` is what is passed as the `barriers` argument
ALPHABETS = {
    "fb": dict(values=(1.0, 0.0), letters="fb", barriers=[0.0]),
    "fbn": dict(values=(1.0, 0.0, NAN), letters="fbn", barriers=[0.0]),
    "ffbb": dict(values=(1.0, 3.0, 0.0, 2.0), letters="fgbc", barriers=[0.0, 2.0]),   # two free, two barrier values
    "fzn": dict(values=(1.0, 0.0, NAN), letters="fzn", barriers=[]),                  # no barrier value: 0 crossable
    # ORDERED barrier lists (spaces '*_lists'): `lists` = lengths of the sublists of `barriers` that are enumerated,
    # each in every order; a letter whose value is not in the list of a case is crossable in that case
    "fb3": dict(values=(1.0, 0.0, 2.0, 7.0), letters="fbcd", barriers=[0.0, 2.0, 7.0], lists=(2, 3)),
    "fb2": dict(values=(1.0, 0.0, 2.0), letters="fbc", barriers=[0.0, 2.0], lists=(2,)),
}

# coordinate systems: (origin, step, descending) for y, then for x
SYSTEMS = {
    "unit": ((0.0, 1.0, False), (0.0, 1.0, False)),
    "ydesc": ((0.0, 1.0, True), (0.0, 1.0, False)),
    # the other two axis orientations (with 'unit' and 'ydesc': y ascending/descending x x ascending/descending)
    "xdesc": ((0.0, 1.0, False), (0.0, 1.0, True)),
    "ydesc_xdesc": ((0.0, 1.0, True), (0.0, 1.0, True)),
    "step0.1": ((0.0, 0.1, False), (0.0, 0.1, False)),
    "step0.25": ((0.0, 0.25, False), (0.0, 0.25, False)),
    "step1_3": ((0.0, 1.0 / 3.0, False), (0.0, 1.0 / 3.0, False)),
    "off100.05": ((100.05, 1.0, False), (100.05, 1.0, False)),
    "off100.05_step0.1_ydesc": ((100.05, 0.1, True), (100.05, 0.1, False)),
    "x0.1_y0.25": ((0.0, 0.25, False), (0.0, 0.1, False)),
}
ALL_SYS = tuple(SYSTEMS)
NONUNIT = tuple(s for s in SYSTEMS if s != "unit")

D = 0.49
DISPS = {
    "own": ((0.0, 0.0),),
    "five": ((0.0, 0.0), (-D, -D), (-D, D), (D, -D), (D, D)),
    "nine": tuple((a, b) for a in (0.0, -D, D) for b in (0.0, -D, D)),
}
FLAGS4 = ((False, False), (True, False), (False, True), (True, True))
FLAGS2 = ((False, False), (True, True))
FLAGS_OFF = ((False, False),)
FLAGS_ON = ((True, True),)


def axis(n, spec):
    origin, step, desc = spec
    a = origin + step * np.arange(n, dtype=np.float64)
    return (a[::-1].copy(), -step) if desc else (a, step)


def sym_layouts(h, w, k):
    """Ranks of the layouts that are minimal in their orbit under the symmetries of the h x w rectangle."""
    n = h * w
    idx = np.arange(n).reshape(h, w)
    perms = []
    for t in range(8):
        g = np.rot90(idx, t % 4)
        if t >= 4:
            g = np.fliplr(g)
        if g.shape == (h, w):
            perms.append(g.ravel())
    pw = k ** np.arange(n - 1, -1, -1, dtype=np.int64)
    ranks = np.arange(k ** n, dtype=np.int64)
    digs = (ranks[:, None] // pw[None, :]) % k
    best = ranks.copy()
    for p in perms:
        best = np.minimum(best, (digs[:, p] * pw).sum(1))
    return [int(r) for r in ranks[best == ranks]]


class Layout:
    __slots__ = ("rank", "data", "cross", "text", "das", "dj", "near", "tag", "barriers")


class AStarSpace(Space):
    def __init__(self, name, shape, alpha="fb", layouts="all", systems=("unit",), disps="own", conns=(4, 8),
                 flags=FLAGS4, res_attr=True, dtype="f8", weight=1.0):
        self.name, self.shape, self.alpha, self.dtype = name, shape, alpha, dtype
        self.h, self.w = shape
        self.n = self.h * self.w
        al = ALPHABETS[alpha]
        self.values, self.letters, self.barriers = al["values"], al["letters"], list(al["barriers"])
        # the `barriers` arguments explored: one (as written in ALPHABETS) or, for alphabets with `lists`, every
        # permutation of every sublist of those lengths (shortest first, itertools.permutations order)
        self.listed = "lists" in al
        self.barrier_lists = [list(p) for m in al["lists"] for p in itertools.permutations(al["barriers"], m)] \
            if self.listed else [list(al["barriers"])]
        self.k = len(self.values)
        self.layout_mode = layouts
        if layouts == "all":
            self.layout_ranks = None
            nlay = self.k ** self.n
        else:
            if layouts == "sym":
                self.layout_ranks = sym_layouts(self.h, self.w, self.k)
            elif layouts == "free":
                self.layout_ranks = [0]
            elif re.fullmatch(r"le[0-9]+", layouts):
                # every layout with at most N cells holding letter 1 (the barrier), all others free; fewest first
                self.layout_ranks = [sum(self.k ** (self.n - 1 - c) for c in cells)
                                     for m in range(int(layouts[2:]) + 1)
                                     for cells in itertools.combinations(range(self.n), m)]
            else:
                raise ValueError(layouts)
            nlay = len(self.layout_ranks)
        self.systems, self.disp_name, self.disps = tuple(systems), disps, DISPS[disps]
        self.conns, self.flags, self.res_attr = tuple(conns), tuple(flags), res_attr
        self.radices = [nlay, len(self.barrier_lists), len(self.systems), len(self.conns), self.n, len(self.disps),
                        self.n, len(self.disps), len(self.flags)]
        self.size = 1
        for r in self.radices:
            self.size *= r
        self.weight = weight
        self._cur = None
        self._sys = None

    def bounds(self):
        return dict(space=self.name, shape=list(self.shape), alphabet=self.alpha, letters=self.letters,
                    cell_values=[str(v) for v in self.values],
                    barriers=self.barrier_lists if self.listed else self.barriers,
                    n_barrier_lists=len(self.barrier_lists), dtype=self.dtype,
                    layouts=self.layout_mode, n_layouts=self.radices[0], systems=list(self.systems),
                    points=self.disp_name, connectivity=list(self.conns),
                    snap_flags=[[int(a), int(b)] for a, b in self.flags], res_attr=self.res_attr, cases=self.size)

    # ---- per-worker state -----------------------------------------------------------------------------------
    def setup(self):
        import xarray as xr
        from xrspatial import a_star_search
        self.xr, self.fn = xr, a_star_search
        self._sysdata()
        # JIT warm-up (also for the diagnostic call signature)
        L = self.layout(0, 0)
        self.attempt(L, self.canon_da(L), (0.0, 0.0), (0.0, 0.0), self.conns[0], True, True)

    def _sysdata(self):
        if self._sys is not None:
            return
        h, w = self.shape
        self._sys = []
        for name in self.systems:
            ys, sy = axis(h, SYSTEMS[name][0])
            xs, sx = axis(w, SYSTEMS[name][1])
            pts = {}
            for d in sorted({d for dv in self.disps for d in dv}):
                py = [float(ys[i] + d * sy) for i in range(h)]
                px = [float(xs[j] + d * sx) for j in range(w)]
                # the cell the statement designates: nearest centre (independent of the construction above)
                ny = [O.nearest_index(ys, p) for p in py]
                nx = [O.nearest_index(xs, p) for p in px]
                pts[d] = (py, px, ny, nx)
            self._sys.append(dict(name=name, ys=ys, xs=xs, sy=sy, sx=sx, pts=pts,
                                  attrs={"res": (abs(float(sx)), abs(float(sy)))} if self.res_attr else {},
                                  aniso=abs(abs(sy) - abs(sx)) > 1e-12))

    def layout_rank(self, li):
        return li if self.layout_ranks is None else self.layout_ranks[li]

    def layout(self, li, bi=0):
        """Layout number li read with barrier list number bi (crossability depends on both)."""
        if self._cur is not None and self._cur.tag == (li, bi):
            return self._cur
        lr = self.layout_rank(li)
        digs = unrank_product(lr, [self.k] * self.n)
        L = Layout()
        L.tag, L.rank = (li, bi), lr
        L.barriers = self.barrier_lists[bi]
        L.data = np.array([self.values[d] for d in digs], dtype=self.dtype).reshape(self.shape)
        bar = set(L.barriers)
        L.cross = [(self.values[d] == self.values[d]) and (self.values[d] not in bar) for d in digs]
        t = "".join(self.letters[d] for d in digs)
        L.text = "/".join(t[r * self.w:(r + 1) * self.w] for r in range(self.h))
        L.das, L.dj, L.near = {}, {}, {}
        self._cur = L
        return L

    def da(self, L, si):
        d = L.das.get(si)
        if d is None:
            s = self._sys[si]
            d = self.xr.DataArray(L.data.copy(), dims=("y", "x"), coords={"y": s["ys"].copy(), "x": s["xs"].copy()},
                                  attrs=dict(s["attrs"]))
            L.das[si] = d
        return d

    def canon_da(self, L):
        """Same surface with unit coordinates and res=(1,1): cell (i, j) is named (float(i), float(j))."""
        d = L.das.get("canon")
        if d is None:
            d = self.xr.DataArray(L.data.copy(), dims=("y", "x"),
                                  coords={"y": np.arange(self.h, dtype=float), "x": np.arange(self.w, dtype=float)},
                                  attrs={"res": (1.0, 1.0)})
            L.das["canon"] = d
        return d

    def dist_from(self, L, conn):
        def f(s):
            key = (conn, s)
            d = L.dj.get(key)
            if d is None:
                d = L.dj[key] = O.dijkstra(L.cross, self.h, self.w, conn, s)
            return d
        return f

    def ends(self, L, cell, disp, snap, s):
        """Acceptable cells for an end point naming `cell` (displaced by `disp` cells)."""
        if L.cross[cell]:
            return (cell,)
        if not snap:
            return ()
        key = (cell, disp, s["name"])
        r = L.near.get(key)
        if r is None:
            y, x = divmod(cell, self.w)
            refs = [(float(y), float(x))]
            if disp != (0.0, 0.0):
                refs.append((y + disp[0], x + disp[1]))
            metrics = [(1.0, 1.0)]
            if s["aniso"]:
                metrics.append((abs(s["sy"]), abs(s["sx"])))
            acc = []
            for ry, rx in refs:
                for wy, wx in metrics:
                    for c in O.nearest_crossable(L.cross, self.h, self.w, ry, rx, wy, wx):
                        if c not in acc:
                            acc.append(c)
            r = L.near[key] = tuple(sorted(acc))
        return r

    # ---- one implementation call + reading ------------------------------------------------------------------
    def attempt(self, L, da, spt, gpt, conn, fs, fg):
        """-> (reading, result bytes)"""
        try:
            res = self.fn(da, spt, gpt, barriers=list(L.barriers), connectivity=conn,
                          snap_start=fs, snap_goal=fg)
            v = np.asarray(res.values, dtype=np.float64)
        except Exception as e:  # an exception on an in-domain input is a violation too
            msg = "a_star_search raised %s: %s" % (type(e).__name__, e)
            return ("bad", msg), msg.encode()
        if v.shape != self.shape:
            return ("bad", "result has shape %r" % (v.shape,)), v.tobytes()
        return O.read_chain(v.ravel().tolist(), L.cross, self.h, self.w, conn), v.tobytes()

    def canon_ok(self, L, conn, sc, gc, fs, fg, S, G):
        w = self.w
        obs, _ = self.attempt(L, self.canon_da(L), (float(sc // w), float(sc % w)), (float(gc // w), float(gc % w)),
                              conn, fs, fg)
        return not O.judge(obs, S, G, self.dist_from(L, conn), w)

    def diagnose(self, L, canonical, conn, sc, gc, fs, fg, S, G, out):
        """Label of a failing case, by differential re-execution (does not influence the verdict):
        astar-pixelid  the same cells named by their own unit coordinates give an acceptable result
        astar-snap     ... else: naming the snapped cells directly, snapping off, gives an acceptable result
        astar-path     otherwise (search / path reconstruction)"""
        if not canonical:
            out.calls(1)
            if self.canon_ok(L, conn, sc, gc, fs, fg, S, G):
                return "astar-pixelid"
        if fs or fg:
            ss = (S or (sc,)) if fs else (sc,)
            gs = (G or (gc,)) if fg else (gc,)
            good = True
            for s in ss:
                for g in gs:
                    out.calls(1)
                    good = good and self.canon_ok(L, conn, s, g, False, False,
                                                  (s,) if L.cross[s] else (), (g,) if L.cross[g] else ())
            if good:
                return "astar-snap"
        return "astar-path"

    # ---- cases ----------------------------------------------------------------------------------------------
    def decode(self, rank):
        li, bi, si, ci, sc, sdi, gc, gdi, fi = unrank_product(rank, self.radices)
        return (li, bi), si, self.conns[ci], sc, self.disps[sdi], gc, self.disps[gdi], self.flags[fi]

    def points(self, s, sc, sd, gc, gd):
        w = self.w
        sy, sx, gy, gx = sc // w, sc % w, gc // w, gc % w
        a, b, c, d = s["pts"][sd[0]], s["pts"][sd[1]], s["pts"][gd[0]], s["pts"][gd[1]]
        spt = (a[0][sy], b[1][sx])
        gpt = (c[0][gy], d[1][gx])
        nominal = (a[2][sy], b[3][sx], c[2][gy], d[3][gx])
        return spt, gpt, nominal

    def describe(self, rank):
        self._sysdata()
        li, si, conn, sc, sd, gc, gd, (fs, fg) = self.decode(rank)
        L, s = self.layout(*li), self._sys[si]
        spt, gpt, _ = self.points(s, sc, sd, gc, gd)
        return {"surface": L.data, "layout": L.text, "barriers": L.barriers, "y": s["ys"], "x": s["xs"],
                "attrs": s["attrs"], "system": s["name"], "start": list(spt), "goal": list(gpt),
                "start_cell": list(divmod(sc, self.w)), "start_displacement": list(sd),
                "goal_cell": list(divmod(gc, self.w)), "goal_displacement": list(gd),
                "connectivity": conn, "snap_start": fs, "snap_goal": fg}

    def run(self, lo, hi, out):
        h, w = self.shape
        zero = (0.0, 0.0)
        for rank in range(lo, hi):
            li, si, conn, sc, sd, gc, gd, (fs, fg) = self.decode(rank)
            L, s = self.layout(*li), self._sys[si]
            spt, gpt, nominal = self.points(s, sc, sd, gc, gd)
            # the cell each point designates (nearest centre); a near-tie would be skipped (none at 0.49 cell)
            step = min(abs(s["sy"]), abs(s["sx"]))
            if min(m for _, m in nominal) < 1e-3 * step:
                out.case(outcome=None, nontrivial=False, calls=0)
                out.tie()
                continue
            if (nominal[0][0], nominal[1][0], nominal[2][0], nominal[3][0]) != (sc // w, sc % w, gc // w, gc % w):
                raise AssertionError("harness: displaced point does not designate the intended cell (rank %d)" % rank)
            S = self.ends(L, sc, sd, fs, s)
            G = self.ends(L, gc, gd, fg, s)
            dist_from = self.dist_from(L, conn)
            obs, raw = self.attempt(L, self.da(L, si), spt, gpt, conn, fs, fg)
            problems = O.judge(obs, S, G, dist_from, w)

            # ---- bookkeeping: what the reference expects, non-triviality --------------------------------------
            canonical = s["name"] == "unit" and sd == zero and gd == zero
            moved = (S != (sc,) and bool(S)) or (G != (gc,) and bool(G))
            if not S or not G:
                kind, hard = "empty:blocked-end-point", False
            else:
                if obs[0] == "chain" and not problems:
                    a, b = obs[1], obs[2]
                else:
                    a, b = S[0], G[0]
                d = dist_from(a)[b]
                if d == O.INF:
                    kind, hard = "empty:no-route", True
                else:
                    kind, hard = "path", d > O.free_distance(h, w, conn, a, b) + 1e-9
            out.count("expected:" + kind)
            if moved:
                out.count("snap moved an end point")
                if len(S) > 1 or len(G) > 1:
                    out.count("snap with equidistant candidates (any accepted)")
            nontrivial = hard or moved or (not canonical and sc != gc)
            out.case(outcome=bytes64(b"%d|%d|" % (L.rank, si) + (repr(L.barriers).encode() if self.listed else b"")
                                     + raw), nontrivial=nontrivial, calls=1)
            out.ok()

            if problems:
                label = self.diagnose(L, canonical, conn, sc, gc, fs, fg, S, G, out)
                out.count("violations:" + label)
                key = "%s|%dx%d|%s:%s%s|sys=%s%s|start=(%d,%d)%+.2f%+.2f|goal=(%d,%d)%+.2f%+.2f|conn=%d|snap=%d%d" % (
                    label, h, w, self.alpha, L.text + ("|barriers=%r" % (L.barriers,) if self.listed else ""),
                    "" if self.dtype == "f8" else ":" + self.dtype,
                    s["name"], "+res" if self.res_attr else "", sc // w, sc % w, sd[0], sd[1],
                    gc // w, gc % w, gd[0], gd[1], conn, fs, fg)
                exp = {"acceptable_start_cells": [list(divmod(c, w)) for c in S],
                       "acceptable_goal_cells": [list(divmod(c, w)) for c in G],
                       "shortest_route_lengths": [[list(divmod(a, w)), list(divmod(b, w)), dist_from(a)[b]]
                                                  for a in S for b in G],
                       "result": "all NaN" if kind != "path" else "one chain start(0) -> goal(optimum)"}
                observed = np.frombuffer(raw, dtype=np.float64).reshape(self.shape) \
                    if len(raw) == 8 * self.n else raw.decode(errors="replace")
                out.violation(rank, key, "%s: %s  [a_star_search(surface %s (%s), start=%r, goal=%r, barriers=%r, "
                              "connectivity=%d, snap_start=%s, snap_goal=%s); y=%s x=%s attrs=%r]"
                              % (label, "; ".join(problems), L.text, self.alpha, spt, gpt, L.barriers, conn, fs, fg,
                                 s["ys"].tolist(), s["xs"].tolist(), s["attrs"]),
                              case=self.describe(rank), observed=observed, expected=exp)
            elif out.want_sample() and hard and obs[0] == "chain" and obs[4] >= 4:
                out.sample({"layout": L.text, "system": s["name"], "start": list(spt), "goal": list(gpt),
                            "connectivity": conn, "snap": [fs, fg],
                            "result": np.frombuffer(raw, dtype=np.float64).reshape(self.shape)})


def _spaces(tier):
    P = AStarSpace
    sp = [
        # ---- path spaces: unit coordinates, every cell named by its own coordinates ---------------------------
        P("paths_2x2_fb", (2, 2)),
        P("paths_3x3_fb", (3, 3)),
        P("paths_2x4_fb", (2, 4)),
        # smallest shape on which a cell can be re-relaxed through a shorter route while still open (a turn around
        # the end of a wall): every layout with <= 3 barriers, snapping off
        P("paths_3x4_fb_le3", (3, 4), layouts="le3", flags=FLAGS_OFF),
        P("paths_2x3_fbn", (2, 3), "fbn"),
        P("paths_2x2_ffbb", (2, 2), "ffbb"),
        P("paths_2x2_fzn", (2, 2), "fzn"),
        # ORDER of the barrier list: every layout over {free, 0, 2, 7} x every permutation of every 2- and 3-element
        # barrier list over (0, 2, 7) [6 + 6 lists]; a value that is not listed is crossable
        P("paths_2x2_fb3_lists", (2, 2), "fb3", flags=FLAGS2),
        P("paths_2x3_fb_i8", (2, 3), "fb", dtype="i8"),
        # ---- coordinate spaces ------------------------------------------------------------------------------
        P("coords_disp_3x3_free", (3, 3), layouts="free", systems=ALL_SYS, disps="nine", conns=(8,),
          flags=FLAGS_OFF, res_attr=False, weight=4.0),
        P("coords_disp_2x4_free", (2, 4), layouts="free", systems=ALL_SYS, disps="nine", conns=(8,),
          flags=FLAGS_OFF, res_attr=False, weight=4.0),
        P("coords_own_2x4_fb_res", (2, 4), systems=NONUNIT, conns=(8,), flags=FLAGS2, res_attr=True),
        P("coords_snap_3x3_le1_res", (3, 3), layouts="le1", systems=ALL_SYS, disps="five", conns=(8,),
          flags=FLAGS_ON, res_attr=True),
    ]
    if tier == "thorough":
        sp += [
            # mixed snap flags are enumerated in full on the quick shapes; the larger shapes take both-off / both-on
            P("paths_3x4_fb", (3, 4), flags=FLAGS2, weight=1.2),
            P("paths_2x6_fb", (2, 6), flags=FLAGS2, weight=1.2),
            P("paths_4x4_fb_sym", (4, 4), layouts="sym", flags=FLAGS_OFF, weight=1.5),
            P("paths_3x3_fbn_sym", (3, 3), "fbn", layouts="sym"),
            P("paths_2x3_ffbb", (2, 3), "ffbb", flags=FLAGS2),
            P("paths_2x2_fb3_lists_mixedsnap", (2, 2), "fb3", flags=FLAGS4[1:3]),
            P("paths_2x3_fb2_lists", (2, 3), "fb2", flags=FLAGS2),
            P("coords_disp_4x2_free", (4, 2), layouts="free", systems=ALL_SYS, disps="nine", conns=(8,),
              flags=FLAGS_OFF, res_attr=False, weight=4.0),
            P("coords_own_2x4_fb", (2, 4), systems=NONUNIT, conns=(8,), flags=FLAGS2, res_attr=False, weight=4.0),
            P("coords_own_3x3_fb_res", (3, 3), systems=NONUNIT, conns=(8,), flags=FLAGS2, res_attr=True),
            P("coords_snap_2x4_le1", (2, 4), layouts="le1", systems=ALL_SYS, disps="five", conns=(8,),
              flags=FLAGS2, res_attr=False, weight=4.0),
        ]
        for n in (5, 6, 7, 8):
            sp.append(P("coords_disp_2x%d_free" % n, (2, n), layouts="free", systems=ALL_SYS, disps="five",
                        conns=(8,), flags=FLAGS_OFF, res_attr=False, weight=4.0))
            sp.append(P("coords_disp_%dx2_free" % n, (n, 2), layouts="free", systems=ALL_SYS, disps="five",
                        conns=(8,), flags=FLAGS_OFF, res_attr=False, weight=4.0))
    return sp


_CACHE = {}


def build(tier):
    if tier not in _CACHE:
        _CACHE[tier] = _spaces(tier)
    return _CACHE[tier]


def _bounds(tier):
    return {"spaces": [s.bounds() for s in build(tier)], "displacement_cells": D,
            "coordinate_systems": {k: {"y(origin,step,descending)": list(v[0]),
                                       "x(origin,step,descending)": list(v[1])} for k, v in SYSTEMS.items()}}


BOUNDS = {t: _bounds(t) for t in ("quick", "thorough")}
