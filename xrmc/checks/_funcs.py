"""Table of every public raster-in / raster-out analysis function (shared by C10 and C11).

Fn.call(rasters) receives freshly built DataArrays (the caller keeps references to inspect them afterwards).
identity: 'full'  -> output must have the first raster's shape, dims, coords (scalar ones included), attrs, backend
          'hotspots' -> like full, attrs = copy of input attrs + unit
          'own'   -> documented own shape (generators, focal_stats, true_color, polygonize): only non-mutation / non-aliasing
          'view'  -> trim / crop: window of the input (aliasing allowed), non-mutation checked
          'inplace' -> zonal.apply: `values` is updated in place by contract (zones must stay untouched)
          'table' -> returns a DataFrame / non-raster: only non-mutation
          'dtypewiden' -> viewshed: like full
"""
import numpy as np


AUX = {}


class Fn:
    def __init__(self, name, call, nr=1, identity="full", dask=True, kinds="iuf", needs=None, heavy=False):
        self.name, self.call, self.nr, self.identity, self.dask = name, call, nr, identity, dask
        self.kinds = kinds          # accepted dtype kinds of the primary raster (documented domain)
        self.needs = needs          # 'yx' -> dims must be named y/x ; None
        self.heavy = heavy


def build_funcs():
    import xarray as xr
    import xrspatial as xs
    from xrspatial import classify, convolution, focal, local, multispectral as ms, zonal
    from xrspatial.analytics import summarize_terrain
    from xrspatial.experimental import polygonize as pz
    from xrspatial.utils import ngjit

    k33 = np.ones((3, 3))
    k35 = np.array([[1, 0, 1, 1, 0], [0, 1, 1, 0, 1], [1, 1, 0, 1, 1.0]])

    @ngjit
    def _sumsq(kv):
        return np.nansum(kv * kv)

    F = []
    AUX.clear()
    AUX.update({"k33": k33, "k35": k35})      # caller-owned array arguments other than rasters (kernels): monitored too
    add = F.append
    add(Fn("slope", lambda r: xs.slope(r[0])))
    add(Fn("aspect", lambda r: xs.aspect(r[0])))
    add(Fn("curvature", lambda r: xs.curvature(r[0])))
    add(Fn("hillshade", lambda r: xs.hillshade(r[0])))
    add(Fn("focal.mean", lambda r: focal.mean(r[0], passes=2)))
    # degenerate parameterisations (zero-iteration / identity paths, where "no work" must still mean "fresh output")
    add(Fn("focal.mean[passes=0]", lambda r: focal.mean(r[0], passes=0)))
    add(Fn("focal.mean[passes=1]", lambda r: focal.mean(r[0], passes=1, excludes=[0.0])))
    add(Fn("focal.apply[1x1]", lambda r: focal.apply(r[0], np.ones((1, 1)))))
    add(Fn("convolution_2d[1x1]", lambda r: convolution.convolution_2d(r[0], np.ones((1, 1)))))
    add(Fn("focal.apply", lambda r: focal.apply(r[0], k35, _sumsq)))
    add(Fn("focal.focal_stats", lambda r: focal.focal_stats(r[0], k33), identity="own"))
    add(Fn("focal.hotspots", lambda r: focal.hotspots(r[0], k33), identity="hotspots"))
    add(Fn("convolution_2d", lambda r: convolution.convolution_2d(r[0], k35)))
    add(Fn("binary", lambda r: classify.binary(r[0], [1, 3, 6])))
    add(Fn("reclassify", lambda r: classify.reclassify(r[0], bins=[1, 3, 5, 9], new_values=[10, 20, 30, 40])))
    add(Fn("quantile", lambda r: classify.quantile(r[0], k=3)))
    add(Fn("natural_breaks", lambda r: classify.natural_breaks(r[0], k=3), dask=False))
    add(Fn("equal_interval", lambda r: classify.equal_interval(r[0], k=3)))
    for n in ("gci", "nbr", "nbr2", "ndvi", "ndmi", "savi"):
        add(Fn(n, lambda r, f=getattr(ms, n): f(r[0], r[1]), nr=2))
    for n in ("arvi", "evi", "sipi", "ebbi"):
        add(Fn(n, lambda r, f=getattr(ms, n): f(r[0], r[1], r[2]), nr=3))
    add(Fn("true_color", lambda r: ms.true_color(r[0], r[1], r[2]), nr=3, identity="own", needs="yx"))
    add(Fn("proximity", lambda r: xs.proximity(r[0], max_distance=2.5), needs="yx", heavy=True))
    add(Fn("allocation", lambda r: xs.allocation(r[0]), needs="yx", heavy=True))
    add(Fn("direction", lambda r: xs.direction(r[0], max_distance=2.5), needs="yx", heavy=True))
    add(Fn("a_star_search", lambda r: xs.a_star_search(r[0], (float(r[0]["y"][0]), float(r[0]["x"][0])),
                                                       (float(r[0]["y"][-1]), float(r[0]["x"][-1])), barriers=[0]),
           dask=False, needs="yx"))
    add(Fn("a_star_search[start=goal]", lambda r: xs.a_star_search(r[0], (float(r[0]["y"][1]), float(r[0]["x"][1])),
                                                                   (float(r[0]["y"][1]), float(r[0]["x"][1])), barriers=[]),
           dask=False, needs="yx"))
    add(Fn("viewshed", lambda r: xs.viewshed(r[0], x=float(r[0]["x"][1]), y=float(r[0]["y"][1]), observer_elev=2),
           dask=False, identity="dtypewiden", needs="yx", heavy=True))
    add(Fn("regions", lambda r: zonal.regions(r[0], neighborhood=8), dask=False))
    add(Fn("zonal.stats", lambda r: zonal.stats(r[0], r[1]), nr=2, identity="table"))
    add(Fn("zonal.stats[DataArray]", lambda r: zonal.stats(r[0], r[1], return_type="xarray.DataArray"), nr=2,
           identity="own", dask=False))
    add(Fn("zonal.crosstab", lambda r: zonal.crosstab(r[0], r[1]), nr=2, identity="table"))
    add(Fn("zonal.apply", lambda r: zonal.apply(r[0], r[1], lambda x: x * 2.0), nr=2, identity="inplace", dask=False))
    add(Fn("zonal.trim", lambda r: zonal.trim(r[0], values=(0,)), identity="view", dask=False))
    add(Fn("zonal.crop", lambda r: zonal.crop(r[0], r[1], zones_ids=(1, 2)), nr=2, identity="view", dask=False))
    add(Fn("polygonize", lambda r: pz(r[0], connectivity=8), identity="table", dask=False, kinds="if"))
    add(Fn("summarize_terrain", lambda r: summarize_terrain(r[0]), identity="view"))
    add(Fn("perlin", lambda r: xs.perlin(r[0]), identity="own", kinds="f"))
    add(Fn("generate_terrain", lambda r: xs.generate_terrain(r[0]), identity="own", kinds="f", heavy=True))

    def ds_of(r):
        return xr.Dataset({"a": r[0], "b": r[1], "c": r[2]})

    def ds_ref(r):
        ref = (r[0] * 0 + 1 + (r[1] % 3)).astype(r[0].dtype)
        return xr.Dataset({"ref": ref, "a": r[0], "b": r[1], "c": r[2]})

    add(Fn("local.cell_stats", lambda r: local.cell_stats(ds_of(r), func="max"), nr=3, identity="local", dask=False))
    add(Fn("local.combine", lambda r: local.combine(ds_of(r)), nr=3, identity="local", dask=False))
    add(Fn("local.lesser_frequency", lambda r: local.lesser_frequency(ds_ref(r), "ref"), nr=3, identity="local", dask=False))
    add(Fn("local.equal_frequency", lambda r: local.equal_frequency(ds_ref(r), "ref"), nr=3, identity="local", dask=False))
    add(Fn("local.greater_frequency", lambda r: local.greater_frequency(ds_ref(r), "ref"), nr=3, identity="local", dask=False))
    add(Fn("local.lowest_position", lambda r: local.lowest_position(ds_of(r)), nr=3, identity="local", dask=False))
    add(Fn("local.highest_position", lambda r: local.highest_position(ds_of(r)), nr=3, identity="local", dask=False))
    add(Fn("local.popularity", lambda r: local.popularity(ds_ref(r), "ref"), nr=3, identity="local", dask=False))
    add(Fn("local.rank", lambda r: local.rank(ds_ref(r), "ref"), nr=3, identity="local", dask=False))
    return F
