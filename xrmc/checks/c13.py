"""C13 — spectral indices equal their published band formulas, NaN where undefined; true_color alpha.

Engine E1 (exhaustive input / configuration enumeration), NumPy backend.  The indices are per-cell functions,
so EVERY tuple of band values over the alphabet is laid out in one raster (natural order, a permuted order,
a transposed shape) and additionally fed as 1-cell rasters, for every combination of band dtypes and every
parameter combination; each cell is compared with the published formula evaluated on exact rationals
(xrmc/oracles/spectral.py).  true_color: every red raster over a small alphabet x nodata (space true_color), and every
red raster over the values ON and immediately on either side of nodata IN THE RED RASTER'S OWN DTYPE (float64 and float32
neighbours of nodata; 2^24-1, 2^24, 2^24+1 for int64/uint32/int32 rasters) x nodata (space true_color_nodata_edge).  The four normalised-difference indices are additionally checked for
|v| <= 1 (non-negative bands), exact negation under band swap and exact invariance under 2^k scaling.
MEMORY LAYOUT of the band rasters (spaces <index>_mem): the same every-tuple raster on a non-square shape, wide and
tall, with each band INDEPENDENTLY stored row-major (C), column-major (np.asfortranarray, F), as the transposed view of
a row-major (x, y) array (T) or as a non-contiguous view - every other column of a wider raster (S); the formula is per
cell, so the oracle is the same; the band-swap / 2^k relations are re-checked with the layouts kept."""
import itertools

import numpy as np

from ..core.digest import bytes64
from ..core.space import Space
from ..core.spaces import SumSpace
from ..oracles import spectral as ref

PROPERTY = "C13"
LEVEL = "model_checking"
NAN = float("nan")

SIGMA = (0, 0.5, 1, 2, 3, 255, 65535, NAN)
DT_ALPHA = {"u1": (0, 1, 2, 3, 255), "u2": (0, 1, 2, 3, 255, 65535), "i2": (0, 1, 2, 3, 255, -3),
            "f4": SIGMA, "f8": SIGMA}
DTYPES = ("u1", "u2", "i2", "f4", "f8")
SOIL = (-1.0, -0.5, 0.0, 0.5, 1.0)
C12S = (0.0, 6.0, 7.5)
GAINS = (0.0, 1.0, 2.5)
SCALE_K = (1, 3, -2)
NODATA = (0, 1, 5)
TC_ALPHA = {"f8": (0, 0.5, 1, 2, 5, 6, 255, -1, NAN), "f4": (0, 0.5, 1, 2, 5, 6, 255, -1, NAN),
            "u1": (0, 1, 2, 5, 6, 255), "i2": (0, 1, 2, 5, 6, -1)}
# red values adjacent to nodata in the red raster's own dtype: dtype -> nodata values (simplest first)
TC_EDGE_NODATA = {"f8": (1, 0, 5, 16777216, 0.1), "f4": (1, 0, 5, 16777216, 0.1, 16777219),
                  "i8": (16777216, 1, 16777217, 16777216.5), "u4": (16777216, 1, 16777217), "i4": (16777216, 16777217)}
TC_EDGE_SHAPES = ((1, 1), (1, 2), (1, 3))
TC_SHAPES = {"quick": ((1, 1), (1, 2), (1, 3), (2, 2)), "thorough": ((1, 1), (1, 2), (1, 3), (2, 2), (1, 5))}
RTOL, ATOL = 1e-6, 1e-12
# memory layout of one band raster (simplest first)
MEM_KINDS = (("C", "row-major, owns its data"), ("F", "column-major (np.asfortranarray), owns its data"),
             ("T", "transposed view of a row-major (x, y) array"),
             ("S", "non-contiguous view: every other column of a row-major raster twice as wide"))
EVI_PUBLISHED = (6.0, 7.5, 1.0, 2.5)
# band dtypes of the memory-layout spaces (quick: one integer type, float32 = the kernels' own type, float64)
MEM_DTYPES = {"quick": ("u1", "f4", "f8"), "thorough": DTYPES}

RULE = ("index spaces: rank -> (dtype of each band, layout, parameter combination); layouts 0..2 hold EVERY tuple of "
        "band values over the per-dtype alphabets in one raster (natural order / reversed+rotated single row / "
        "transposed shape), layouts >= 3 are the 1-cell rasters of each tuple; every cell is compared with the "
        "published formula; a case is non-trivial when its output has a finite non-zero cell; true_color: rank -> "
        "(dtype, shape, every red raster over the alphabet, nodata); <index>_mem spaces: rank -> (orientation wide/tall, "
        "memory layout of each band C/F/T/S independently, dtype of each band [quick: u1/f4/f8], parameter combination) on the "
        "every-tuple raster of a non-square shape; true_color_nodata_edge: rank -> (dtype, nodata, "
        "shape, every red raster over {nodata and its neighbours in the raster dtype, NaN}); distinct = distinct (inputs, output) digests")
ASSUMPTIONS = [
    "NumPy backend only (Dask is covered by C01)",
    "band values are restricted to the alphabet {0,0.5,1,2,3,255,65535,NaN} (integers: the representable subset, "
    "int16 additionally -3) so that every formula is exact in the rationals and far from float32 rounding ties; "
    "comparison rtol 1e-6",
    "ARVI is asserted in the widely published '(NIR-2R+B)/(NIR+2R+B)' form that the docstring example pins; the "
    "Kaufman-Tanre original has '-B' in the denominator",
    "EBBI with swir + tir < 0 (square root of a negative number) is not asserted",
    "|index| <= 1 is asserted only for non-negative bands; 2^k scaling of integer rasters is applied to the cells "
    "whose scaled values stay representable in the dtype",
    "invalid parameters: only a soil_factor outside [-1, 1] is documented as invalid and asserted to be rejected; "
    "gain < 0 and non-numeric c1/c2 are explored and counted (counter invalid_*), not asserted",
    "EVI parameters are passed as Python floats; quick tier: 1-cell EVI rasters only for equal band dtypes (the "
    "per-cell kernel does not depend on the combination), thorough: for every dtype combination",
    "memory layouts (<index>_mem spaces): row-major, column-major, transposed view, every-other-column view, "
    "independently per band; negative strides, broadcast (zero-stride) bands and non-native byte order are not "
    "generated; EVI takes the published coefficients (c1=6, c2=7.5, L=1, G=2.5) and, in the thorough tier, every "
    "parameter combination with all-float64 bands (parameters are scalars, orthogonal to the "
    "layout; every combination is enumerated with row-major bands in the evi space); quick tier: band dtypes "
    "uint8 / float32 / float64 in the _mem spaces (all five in thorough); true_color is explored with row-major "
    "bands only",
    "true_color: only shape, dtype and the alpha channel are asserted; RGB values are not part of the statement",
    "true_color: 'red <= nodata' is decided exactly on the cell as stored in the red raster's own dtype and nodata as "
    "passed (Python number).  float32 red raster with a nodata that is not float32-representable (0.1, 2^24+3): the "
    "cell equal to float32(nodata) > nodata is a tie (the raster's own nodata value can only be float32(nodata)); "
    "its float32 neighbours are asserted",
]
BOUNDS = {t: {
    "band_alphabets": {k: [str(x) for x in v] for k, v in DT_ALPHA.items()},
    "band_dtypes": "every combination of " + ",".join(DTYPES),
    "soil_factor": list(SOIL), "c1": list(C12S), "c2": list(C12S), "gain": list(GAINS), "scale_k": list(SCALE_K),
    "memory_layouts": {"kinds": dict(MEM_KINDS), "per_band": "independently: %d^2 = %d combinations for 2-band indices, "
                       "%d^3 = %d for 3-band indices" % (len(MEM_KINDS), len(MEM_KINDS) ** 2, len(MEM_KINDS),
                                                         len(MEM_KINDS) ** 3),
                       "shapes": "every band tuple in one raster of shape (h, n/h) [one padding column when that is "
                                 "square] and its tall counterpart (n/h, h); h = size of the first band's alphabet",
                       "band_dtypes": "every combination of " + ",".join(MEM_DTYPES[t]),
                       "evi_params": "(c1, c2, soil_factor, gain) = (6, 7.5, 1, 2.5)"
                                     + ("; all combinations for all-float64 bands" if t == "thorough" else "")},
    "true_color": {"red_alphabets": {k: [str(x) for x in v] for k, v in TC_ALPHA.items()},
                   "shapes": [list(s) for s in TC_SHAPES[t]], "nodata": list(NODATA)},
    "true_color_nodata_edge": {
        "nodata_by_red_dtype": {k: [repr(x) for x in v] for k, v in TC_EDGE_NODATA.items()},
        "red_alphabet": "float64: nodata, its 2 float64 neighbours, float32(nodata) and its 2 float32 neighbours, NaN; "
                        "float32: float32(nodata), its 2 float32 neighbours, NaN; integer dtypes: nodata-1, nodata, "
                        "nodata+1 (floor, ceil for a fractional nodata)",
        "shapes": [list(s) for s in TC_EDGE_SHAPES]},
} for t in ("quick", "thorough")}


def _da(a):
    import xarray as xr
    return xr.DataArray(a, dims=("y", "x"))


def relayout(a, kind):
    """A fresh array equal to `a` (same shape, dtype, values) stored with memory layout `kind` (see MEM_KINDS)."""
    if kind == "C":
        r = np.array(a, order="C", copy=True)
    elif kind == "F":
        r = np.array(a, order="F", copy=True)
    elif kind == "T":
        r = np.array(a.T, order="C", copy=True).T
    elif kind == "S":
        big = np.empty((a.shape[0], 2 * a.shape[1]), dtype=a.dtype)
        big[:, 0::2] = a
        big[:, 1::2] = a[::-1, ::-1]                      # unrelated values in the skipped columns
        r = big[:, 0::2]
    else:
        raise ValueError(kind)
    assert r.shape == a.shape and r.dtype == a.dtype and np.array_equal(r, a, equal_nan=(a.dtype.kind == "f"))
    return r


def _fmt(t):
    return "(" + ",".join(repr(float(x)) for x in t) + ")"


class IndexSpace(Space):
    def __init__(self, name, tier="quick"):
        self.fn_name = self.name = name
        _, self.bands, self.pnames = ref.INDICES[name]
        nb = len(self.bands)
        if name == "savi":
            self.params = [(s,) for s in SOIL]
        elif name == "evi":
            self.params = list(itertools.product(C12S, C12S, SOIL, GAINS))
        else:
            self.params = [()]
        self.dts = list(itertools.product(DTYPES, repeat=nb))
        self.ncell = []
        parts = []
        for dt in self.dts:
            nt = 1
            for d in dt:
                nt *= len(DT_ALPHA[d])
            cells = nt if (name != "evi" or len(set(dt)) == 1 or tier == "thorough") else 0
            self.ncell.append(cells)
            parts.append(("/".join(dt), (3 + cells) * len(self.params)))
        self.parts = SumSpace(parts)
        self.size = self.parts.size
        self.weight = 3.0 if nb == 3 else 1.0
        self._tuples, self._exp = {}, {}
        self._mem = self._shape = None

    def setup(self):
        from xrspatial import multispectral
        self.fn = getattr(multispectral, self.fn_name)

    # ---- enumeration ---------------------------------------------------------------------------------
    def tuples(self, dt):
        if dt not in self._tuples:
            self._tuples[dt] = list(itertools.product(*[DT_ALPHA[d] for d in dt]))
        return self._tuples[dt]

    def case(self, rank):
        p, local = self.parts.locate(rank)
        dt = self.dts[p]
        lay, pi = divmod(local, len(self.params))
        T = self.tuples(dt)
        n = len(T)
        if lay == 0:
            order, shape = list(range(n)), (len(DT_ALPHA[dt[0]]), n // len(DT_ALPHA[dt[0]]))
        elif lay == 1:
            rev = list(range(n))[::-1]
            order, shape = rev[7 % n:] + rev[:7 % n], (1, n)
        elif lay == 2:
            h = len(DT_ALPHA[dt[0]])
            order, shape = np.arange(n).reshape(h, n // h).T.ravel().tolist(), (n // h, h)
        else:
            order, shape = [lay - 3], (1, 1)
        arrays = [np.array([T[i][b] for i in order], dtype=dt[b]).reshape(shape) for b in range(len(dt))]
        return dt, lay, pi, order, arrays, None

    def describe(self, rank):
        dt, lay, pi, order, arrays, mem = self.case(rank)
        d = {"function": self.fn_name, "layout": lay, "params": dict(zip(self.pnames, self.params[pi]))}
        if mem:
            d["layout"] = "every tuple, " + ("wide" if lay == 0 else "tall (tuples run down the columns)")
            d["memory_layout"] = {b: "%s = %s" % (k, dict(MEM_KINDS)[k]) for b, k in zip(self.bands, mem)}
        for nme, a in zip(self.bands, arrays):
            d[nme] = a
        return d

    @staticmethod
    def fresh(arrays, mem):
        """Private copies of the band rasters for one call (memory layouts `mem`, row-major when None)."""
        if mem is None:
            return [a.copy() for a in arrays]
        return [relayout(a, k) for a, k in zip(arrays, mem)]

    def expected(self, dt, pi):
        key = (dt, pi)
        if key not in self._exp:
            vals, outside = [], []
            for t in self.tuples(dt):
                e = ref.expected(self.fn_name, t, self.params[pi])
                outside.append(e is ref.OUTSIDE)
                vals.append(NAN if (e is None or e is ref.OUTSIDE) else e)
            self._exp[key] = (np.array(vals, dtype=np.float64), np.array(outside, dtype=bool))
        return self._exp[key]

    def call(self, arrays, params, by_keyword):
        das = [_da(a) for a in arrays]
        kw = dict(zip(self.pnames, params))
        if by_keyword:
            kw.update({b + "_agg": d for b, d in zip(self.bands, das)})
            return np.asarray(self.fn(**kw).values)
        return np.asarray(self.fn(*das, **kw).values)

    # ---- exploration ---------------------------------------------------------------------------------
    def run(self, lo, hi, out):
        for rank in range(lo, hi):
            self.one(rank, out)

    def viol(self, out, rank, kind, dt, pi, t, text, observed=None, expected=None, sig=None):
        ptxt = ",".join("%s=%r" % kv for kv in zip(self.pnames, self.params[pi]))
        out.count("viol.%s.%s" % (self.fn_name, kind))
        mem = self._mem
        mkey = ("|mem=%s|%dx%d" % ("/".join(mem), self._shape[0], self._shape[1])) if mem else ""
        mtxt = (" bands stored %s, raster %dx%d" % ("/".join(mem), self._shape[0], self._shape[1])) if mem else ""
        out.violation(rank, "%s.%s|%s|%s|bands=%s%s" % (self.fn_name, kind, "/".join(dt), ptxt, _fmt(t), mkey),
                      "%s(%s%s) [%s%s]: %s" % (self.fn_name, ", ".join("%s=%r" % (b, float(v)) for b, v in
                                                                       zip(self.bands, t)),
                                               (", " + ptxt) if ptxt else "", "/".join(dt), mtxt, text),
                      case=self.describe(rank), observed=observed, expected=expected, sig=sig)

    def one(self, rank, out):
        dt, lay, pi, order, arrays, mem = self.case(rank)
        self._mem, self._shape = mem, arrays[0].shape
        params = self.params[pi]
        T = self.tuples(dt)
        calls = 1
        try:
            o = self.call(self.fresh(arrays, mem), params, by_keyword=(lay % 2 == 1))
        except Exception as e:                                       # noqa: BLE001
            out.case(outcome=bytes64(repr(e).encode()), nontrivial=False)
            self.viol(out, rank, "raises", dt, pi, T[order[0]], "raised %r" % (e,), observed=repr(e))
            return
        digest = bytes64(b"".join(a.tobytes() for a in arrays) + repr(params).encode() + o.tobytes()
                         + (repr((mem, arrays[0].shape)).encode() if mem else b""))
        fin = np.isfinite(o)
        nontrivial = bool(np.any(fin & (o != 0)))
        if o.shape != arrays[0].shape:
            out.case(outcome=digest, nontrivial=nontrivial)
            self.viol(out, rank, "shape", dt, pi, T[order[0]], "output shape %r" % (o.shape,))
            return
        exp_all, outside_all = self.expected(dt, pi)
        idx = np.array(order)
        e, outside = exp_all[idx], outside_all[idx]
        of = o.ravel().astype(np.float64)
        bad_inf = np.isinf(of) & ~outside
        bad_nan = (np.isnan(of) != np.isnan(e)) & ~outside & ~bad_inf
        with np.errstate(invalid="ignore"):
            bad_val = ~np.isnan(of) & ~np.isnan(e) & ~bad_inf & ~outside & (np.abs(of - e) > RTOL * np.abs(e) + ATOL)
        bad = bad_inf | bad_nan | bad_val
        out.ok(int(np.sum(~outside & ~bad)))
        out.tie(int(np.sum(outside)))
        out.count("cells_zero_denominator_or_nan_band", int(np.sum(np.isnan(e) & ~outside)))
        if bad.any():
            out.case(outcome=digest, nontrivial=nontrivial, calls=calls)
            j = int(np.argmax(bad))
            t = T[order[j]]
            ev = "NaN" if np.isnan(e[j]) else repr(float(np.float32(e[j])))
            if bad_inf[j]:
                kind, text = "inf", "returned %r; a zero denominator must give NaN, never +-inf" % of[j]
            elif np.isnan(e[j]):
                kind, text = "nan_expected", "returned %r, expected NaN (zero denominator or NaN band)" % of[j]
            else:
                kind, text = "formula", "returned %r, the published formula gives %s" % (float(o.ravel()[j]), ev)
            sig = None
            if self.fn_name == "savi":
                # known finding: the implementation DIVIDES by (1+L) where Huete's formula multiplies.  Only an output that
                # is exactly that documented-in-the-repo form is attributed to the finding; anything else is a new violation.
                L = float(params[0])
                e_div = np.full_like(e, np.nan) if L == -1.0 else e / (1.0 + L) ** 2
                with np.errstate(invalid="ignore"):
                    same_div = (np.isnan(of) == np.isnan(e_div)) & (np.isnan(e_div) | (np.abs(of - e_div) <= RTOL * np.abs(e_div) + ATOL))
                if bool(np.all(same_div | outside)):
                    kind, sig = "formula", "savi|divides-by-(1+L)-instead-of-multiplying"
                else:
                    kind = "formula-other"
            self.viol(out, rank, kind, dt, pi, t, text, observed=o, expected=e.reshape(o.shape), sig=sig)
            return
        # ---- relations of the normalised-difference indices --------------------------------------------
        if self.fn_name in ref.NORMALISED_DIFFERENCE:
            a, b = arrays
            nonneg = (a.ravel() >= 0) & (b.ravel() >= 0) & ~np.isnan(of)
            if np.any(np.abs(of[nonneg]) > 1):
                j = int(np.argmax(nonneg & (np.abs(of) > 1)))
                out.case(outcome=digest, nontrivial=nontrivial, calls=calls)
                self.viol(out, rank, "range", dt, pi, T[order[j]], "|index| = %r > 1 for non-negative bands" % of[j],
                          observed=o)
                return
            out.ok(int(np.sum(nonneg)))
            osw = self.call(self.fresh([b, a], mem[::-1] if mem else None), params, by_keyword=False)
            calls += 1
            if not np.array_equal(osw, -o, equal_nan=True):
                with np.errstate(invalid="ignore"):
                    j = int(np.argmax(~((osw == -o) | (np.isnan(osw) & np.isnan(o))).ravel()))
                out.case(outcome=digest, nontrivial=nontrivial, calls=calls)
                self.viol(out, rank, "swap", dt, pi, T[order[j]], "swapping the two bands gives %r, not the "
                          "negation of %r" % (float(osw.ravel()[j]), float(o.ravel()[j])), observed=osw,
                          expected=-o)
                return
            out.ok(o.size)
            for k in SCALE_K:
                f = 2.0 ** k
                mask = np.ones(a.shape, dtype=bool)
                scaled = []
                for arr in (a, b):
                    s = arr.astype(np.float64) * f
                    if arr.dtype.kind in "iu":
                        info = np.iinfo(arr.dtype)
                        mask &= (s == np.floor(s)) & (s >= info.min) & (s <= info.max)
                    scaled.append(s)
                if not mask.any():
                    continue
                sc = [np.where(mask, s, arr.astype(np.float64)).astype(arr.dtype) for s, arr in zip(scaled, (a, b))]
                ok_ = self.call(self.fresh(sc, mem), params, by_keyword=False)
                calls += 1
                if not np.array_equal(ok_, o, equal_nan=True):
                    with np.errstate(invalid="ignore"):
                        j = int(np.argmax(~((ok_ == o) | (np.isnan(ok_) & np.isnan(o))).ravel()))
                    out.case(outcome=digest, nontrivial=nontrivial, calls=calls)
                    self.viol(out, rank, "scale", dt, pi, T[order[j]], "scaling both bands by 2^%d changes the index "
                              "from %r to %r" % (k, float(o.ravel()[j]), float(ok_.ravel()[j])), observed=ok_,
                              expected=o)
                    return
                out.ok(int(mask.sum()))
        out.case(outcome=digest, nontrivial=nontrivial, calls=calls)
        if out.want_sample() and (lay == 1 or mem) and len(set(dt)) > 1:
            s = self.describe(rank)
            s["out"] = o
            out.sample(s)


class IndexMemSpace(IndexSpace):
    """Memory layout of the band rasters: rank -> (orientation, memory layout of each band, dtype of each band,
    parameter combination).  The raster holds EVERY tuple of band values (as IndexSpace layout 0) on a non-square
    shape (h, n/h) - padded by one column repeating the first tuples when that would be square - or its tall
    counterpart (n/h, h) with the tuples running down the columns.  All of IndexSpace's assertions apply."""

    def __init__(self, name, tier="quick"):
        IndexSpace.__init__(self, name, tier)
        self.name = name + "_mem"
        nb = len(self.bands)
        self.mems = list(itertools.product([k for k, _ in MEM_KINDS], repeat=nb))
        self.dts = list(itertools.product(MEM_DTYPES[tier], repeat=nb))
        # per dtype combination: the parameter indices explored (EVI: the published coefficients; thorough tier:
        # every combination with all-float64 bands)
        allp = list(range(len(self.params)))
        if name == "evi":
            pub = [self.params.index(EVI_PUBLISHED)]
            self.pis = [allp if (tier == "thorough" and set(dt) == {"f8"}) else pub for dt in self.dts]
        else:
            self.pis = [allp for dt in self.dts]
        self.dtparts = SumSpace([("/".join(dt), len(pis)) for dt, pis in zip(self.dts, self.pis)])
        self.size = 2 * len(self.mems) * self.dtparts.size
        # memory layout is the slowest-varying digit and the shards are few: a worker compiles only the kernel
        # specialisations of the layouts in its shard
        self.grain = max(1, self.size // 8)

    def case(self, rank):
        mo, local = divmod(rank, self.dtparts.size)
        orient, mi = divmod(mo, len(self.mems))
        p, j = self.dtparts.locate(local)
        dt, pi = self.dts[p], self.pis[p][j]
        T = self.tuples(dt)
        n = len(T)
        h = len(DT_ALPHA[dt[0]])
        w = n // h + (1 if n // h == h else 0)
        order = list(range(n)) + list(range(h * w - n))
        if orient == 0:
            shape = (h, w)
        else:
            order, shape = np.array(order).reshape(h, w).T.ravel().tolist(), (w, h)
        arrays = [np.array([T[i][b] for i in order], dtype=dt[b]).reshape(shape) for b in range(len(dt))]
        return dt, orient, pi, order, arrays, self.mems[mi]          # orient 1 (tall): bands passed by keyword


# ---------------------------------------------------------------------------------------------------
# invalid parameters
# ---------------------------------------------------------------------------------------------------
INVALID = ([("savi", {"soil_factor": s}, True) for s in (-1.5, 1.5, 2.0, -2.0, 1.0000001, -1.0000001)]
           + [("evi", {"soil_factor": s}, True) for s in (-1.5, 1.5, 2.0, -2.0, 1.0000001, -1.0000001)]
           + [("evi", {"gain": g}, False) for g in (-1.0, -0.5, -1e-9)]
           + [("evi", {"c1": c}, False) for c in ("6", None)]
           + [("evi", {"c2": c}, False) for c in ("7.5", None)])


class InvalidParamSpace(Space):
    name = "invalid_params"

    def __init__(self):
        self.size = len(INVALID) * len(DTYPES)

    def setup(self):
        from xrspatial import multispectral
        self.ms = multispectral

    def describe(self, rank):
        name, kw, asserted = INVALID[rank // len(DTYPES)]
        return {"function": name, "params": {k: repr(v) for k, v in kw.items()}, "dtype": DTYPES[rank % len(DTYPES)]}

    def run(self, lo, hi, out):
        for rank in range(lo, hi):
            name, kw, asserted = INVALID[rank // len(DTYPES)]
            dt = DTYPES[rank % len(DTYPES)]
            nb = len(ref.INDICES[name][1])
            arrays = [np.array([[1, 2], [3, 0]], dtype=dt) + i for i in range(nb)]
            try:
                r = getattr(self.ms, name)(*[_da(a) for a in arrays], **kw)
                res = "returned"
                np.asarray(r.values)
            except Exception as e:                                   # noqa: BLE001
                res = type(e).__name__
            out.case(outcome=bytes64(("%s|%r|%s|%s" % (name, kw, dt, res)).encode()), nontrivial=res != "returned")
            if not asserted:
                out.count("invalid_%s_%s_%s" % (name, "_".join(kw), "rejected" if res != "returned" else "accepted"))
                continue
            out.ok()
            if res == "returned":
                out.count("viol.%s.invalid_accepted" % name)
                out.violation(rank, "%s.invalid_accepted|%s|%r" % (name, dt, kw),
                              "%s accepted %r although the docstring restricts soil_factor to [-1.0, 1.0]" % (name, kw),
                              case=self.describe(rank))


# ---------------------------------------------------------------------------------------------------
# true_color
# ---------------------------------------------------------------------------------------------------
class TrueColorSpace(Space):
    name = "true_color"
    weight = 5.0

    def __init__(self, tier):
        self.combos = [(dt, s) for dt in ("f8", "f4", "u1", "i2") for s in TC_SHAPES[tier]]
        self.parts = SumSpace([("%s_%dx%d" % (dt, s[0], s[1]), len(TC_ALPHA[dt]) ** (s[0] * s[1]) * len(NODATA))
                               for dt, s in self.combos])
        self.size = self.parts.size

    def setup(self):
        from xrspatial.multispectral import true_color
        self.fn = true_color

    def case(self, rank):
        from ..core.rasters import grid
        p, local = self.parts.locate(rank)
        dt, shape = self.combos[p]
        g, ni = divmod(local, len(NODATA))
        red = grid(g, shape, TC_ALPHA[dt], dt)
        return dt, red, NODATA[ni]

    def describe(self, rank):
        dt, red, nodata = self.case(rank)
        return {"function": "true_color", "r": red, "g": red[::-1, ::-1].copy(), "b": np.full_like(red, 3),
                "nodata": nodata}

    def run(self, lo, hi, out):
        for rank in range(lo, hi):
            dt, red, nodata = self.case(rank)
            cells = red.ravel().tolist()                          # exact Python numbers (ints stay ints)
            key = "|%s|%dx%d|red=%s|nodata=%r" % (dt, red.shape[0], red.shape[1], _fmt(red.ravel())[1:-1], nodata)
            g, b = red[::-1, ::-1].copy(), np.full_like(red, 3)
            try:
                if rank % 2:
                    res = self.fn(r=_da(red.copy()), g=_da(g), b=_da(b), nodata=nodata)
                else:
                    res = self.fn(_da(red.copy()), _da(g), _da(b), nodata)
                o = np.asarray(res.values)
            except Exception as e:                                   # noqa: BLE001
                out.case(outcome=bytes64(repr(e).encode()), nontrivial=False)
                out.count("viol.true_color.raises")
                out.violation(rank, "true_color.raises" + key, "true_color raised %r" % (e,), case=self.describe(rank))
                continue
            exps = [ref.alpha_ref(v, nodata, f32_raster=(dt == "f4")) for v in cells]
            tie = np.array([e == ref.TIE for e in exps], dtype=bool).reshape(red.shape)
            exp = np.array([0 if e == ref.TIE else e for e in exps], dtype=np.uint8).reshape(red.shape)
            out.case(outcome=bytes64(red.tobytes() + repr(nodata).encode() + (o[..., 3].tobytes() if o.ndim == 3 else b"")),
                     nontrivial=bool(exp.any() and not exp.all()))
            if o.shape != red.shape + (4,) or o.dtype != np.uint8:
                out.count("viol.true_color.format")
                out.violation(rank, "true_color.format" + key, "result is %s %r, expected uint8 %r"
                              % (o.dtype, o.shape, red.shape + (4,)), case=self.describe(rank))
                continue
            out.tie(int(tie.sum()))
            if not np.array_equal(o[..., 3][~tie], exp[~tie]):
                out.count("viol.true_color.alpha")
                out.violation(rank, "true_color.alpha" + key, "alpha channel %r, expected %r (0 exactly where red is "
                              "NaN or <= nodata, else 255)" % (o[..., 3].tolist(), [
                                  "tie" if t else int(e) for t, e in zip(tie.ravel(), exp.ravel())]),
                              case=self.describe(rank), observed=o[..., 3], expected=exp)
                continue
            out.ok(int((~tie).sum()))
            if out.want_sample() and red.size >= 3 and exp.any() and not exp.all():
                out.sample({"r": red, "nodata": nodata, "alpha": o[..., 3]})


def tc_edge_letters(dt, nodata):
    """nodata and the values immediately on either side of it in the red raster's own dtype (sorted) [+ NaN]."""
    if dt[0] in "iu":
        f = int(np.floor(nodata))
        return (f - 1, f, f + 1) if f == nodata else (f, f + 1)
    out = set()
    for d in (("f8", "f4") if dt == "f8" else ("f4",)):
        t = np.dtype(d).type
        c = t(nodata)
        out.update((float(np.nextafter(c, t(-np.inf))), float(c), float(np.nextafter(c, t(np.inf)))))
    return tuple(sorted(out)) + (NAN,)


class TrueColorEdgeSpace(TrueColorSpace):
    """red values adjacent to nodata in the red raster's own dtype; same assertions as TrueColorSpace."""
    name = "true_color_nodata_edge"

    def __init__(self, tier):
        self.combos = [(dt, nd, s, tc_edge_letters(dt, nd)) for dt, nds in TC_EDGE_NODATA.items() for nd in nds
                       for s in TC_EDGE_SHAPES]
        self.parts = SumSpace([("%s_%r_%dx%d" % (dt, nd, s[0], s[1]), len(al) ** (s[0] * s[1]))
                               for dt, nd, s, al in self.combos])
        self.size = self.parts.size

    def case(self, rank):
        from ..core.rasters import grid
        p, local = self.parts.locate(rank)
        dt, nodata, shape, letters = self.combos[p]
        return dt, grid(local, shape, letters, dt), nodata


def build(tier):
    return ([IndexSpace(n, tier) for n in ref.INDICES] + [IndexMemSpace(n, tier) for n in ref.INDICES]
            + [InvalidParamSpace(), TrueColorSpace(tier), TrueColorEdgeSpace(tier)])
