"""C08 — slope, aspect, curvature, hillshade are local 3x3 formulas with NaN borders (NumPy backend).

Engine E1.  Spaces:
  tiles_*     every 3x3 window over an alphabet, packed as adjacent 3x3 tiles of one raster (L^2 x L^3 tiles, L =
              alphabet size), output asserted at every tile centre against the closed-form oracle
              (xrmc/oracles/terrain_ops.py) x cell size x cell-size route x dtype.  A stencil wider than 3x3 would
              read the neighbouring tile (a different window) and break the comparison.
  hill_*      the same packing for hillshade x azimuth x altitude.
  scaled_4L   the magnitude dimension: every window of {0,1,2,NaN} multiplied by a vertical scale in {1e-9, 1e-6, 1e3}
              (float64 / float32 rasters; int32 for 1e3), same packing, tolerances and tie threshold RELATIVE to the
              scale: a tilted window keeps its aspect and a slope > 0 however small its elevations are.
  single_*    every window called on its own as a 3x3 raster (the smallest raster with an interior cell).
  locality    two generic 6x7 rasters x cell x replacement {NaN, +5, inf}: output unchanged outside the 3x3 neighbourhood.
  offset      integer-valued rasters + constant: bit-identical outputs.
  rot90       square-celled rasters turned by k quarter turns: slope / curvature turn with the raster, aspect shifts
              by 90 k degrees, -1 and NaN stay.
  summarize   summarize_terrain == (slope, curvature, aspect) of the same raster.
"""
import numpy as np

from ..core.rasters import generic, same
from ..core.space import Space
from ..core.spaces import unrank_product
from ..oracles import terrain_ops as T

PROPERTY = "C08"
LEVEL = "model_checking"
RULE = ("tiles_* / hill_* / single_*: one case = one (3x3 window, configuration) pair, window = rank-th word of 9 "
        "letters over the alphabet (row-major, last cell fastest), configuration = (cell size, route by which the cell "
        "size is given, dtype[, azimuth, altitude]); in tiles_* / hill_* the L^5 windows sharing their first four "
        "letters are packed as L^2 x L^3 adjacent tiles of ONE raster, so one implementation call serves L^5 cases "
        "(impl_calls counts calls, evaluations counts windows) and the output is asserted at each tile centre; in "
        "single_* every case is its own 3x3 raster (4 calls).  locality / offset / rot90 / summarize: one case = one "
        "(raster, perturbation, configuration) triple, all ops called on the whole raster.  validated = number of "
        "(case, op) oracle comparisons.  A case is non-trivial when its window (raster) is not constant and at least "
        "one asserted output cell is not NaN; distinct = distinct digests of the asserted output values")
ASSUMPTIONS = [
    "NumPy backend only (Dask chunk/halo behaviour is C01's subject; CuPy not explorable here)",
    "aspect and hillshade: the documented formulas (aspect.py / ArcGIS 'how aspect works', hillshade.py / the "
    "GeoExamples expression) contain no cell-size term; they are asserted as documented, i.e. independent of the cell "
    "size, also for non-square cells; slope uses (cellsize_x, cellsize_y), curvature the mean (cx+cy)/2 of the two "
    "(curvature.py:205-206)",
    "north = array row 0 for aspect and hillshade (the formulas are array based; the y coordinate direction only "
    "enters through |dy|), so ascending and descending y coordinates must give identical outputs",
    "aspect 0 and 360 are the same direction (documented: '0 (due north), and 360 (again due north)'): bearings are "
    "compared modulo 360 with tolerance 1e-4 degrees",
    "float64 / int32 elevations are rounded to float32 by the kernels; on the non-integer 'generic' rasters the oracle "
    "is evaluated on the float32-rounded elevations (the statement does not fix the working precision); comparisons "
    "use rtol 1e-5 / atol 1e-5 (kernels store float32, oracle is float64)",
    "tie rule: the flat / non-flat decision of aspect is not asserted when the oracle's gradient magnitude is in "
    "(0, 1e-6) -- cannot occur on the integer alphabets, where 0 == 0 is exact on both sides and is asserted",
    "scaled_4L (elevations s*{0,1,2,NaN}, s in {1e-9,1e-6,1e3}): the oracle is evaluated in float64 on the "
    "float32-rounded elevations f32(s)*{0,1,2} (multiplying by 1 or 2 is exact, so every Horn sum is an exact float64 "
    "multiple of f32(s)/8 and a zero gradient is the exact value of the formula, asserted as aspect -1); the aspect "
    "tie threshold is relative there: gradient magnitude in (0, 16 * 2^-23 * max|z| of the window) -- a few float32 "
    "ulps of the elevations, never reached by these alphabets (smallest non-zero gradient >= max|z|/24); slope is "
    "compared with rtol 1e-5 + atol 1e-5*min(1,s) (the absolute term shrinks with the scale, otherwise every output "
    "at s = 1e-9 would pass), curvature with rtol 1e-5 + 1e-4*max|z|/cellsize^2 (float32 neighbour sums), aspect "
    "and hillshade (scale-free outputs) as everywhere else",
    "cell size given both ways at once (res attr AND coordinates that disagree) is not generated; res is a tuple of "
    "Python floats; coordinates are evenly spaced (dyadic steps), y ascending or descending, x ascending",
    "elevations beyond the alphabets {0,1,2,NaN} (x vertical scales 1, 1e-9, 1e-6, 1e3), {0,1,7,1e6,-3}, {0,1,NaN} "
    "and the generic 6x7 rasters are not explored; +-inf elevations only as a locality perturbation (no formula / "
    "range assertion on outputs computed from inf)",
    "offset invariance is asserted bit-identically and therefore only on integer-valued rasters whose sums stay below "
    "2^24 (every intermediate is then exact in float32 as well as in float64)",
    "rot90: curvature is asserted bit-identically (its two additions commute); slope bit-identically on integer-valued "
    "rasters and within rtol 1e-5 on the non-integer generic rasters (the three-term sums are taken in another order)",
    "locality: the formula comparison of curvature on the non-integer generic rasters allows an absolute error of "
    "1e-4 * max|z| / cellsize^2 (the kernel adds float32 neighbours before differencing)",
    "a `res` attr with zero / negative entries (curvature would divide by (cx+cy)/2 = 0) is outside the documented "
    "domain and not generated",
    "output dtype, name, coords and attrs are not part of the statement and are not asserted (summarize: the data "
    "variables and their values are)",
]
NAN, INF = float("nan"), float("inf")
RTOL, ATOL = 1e-5, 1e-5
ASPECT_TOL = 1e-4
GRAD_EPS = 1e-6
EPS32 = 2.0 ** -23
REL_GRAD_EPS = 16 * EPS32    # scaled windows: tie when 0 < |gradient| < REL_GRAD_EPS * max|z| of the window
MAX_ITEMISED = 200           # violations written out per run() call; the rest are only counted

ALPHABETS = {"4L": (0.0, 1.0, 2.0, NAN), "5L": (0.0, 1.0, 7.0, 1e6, -3.0), "3L": (0.0, 1.0, NAN)}
CELLS = ((1.0, 1.0), (0.5, 2.0), (3.0, 3.0))
ROUTES = ("res", "coords", "coords_ydesc")
DTYPES = ("f8", "f4", "i4")
ALL_CFGS = [(c, r, d) for d in DTYPES for c in CELLS for r in ROUTES]                      # simplest first
DIAG_CFGS = [((1.0, 1.0), "res", "f8"), ((0.5, 2.0), "coords_ydesc", "f4"), ((3.0, 3.0), "coords", "i4")]
AZIMUTHS = tuple(range(0, 361, 45))
ALTITUDES = (0, 25, 45, 90)
ANGLES = [(az, alt) for alt in ALTITUDES for az in AZIMUTHS]
OPS = ("slope", "aspect", "curvature", "hillshade")
DEFAULT_ANGLE = (225, 25)
OFFSETS = (100, -100, 4096)
SQUARE_CFGS = [((1.0, 1.0), "res"), ((3.0, 3.0), "coords_ydesc"), ((3.0, 3.0), "res")]

SINGLE_QUICK = [((1.0, 1.0), "res", "f8"), ((0.5, 2.0), "coords_ydesc", "f4"), ((3.0, 3.0), "res", "i4")]
# the coordinate routes cost ~6x the res route per call (xarray min/max inside calc_res): fewer of them
SINGLE3_THOROUGH = ([(c, "res", d) for d in DTYPES for c in CELLS]
                    + [((1.0, 1.0), "coords", "f8"), ((0.5, 2.0), "coords_ydesc", "f8"), ((3.0, 3.0), "coords", "f8"),
                       SINGLE_QUICK[1]])
SINGLE4_THOROUGH = [((1.0, 1.0), "res", "f8"), ((0.5, 2.0), "res", "f4")]
SCALES = (1e-9, 1e-6, 1e3)
SCALE_GEOMS = (((1.0, 1.0), "res"), ((0.5, 2.0), "coords_ydesc"))
# (cell, route, dtype, scale): float64 and float32 at every scale, int32 where the scaled letters are integers
SCALED_QUICK = ([(c, r, d, s) for s in SCALES for d in ("f8", "f4") for c, r in SCALE_GEOMS]
                + [((3.0, 3.0), "coords", "i4", 1e3)])
SCALED_THOROUGH = ([(c, r, d, s) for s in SCALES for d in ("f8", "f4") for c in CELLS for r in ROUTES]
                   + [(c, r, "i4", 1e3) for c in CELLS for r in ROUTES])
PLAN = {
    "quick": dict(tiles_4L=ALL_CFGS, tiles_5L=DIAG_CFGS, single_3L=SINGLE_QUICK, single_4L=None,
                  hill_4L=["f8"], hill_5L=None, locality_shapes=[(6, 7)], scaled_4L=SCALED_QUICK),
    "thorough": dict(tiles_4L=ALL_CFGS, tiles_5L=ALL_CFGS, single_3L=SINGLE3_THOROUGH, single_4L=SINGLE4_THOROUGH,
                     hill_4L=["f8", "f4", "i4"], hill_5L=["f8"], locality_shapes=[(6, 7), (5, 9)],
                     scaled_4L=SCALED_THOROUGH),
}


def _cfg_json(cfgs):
    return None if cfgs is None else [dict(cellsize=list(c), route=r, dtype=d) for c, r, d in cfgs]


BOUNDS = {t: dict(
    alphabets={k: [str(x) for x in v] for k, v in ALPHABETS.items()},
    int32_letters="NaN is replaced by (largest letter + 1) when the dtype is int32",
    tiles_4L=_cfg_json(p["tiles_4L"]), tiles_5L=_cfg_json(p["tiles_5L"]),
    single_3L=_cfg_json(p["single_3L"]), single_4L=_cfg_json(p["single_4L"]),
    scaled_4L=[dict(cellsize=list(c), route=r, dtype=d, vertical_scale=sc) for c, r, d, sc in p["scaled_4L"]],
    hillshade=dict(azimuth=list(AZIMUTHS), altitude=list(ALTITUDES), dtypes_4L=p["hill_4L"], dtypes_5L=p["hill_5L"],
                   cellsize=[1.0, 1.0]),
    locality=dict(rasters="generic variants 0,1", shapes=[list(s) for s in p["locality_shapes"]],
                  replacement=["nan", "+5", "inf"], dtypes=["f8", "f4"], cells=[[1.0, 1.0], [0.5, 2.0]]),
    offset=dict(offsets=list(OFFSETS), rasters="all packed 4L blocks x (f8, i4), all packed 5L blocks (f8), generic 6x7 int32 variants 0,1"),
    rot90=dict(k=[1, 2, 3], cells=[[list(c), r] for c, r in SQUARE_CFGS],
               rasters="all packed 4L blocks x (f8, i4), generic 6x7 variants 0,1 x (f8, f4, i4)"),
    summarize=dict(rasters="all packed 4L blocks x (f8, i4), generic 6x7 variants 0,1 x (f8, f4, i4)", cfgs=_cfg_json(DIAG_CFGS)),
) for t, p in PLAN.items()}


# ------------------------------------------------------------------------------------------------------------------
# helpers
# ------------------------------------------------------------------------------------------------------------------
def letters(alphabet, dtype):
    """Alphabet as a float64 array; for integer dtypes the NaN letter becomes (largest letter + 1)."""
    a = np.array(alphabet, dtype=np.float64)
    if np.dtype(dtype).kind == "i":
        a = np.where(np.isnan(a), np.nanmax(a) + 1.0, a)
    return a


def block_windows(alphabet, dtype, b):
    """(L^5, 3, 3) float64 array: the windows of ranks b*L^5 .. (b+1)*L^5 - 1 (exactly the values the raster holds)."""
    al = letters(alphabet, dtype)
    n = len(al)
    idx = np.arange(b * n ** 5, (b + 1) * n ** 5, dtype=np.int64)
    digits = (idx[:, None] // (n ** np.arange(8, -1, -1, dtype=np.int64))[None, :]) % n
    return al[digits].reshape(-1, 3, 3)


def pack(wins, n, dtype):
    """(L^5,3,3) windows -> (3 L^2, 3 L^3) raster of adjacent tiles, tile t at tile-row t // L^3, tile-column t % L^3."""
    tr, tc = n * n, n ** 3
    return np.ascontiguousarray(wins.reshape(tr, tc, 3, 3).transpose(0, 2, 1, 3).reshape(3 * tr, 3 * tc)).astype(dtype)


def window_literal(w):
    return "[" + ",".join("[" + ",".join(_num(v) for v in row) + "]" for row in np.asarray(w, dtype=float)) + "]"


def _num(v):
    if v != v:
        return "nan"
    if v in (INF, -INF):
        return "inf" if v > 0 else "-inf"
    return repr(int(v)) if float(v).is_integer() and abs(v) < 1e15 else repr(float(v))


def window_at(a, i, j):
    """3x3 window of raster a around (i, j), NaN beyond the edges."""
    p = np.full((a.shape[0] + 2, a.shape[1] + 2), NAN)
    p[1:-1, 1:-1] = a
    return p[i:i + 3, j:j + 3]


def cfg_str(cell, route, dtype=None):
    s = "cell=(%s,%s)|route=%s" % (_num(cell[0]), _num(cell[1]), route)
    return s if dtype is None else s + "|dtype=%s" % dtype


class Impl:
    """The public API under test, imported in the worker."""

    def __init__(self):
        import xarray as xr
        from xrspatial import aspect, curvature, hillshade, slope
        from xrspatial.analytics import summarize_terrain
        self.xr = xr
        self.fn = dict(slope=slope, aspect=aspect, curvature=curvature, hillshade=hillshade)
        self.summarize = summarize_terrain

    def raster(self, arr, cell, route, name=None):
        h, w = arr.shape
        cx, cy = cell
        if route == "res":
            return self.xr.DataArray(arr, dims=("y", "x"), attrs={"res": (float(cx), float(cy))}, name=name)
        ys = 40.0 + cy * np.arange(h)
        xs = -8.0 + cx * np.arange(w)
        if route == "coords_ydesc":
            ys = ys[::-1].copy()
        return self.xr.DataArray(arr, dims=("y", "x"), coords={"y": ys, "x": xs}, name=name)

    def call(self, op, r, angle=None):
        """-> (values, None) or (None, 'ExcType: message')."""
        try:
            if op == "hillshade" and angle is not None:
                o = self.fn[op](r, azimuth=angle[0], angle_altitude=angle[1])
            else:
                o = self.fn[op](r)
            return np.asarray(o.values), None
        except Exception as e:  # an exception on an in-domain input is a violation
            return None, "%s: %s" % (type(e).__name__, str(e)[:200])


def expected(op, wins, cell, angle=DEFAULT_ANGLE):
    """Oracle value at the window centre -> (value, gradient magnitude or None)."""
    if op == "slope":
        return T.slope(wins, cell[0], cell[1]), None
    if op == "aspect":
        return T.aspect(wins)
    if op == "curvature":
        return T.curvature(wins, (cell[0] + cell[1]) / 2.0), None
    return T.hillshade(wins, angle[0], angle[1]), None


def agree(op, o, e, mag=None, extra=0.0, atol=ATOL, grad_eps=GRAD_EPS):
    """Elementwise -> (ok mask, tie mask).  NaN must match NaN; aspect: -1 must match -1, bearings modulo 360.
    `extra` widens the absolute tolerance (conditioning of a difference of float32 sums, see LocalitySpace);
    `atol` / `grad_eps` (scalar or per element) replace the absolute tolerance / the aspect tie threshold where the
    elevations carry a vertical scale (see TileSpace)."""
    o = np.asarray(o, dtype=np.float64)
    e = np.asarray(e, dtype=np.float64)
    on, en = np.isnan(o), np.isnan(e)
    with np.errstate(invalid="ignore"):
        if op == "aspect":
            flat = e == -1.0
            ok = np.where(flat, o == -1.0, (o >= 0.0) & (T.circular_diff(o, e) <= ASPECT_TOL))
            tie = (mag > 0.0) & (mag < grad_eps) if mag is not None else np.zeros(o.shape, bool)
        else:
            ok = np.abs(o - e) <= atol + extra + RTOL * np.abs(e)
            tie = np.zeros(o.shape, bool)
    ok = np.where(on | en, on & en, ok)
    return ok | tie, tie


def range_bad(op, o):
    """Mask of cells outside the stated range (NaN cells are fine)."""
    o = np.asarray(o, dtype=np.float64)
    with np.errstate(invalid="ignore"):
        if op == "slope":
            bad = (o < 0.0) | (o > 90.0 * (1 + 1e-6))
        elif op == "aspect":
            bad = ~((o == -1.0) | ((o >= 0.0) & (o <= 360.0)))
        elif op == "hillshade":
            bad = (o < -1e-6) | (o > 1.0 + 1e-6)
        else:
            bad = np.zeros(o.shape, bool)
    return bad & ~np.isnan(o)


def border_not_nan(o):
    m = np.zeros(o.shape, bool)
    m[0, :] = m[-1, :] = m[:, 0] = m[:, -1] = True
    return m & ~np.isnan(np.asarray(o, dtype=np.float64))


def digest_columns(cols):
    """Vectorised 64-bit digest of rows of float values (float32 bit patterns, NaN canonical)."""
    h = np.full(len(cols[0]), 0x9E3779B97F4A7C15, dtype=np.uint64)
    with np.errstate(over="ignore"):
        for c in cols:
            c32 = np.ascontiguousarray(np.asarray(c, dtype=np.float64).astype(np.float32))
            bits = np.where(np.isnan(c32), np.uint32(0x7FC00000), c32.view(np.uint32)).astype(np.uint64)
            h = (h ^ bits) * np.uint64(0x100000001B3)
            h ^= h >> np.uint64(29)
    return h


class Reporter:
    """Caps the number of itemised violations per run() call (a broken tree fails millions of windows)."""

    def __init__(self, out):
        self.out, self.n = out, 0

    def violation(self, rank, key, message, **kw):
        if self.n < MAX_ITEMISED:
            self.out.violation(rank, key, message, **kw)
        else:
            self.out.count("violations_not_itemised")
        self.n += 1


def audit(rep, rank, tag, arr, op, o):
    """Assertions that hold at every cell of every call: shape, NaN border, range.  `tag` identifies the raster."""
    if o.shape != arr.shape:
        rep.violation(rank, "C08|%s|shape|%s" % (op, tag), "%s: output shape %r != input shape %r" % (op, o.shape, arr.shape))
        return False
    good = True
    nb = border_not_nan(o)
    if nb.any():
        i, j = map(int, np.argwhere(nb)[0])
        rep.violation(rank, "C08|%s|border|%s|cell=(%d,%d)" % (op, tag, i, j),
                      "%s: border cell (%d,%d) is %r, not NaN (%d border cells not NaN)" % (op, i, j, float(o[i, j]), int(nb.sum())),
                      case={"raster": arr if arr.size <= 100 else tag}, observed=float(o[i, j]), expected="nan")
        good = False
    rb = range_bad(op, o)
    if rb.any():
        i, j = map(int, np.argwhere(rb)[0])
        w = window_at(np.asarray(arr, dtype=float), i, j)
        rep.violation(rank, "C08|%s|range|win=%s|%s" % (op, window_literal(w), tag),
                      "%s: value %r at (%d,%d) outside the stated range (%d cells)" % (op, float(o[i, j]), i, j, int(rb.sum())),
                      case={"window": w, "cell": [i, j], "raster": arr if arr.size <= 100 else tag}, observed=float(o[i, j]))
        good = False
    return good


# ------------------------------------------------------------------------------------------------------------------
# (a), (e): all windows, packed as tiles
# ------------------------------------------------------------------------------------------------------------------
class TileSpace(Space):
    """cfgs: list of (cell, route, dtype, angle[, vertical scale]); ops asserted per case.  With a vertical scale s != 1
    every letter is multiplied by s before the raster is built (as float64, then cast to the dtype) and the oracle is
    evaluated on the float32-rounded elevations with scale-relative tolerances / tie threshold."""

    def __init__(self, name, alpha, cfgs, ops, shards=96):
        cfgs = [tuple(c) + (1.0,) * (5 - len(c)) for c in cfgs]
        self.name, self.alpha, self.alphabet, self.cfgs, self.ops = name, alpha, ALPHABETS[alpha], cfgs, ops
        self.n = len(self.alphabet)
        self.NW, self.B = self.n ** 9, self.n ** 5
        self.size = self.NW * len(cfgs)
        nblocks = self.size // self.B
        self.grain = self.B * max(1, -(-nblocks // shards))
        self.weight = 2.0

    def setup(self):
        self.I = Impl()

    def locate(self, rank):
        ci, widx = divmod(rank, self.NW)
        return self.cfgs[ci], widx

    def scaled_windows(self, dt, b, scale):
        """-> (windows exactly as the raster holds them, windows as the oracle sees them), float64 (L^5, 3, 3)."""
        wins = block_windows(self.alphabet, dt, b)
        if scale == 1.0:
            return wins, wins
        wins = (wins * scale).astype(dt).astype(np.float64)
        return wins, f32(wins)

    def describe(self, rank):
        (cell, route, dt, angle, scale), widx = self.locate(rank)
        b, t = divmod(widx, self.B)
        d = {"window": self.scaled_windows(dt, b, scale)[0][t], "cellsize": cell, "route": route, "dtype": dt,
             "azimuth_altitude": angle, "packed_block": b, "tile": [t // self.n ** 3, t % self.n ** 3]}
        if scale != 1.0:
            d["vertical_scale"] = scale
        return d

    def key(self, op, w, cell, route, dt, angle, scale=1.0):
        k = "C08|%s|%s|win=%s|%s" % (self.name, op, window_literal(w), cfg_str(cell, route, dt))
        if scale != 1.0:
            k += "|scale=%r" % scale
        return k + "|az=%d|alt=%d" % angle if op == "hillshade" and angle != DEFAULT_ANGLE else k

    def run(self, lo, hi, out):
        rep = Reporter(out)
        B = self.B
        for blk in range(lo // B, (hi - 1) // B + 1):
            self.block(out, rep, blk, max(lo, blk * B) - blk * B, min(hi, (blk + 1) * B) - blk * B)

    def block(self, out, rep, blk, s0, s1):
        B, n = self.B, self.n
        (cell, route, dt, angle, scale), w0 = self.locate(blk * B)
        b = w0 // B
        wins, owins = self.scaled_windows(dt, b, scale)      # raster values / what the oracle is evaluated on
        arr = pack(wins, n, dt)
        r = self.I.raster(arr, cell, route)
        tag = "%s#%d|%s" % (self.alpha, b, cfg_str(cell, route, dt))
        tol = {}
        if scale != 1.0:
            tag += "|scale=%r" % scale
            zmax = np.nan_to_num(np.abs(owins)).reshape(B, 9).max(axis=1)      # per window, NaN cells ignored
            tol = dict(slope=dict(atol=ATOL * min(1.0, scale)),
                       aspect=dict(grad_eps=REL_GRAD_EPS * zmax),
                       curvature=dict(atol=0.0, extra=1e-4 * zmax / ((cell[0] + cell[1]) / 2.0) ** 2))
        sel = slice(s0, s1)
        rank0 = blk * B
        nonnan = ~np.isnan(wins.reshape(B, 9))
        flat = nonnan.all(axis=1) & (wins.reshape(B, 9) == wins[:, :1, 0]).all(axis=1)
        cols, anyval = [], np.zeros(B, bool)
        for op in self.ops:
            o, err = self.I.call(op, r, angle)
            out.calls(1)
            if err is not None:
                rep.violation(rank0 + s0, "C08|%s|%s|raises|%s" % (self.name, op, tag), "%s raised %s" % (op, err),
                              sig="C08|%s|raises|%s" % (op, err.split(":")[0]))
                cols.append(np.zeros(B))
                continue
            if not audit(rep, rank0 + s0, tag, arr, op, o) and o.shape != arr.shape:
                cols.append(np.zeros(B))
                continue
            c = np.asarray(o[1::3, 1::3], dtype=np.float64).ravel()
            e, mag = expected(op, owins, cell, angle)
            ok, tie = agree(op, c, e, mag, **tol.get(op, {}))
            if op != "hillshade":                      # flat window => slope 0 / aspect -1 / curvature 0 exactly
                ok = ok & ~(flat & (c != (-1.0 if op == "aspect" else 0.0)))
            cols.append(c)
            anyval |= ~np.isnan(c)
            nt = int(tie[sel].sum())
            out.ok(s1 - s0 - nt)
            if nt:
                out.tie(nt)
            if op == "aspect":
                out.count("aspect_flat_windows", int((e[sel] == -1.0).sum()))
            for t in np.nonzero(~ok[sel])[0] + s0:
                t = int(t)
                rep.violation(rank0 + t, self.key(op, wins[t], cell, route, dt, angle, scale),
                              "%s at the centre of window %s (%s%s) = %r, documented formula gives %r"
                              % (op, window_literal(wins[t]), cfg_str(cell, route, dt),
                                 ", az=%d alt=%d" % angle if op == "hillshade" else "", float(c[t]), float(e[t])),
                              case=self.describe(rank0 + t), observed=float(c[t]), expected=float(e[t]))
        dig = digest_columns(cols)[sel].tolist()
        nontriv = (anyval & ~flat & (nonnan.sum(axis=1) >= 2))[sel].tolist()
        case = out.case
        for d, nt in zip(dig, nontriv):
            case(d, nt, None, 0)
        out.count("nan_containing_windows", int((~nonnan.all(axis=1))[sel].sum()))
        if out.want_sample():
            t = s0 + (s1 - s0) // 2
            out.sample({"window": wins[t], "cellsize": cell, "route": route, "dtype": dt, "angle": angle, "scale": scale,
                        "outputs": {op: float(cols[i][t]) for i, op in enumerate(self.ops)}})


# ------------------------------------------------------------------------------------------------------------------
# (a) every window as its own 3x3 raster
# ------------------------------------------------------------------------------------------------------------------
class SingleSpace(Space):
    def __init__(self, name, alpha, cfgs):
        self.name, self.alpha, self.alphabet, self.cfgs = name, alpha, ALPHABETS[alpha], cfgs
        self.n = len(self.alphabet)
        self.NW = self.n ** 9
        self.size = self.NW * len(cfgs)
        self.weight = 3.0

    def setup(self):
        self.I = Impl()

    def case(self, rank):
        ci, widx = divmod(rank, self.NW)
        cell, route, dt = self.cfgs[ci]
        al = letters(self.alphabet, dt)
        w = al[unrank_product(widx, [self.n] * 9)].reshape(3, 3)
        return w, cell, route, dt

    def describe(self, rank):
        w, cell, route, dt = self.case(rank)
        return {"raster": w.astype(dt), "cellsize": cell, "route": route, "dtype": dt}

    def run(self, lo, hi, out):
        rep = Reporter(out)
        for rank in range(lo, hi):
            w, cell, route, dt = self.case(rank)
            arr = w.astype(dt)
            r = self.I.raster(arr, cell, route)
            lit = window_literal(w)
            tag = "win=%s|%s" % (lit, cfg_str(cell, route, dt))
            nonnan = ~np.isnan(w)
            flat = bool(nonnan.all() and (w == w[0, 0]).all())
            vals = []
            for op in OPS:
                o, err = self.I.call(op, r)
                if err is not None:
                    rep.violation(rank, "C08|%s|%s|raises|%s" % (self.name, op, tag), "%s raised %s" % (op, err),
                                  sig="C08|%s|raises|%s" % (op, err.split(":")[0]), case=self.describe(rank))
                    vals.append(NAN)
                    continue
                if not audit(rep, rank, tag, arr, op, o) and o.shape != arr.shape:
                    vals.append(NAN)
                    continue
                c = float(o[1, 1])
                e, mag = expected(op, w, cell)
                ok, tie = agree(op, c, e, mag)
                if flat and op != "hillshade" and c != (-1.0 if op == "aspect" else 0.0):
                    ok = False
                vals.append(c)
                if bool(tie):
                    out.tie()
                else:
                    out.ok()
                if not bool(ok):
                    rep.violation(rank, "C08|%s|%s|%s" % (self.name, op, tag),
                                  "%s of the 3x3 raster %s (%s) = %r at the centre, documented formula gives %r"
                                  % (op, lit, cfg_str(cell, route, dt), c, float(e)),
                                  case=self.describe(rank), observed=c, expected=float(e))
            v = np.array(vals)
            out.case(outcome=int(digest_columns([v[i:i + 1] for i in range(4)])[0]),
                     nontrivial=bool(not flat and nonnan.sum() >= 2 and not np.isnan(v).all()), calls=4)
            if out.want_sample() and not np.isnan(v).any() and not flat:
                out.sample({"raster": arr, "cellsize": cell, "route": route, "outputs": dict(zip(OPS, vals))})


# ------------------------------------------------------------------------------------------------------------------
# raster catalogue for the relational spaces
# ------------------------------------------------------------------------------------------------------------------
def catalogue(blocks5=False, floats=True):
    """List of raster specs: ('gen', shape, variant, dtype) | ('blk', alpha, b, dtype)."""
    specs = []
    for dt in DTYPES if floats else ("i4",):
        for v in (0, 1):
            specs.append(("gen", (6, 7), v, dt))
    for dt in ("f8", "i4"):                 # float32 blocks hold the same values as the float64 ones
        specs.extend(("blk", "4L", b, dt) for b in range(len(ALPHABETS["4L"]) ** 4))
    if blocks5:
        specs.extend(("blk", "5L", b, "f8") for b in range(len(ALPHABETS["5L"]) ** 4))
    return specs


def build_raster(spec):
    if spec[0] == "gen":
        _, shape, v, dt = spec
        return generic(shape, v, np.dtype(dt))
    _, alpha, b, dt = spec
    return pack(block_windows(ALPHABETS[alpha], dt, b), len(ALPHABETS[alpha]), dt)


def spec_str(spec):
    if spec[0] == "gen":
        return "generic%dx%d_v%d_%s" % (spec[1][0], spec[1][1], spec[2], spec[3])
    return "packed%s#%d_%s" % (spec[1], spec[2], spec[3])


def integer_valued(spec):
    return spec[0] == "blk" or spec[3] == "i4"


def f32(a):
    """The elevations as the kernels see them (rounded to float32), in float64."""
    return np.asarray(a).astype(np.float32).astype(np.float64)


def first_diff(a, b, mask=None):
    """First cell (row-major) where a and b differ (NaN == NaN), or None."""
    a, b = np.asarray(a, dtype=np.float64), np.asarray(b, dtype=np.float64)
    d = ~((a == b) | (np.isnan(a) & np.isnan(b)))
    if mask is not None:
        d &= mask
    if not d.any():
        return None
    return tuple(map(int, np.argwhere(d)[0]))


class ProductSpace(Space):
    """rank -> one tuple of the product of `dims` (lists); one case at a time."""
    dims = ()

    def finish_init(self):
        self.radices = [len(d) for d in self.dims]
        self.size = int(np.prod(self.radices))

    def setup(self):
        self.I = Impl()

    def pick(self, rank):
        return tuple(d[i] for d, i in zip(self.dims, unrank_product(rank, self.radices)))

    def run(self, lo, hi, out):
        rep = Reporter(out)
        for rank in range(lo, hi):
            self.one(rank, out, rep)

    def calls(self, rep, rank, r, tag, arr, ops=OPS, do_audit=True):
        """Call ops on r -> dict op -> values (None when it raised; reported)."""
        res = {}
        for op in ops:
            o, err = self.I.call(op, r)
            if err is not None:
                rep.violation(rank, "C08|%s|%s|raises|%s" % (self.name, op, tag), "%s raised %s" % (op, err),
                              sig="C08|%s|raises|%s" % (op, err.split(":")[0]), case=self.describe(rank))
                o = None
            elif do_audit:
                audit(rep, rank, tag, arr, op, o)
                if o.shape != arr.shape:
                    o = None
            res[op] = o
        return res


# ------------------------------------------------------------------------------------------------------------------
# (b) locality
# ------------------------------------------------------------------------------------------------------------------
class LocalitySpace(ProductSpace):
    name = "locality"

    def __init__(self, shapes):
        bases = [(s, v, dt) for s in shapes for v in (0, 1) for dt in ("f8", "f4")]
        cfgs = [((1.0, 1.0), "res"), ((0.5, 2.0), "coords_ydesc")]
        self.cases = [(b, cfg, (i, j), rep) for b in bases for cfg in cfgs
                      for i in range(b[0][0]) for j in range(b[0][1]) for rep in ("nan", "+5", "inf")]
        self.size = len(self.cases)
        self.weight = 5.0

    def describe(self, rank):
        (shape, v, dt), (cell, route), (i, j), repl = self.cases[rank]
        return {"raster": generic(shape, v, np.dtype(dt)), "cell": [i, j], "replacement": repl, "cellsize": cell,
                "route": route}

    def one(self, rank, out, rep):
        (shape, v, dt), (cell, route), (i, j), repl = self.cases[rank]
        a = generic(shape, v, np.dtype(dt))
        m = a.copy()
        m[i, j] = {"nan": NAN, "+5": a[i, j] + 5, "inf": INF}[repl]
        tag = "%s|cell=(%d,%d)|repl=%s|%s" % (spec_str(("gen", shape, v, dt)), i, j, repl, cfg_str(cell, route))
        base = self.calls(rep, rank, self.I.raster(a, cell, route), tag + "|base", a)
        mod = self.calls(rep, rank, self.I.raster(m, cell, route), tag, m, do_audit=repl != "inf")
        outside = np.ones(shape, bool)
        outside[max(0, i - 1):i + 2, max(0, j - 1):j + 2] = False
        changed = 0
        for op in OPS:
            if base[op] is None or mod[op] is None:
                continue
            out.ok()
            p = first_diff(base[op], mod[op], outside)
            changed += int(first_diff(base[op], mod[op], ~outside) is not None)
            if p is not None:
                rep.violation(rank, "C08|locality|%s|%s|at=(%d,%d)" % (op, tag, p[0], p[1]),
                              "%s: replacing cell (%d,%d) by %s changed the output at (%d,%d), outside its 3x3 "
                              "neighbourhood: %r -> %r" % (op, i, j, repl, p[0], p[1], float(base[op][p]), float(mod[op][p])),
                              case=self.describe(rank), observed=mod[op], expected=base[op])
            if repl != "inf":          # formula on the perturbed raster too (non-integer elevations)
                wins = T.windows(f32(m))
                e, mag = expected(op, wins, cell)
                # curvature adds float32 neighbours before differencing: its rounding error scales with the
                # elevations (|z| ~ 20 here), not with the (possibly tiny) second difference
                extra = 0.0
                if op == "curvature":
                    extra = 1e-4 * np.nan_to_num(np.abs(wins).max(axis=(-1, -2))) / ((cell[0] + cell[1]) / 2.0) ** 2
                ok, tie = agree(op, mod[op][1:-1, 1:-1], e, mag, extra)
                out.ok()
                out.tie(int(tie.sum()))
                if not ok.all():
                    y, x = map(int, np.argwhere(~ok)[0])
                    w = f32(m)[y:y + 3, x:x + 3]
                    rep.violation(rank, "C08|locality|%s|formula|win=%s|%s" % (op, window_literal(w), cfg_str(cell, route, dt)),
                                  "%s at (%d,%d) = %r, documented formula gives %r" % (op, y + 1, x + 1, float(mod[op][y + 1, x + 1]), float(e[y, x])),
                                  case=self.describe(rank), observed=float(mod[op][y + 1, x + 1]), expected=float(e[y, x]))
        out.case(outcome=[mod[op] for op in OPS], nontrivial=changed > 0, calls=8)
        if out.want_sample() and repl == "nan" and 0 < i < shape[0] - 1:
            out.sample({"raster": m, "cell": [i, j], "slope_before": base["slope"], "slope_after": mod["slope"]})


# ------------------------------------------------------------------------------------------------------------------
# (c) offset invariance
# ------------------------------------------------------------------------------------------------------------------
class OffsetSpace(ProductSpace):
    name = "offset"

    def __init__(self):
        self.dims = (catalogue(blocks5=True, floats=False), list(OFFSETS))
        self.finish_init()
        self.weight = 4.0

    def cfg(self, rank):
        return DIAG_CFGS[(rank // len(OFFSETS)) % 3][:2]          # varies with the raster, not with the offset

    def describe(self, rank):
        spec, k = self.pick(rank)
        cell, route = self.cfg(rank)
        return {"raster": spec_str(spec) if spec[0] == "blk" else build_raster(spec), "offset": k, "cellsize": cell,
                "route": route}

    def one(self, rank, out, rep):
        spec, k = self.pick(rank)
        cell, route = self.cfg(rank)
        a = build_raster(spec)
        b = (a + np.asarray(k, dtype=a.dtype)).astype(a.dtype)
        tag = "%s|offset=%d|%s" % (spec_str(spec), k, cfg_str(cell, route))
        ra = self.calls(rep, rank, self.I.raster(a, cell, route), tag + "|base", a)
        rb = self.calls(rep, rank, self.I.raster(b, cell, route), tag, b)
        for op in OPS:
            if ra[op] is None or rb[op] is None:
                continue
            out.ok()
            p = first_diff(ra[op], rb[op])
            if p is not None:
                w = window_at(np.asarray(a, dtype=float), *p)
                rep.violation(rank, "C08|offset|%s|win=%s|offset=%d|%s" % (op, window_literal(w), k, cfg_str(cell, route, spec[3])),
                              "%s: adding %d to every elevation changed the output at (%d,%d): %r -> %r (window %s)"
                              % (op, k, p[0], p[1], float(ra[op][p]), float(rb[op][p]), window_literal(w)),
                              case={"window": w, "offset": k, "cellsize": cell, "route": route, "raster": spec_str(spec)},
                              observed=float(rb[op][p]), expected=float(ra[op][p]))
        out.case(outcome=[rb[op] for op in OPS], nontrivial=True, calls=8)


# ------------------------------------------------------------------------------------------------------------------
# (d) quarter turns
# ------------------------------------------------------------------------------------------------------------------
class Rot90Space(ProductSpace):
    name = "rot90"

    def __init__(self):
        self.dims = (catalogue(), [1, 2, 3], SQUARE_CFGS)
        self.finish_init()
        self.weight = 4.0

    def describe(self, rank):
        spec, k, (cell, route) = self.pick(rank)
        return {"raster": spec_str(spec) if spec[0] == "blk" else build_raster(spec), "quarter_turns_ccw": k,
                "cellsize": cell, "route": route}

    def one(self, rank, out, rep):
        spec, k, (cell, route) = self.pick(rank)
        a = build_raster(spec)
        t = np.ascontiguousarray(np.rot90(a, k))
        tag = "%s|rot90k=%d|%s" % (spec_str(spec), k, cfg_str(cell, route))
        ops = ("slope", "aspect", "curvature")
        ra = self.calls(rep, rank, self.I.raster(a, cell, route), tag + "|base", a, ops)
        rt = self.calls(rep, rank, self.I.raster(t, cell, route), tag, t, ops)
        exact = integer_valued(spec)
        af = np.asarray(a, dtype=float)

        def report(op, p, what, obs, exp):
            # p = position in the turned raster; the same cell of the original raster is found by turning back
            idx = np.rot90(np.arange(a.size).reshape(a.shape), k)[p]
            i, j = divmod(int(idx), a.shape[1])
            w = window_at(af, i, j)
            rep.violation(rank, "C08|rot90|%s|win=%s|k=%d|%s" % (op, window_literal(w), k, cfg_str(cell, route, spec[3])),
                          "%s: after %d counter-clockwise quarter turn(s) the cell that was at (%d,%d) (window %s) has "
                          "%s %r, expected %r" % (op, k, i, j, window_literal(w), what, obs, exp),
                          case={"window": w, "k": k, "cellsize": cell, "route": route, "raster": spec_str(spec)},
                          observed=obs, expected=exp)

        for op in ("slope", "curvature"):
            if ra[op] is None or rt[op] is None:
                continue
            e = np.rot90(ra[op], k)
            out.ok()
            if exact or op == "curvature":
                p = first_diff(e, rt[op])
            else:
                ok, _ = agree(op, rt[op], e)
                p = tuple(map(int, np.argwhere(~ok)[0])) if not ok.all() else None
            if p is not None:
                report(op, p, "value", float(rt[op][p]), float(e[p]))
        if ra["aspect"] is not None and rt["aspect"] is not None:
            e0 = np.rot90(ra["aspect"], k).astype(np.float64)
            # a counter-clockwise quarter turn of the terrain turns every downslope direction counter-clockwise:
            # the compass bearing (clockwise from north) decreases by 90
            e = np.where(e0 == -1.0, -1.0, np.mod(e0 - 90.0 * k, 360.0))
            mag = None
            if not exact:
                mag = np.rot90(T.full(lambda w: T.aspect(w)[1], f32(a)), k)
                mag = np.where(np.isnan(mag), 1.0, mag)
            ok, tie = agree("aspect", rt["aspect"], e, mag)
            out.ok()
            out.tie(int(tie.sum()))
            out.count("aspect_cells_shifted", int(((e0 >= 0) & ok).sum()))
            out.count("aspect_flat_cells_kept", int(((e0 == -1) & ok).sum()))
            if not ok.all():
                p = tuple(map(int, np.argwhere(~ok)[0]))
                report("aspect", p, "aspect", float(rt["aspect"][p]),
                       "%r (= %r - 90*%d mod 360)" % (float(e[p]), float(e0[p]), k))
        out.case(outcome=[rt[op] for op in ops], nontrivial=True, calls=6)


# ------------------------------------------------------------------------------------------------------------------
# (f) summarize_terrain
# ------------------------------------------------------------------------------------------------------------------
class SummarizeSpace(ProductSpace):
    name = "summarize"

    def __init__(self):
        self.dims = (catalogue(), DIAG_CFGS)
        self.finish_init()
        self.weight = 4.0

    def describe(self, rank):
        spec, (cell, route, _) = self.pick(rank)
        return {"raster": spec_str(spec) if spec[0] == "blk" else build_raster(spec), "cellsize": cell, "route": route}

    def one(self, rank, out, rep):
        spec, (cell, route, _) = self.pick(rank)
        a = build_raster(spec)
        tag = "%s|%s" % (spec_str(spec), cfg_str(cell, route))
        ops = ("slope", "curvature", "aspect")
        r = self.I.raster(a, cell, route, name="elev")
        ref = self.calls(rep, rank, r, tag, a, ops)
        key = "C08|summarize|%s" % tag
        try:
            ds = self.I.summarize(r)
            names = sorted(map(str, ds.data_vars))
            got = {op: np.asarray(ds["elev-" + op].values) for op in ops if "elev-" + op in ds.data_vars}
        except Exception as e:
            rep.violation(rank, key + "|raises", "summarize_terrain raised %s: %s" % (type(e).__name__, str(e)[:200]),
                          sig="C08|summarize|raises|%s" % type(e).__name__, case=self.describe(rank))
            out.case(outcome=None, nontrivial=False, calls=4)
            return
        want = sorted(["elev"] + ["elev-" + op for op in ops])
        out.ok()
        if names != want:
            rep.violation(rank, key + "|variables", "summarize_terrain returned variables %r, expected %r" % (names, want),
                          case=self.describe(rank), observed=names, expected=want)
        elif not same(ds["elev"].values, a):
            rep.violation(rank, key + "|elev", "summarize_terrain changed the elevation variable", case=self.describe(rank))
        for op in ops:
            if ref[op] is None or op not in got:
                continue
            out.ok()
            p = first_diff(ref[op], got[op]) if got[op].shape == ref[op].shape else (0, 0)
            if p is not None:
                w = window_at(np.asarray(a, dtype=float), *p)
                rep.violation(rank, "C08|summarize|%s|win=%s|%s" % (op, window_literal(w), cfg_str(cell, route, spec[3])),
                              "summarize_terrain()['elev-%s'] differs from %s() at (%d,%d): %r vs %r"
                              % (op, op, p[0], p[1], float(got[op][p]), float(ref[op][p])),
                              case={"window": w, "raster": spec_str(spec), "cellsize": cell, "route": route},
                              observed=float(got[op][p]), expected=float(ref[op][p]))
        out.case(outcome=[got.get(op) for op in ops], nontrivial=True, calls=4)


def build(tier):
    p = PLAN[tier]
    spaces = [TileSpace("tiles_4L", "4L", [c + (DEFAULT_ANGLE,) for c in p["tiles_4L"]], OPS),
              TileSpace("tiles_5L", "5L", [c + (DEFAULT_ANGLE,) for c in p["tiles_5L"]], OPS,
                        shards=96 if tier == "quick" else 400),
              SingleSpace("single_3L", "3L", p["single_3L"])]
    if p["single_4L"]:
        spaces.append(SingleSpace("single_4L", "4L", p["single_4L"]))
    spaces.append(TileSpace("hill_4L", "4L", [((1.0, 1.0), "res", dt, ang) for dt in p["hill_4L"] for ang in ANGLES],
                            ("hillshade",)))
    if p["hill_5L"]:
        spaces.append(TileSpace("hill_5L", "5L", [((1.0, 1.0), "res", dt, ang) for dt in p["hill_5L"] for ang in ANGLES],
                                ("hillshade",), shards=400))
    spaces.append(TileSpace("scaled_4L", "4L", [(c, r, d, DEFAULT_ANGLE, sc) for c, r, d, sc in p["scaled_4L"]], OPS))
    spaces += [LocalitySpace(p["locality_shapes"]), OffsetSpace(), Rot90Space(), SummarizeSpace()]
    return spaces
