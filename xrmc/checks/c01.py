"""C01 — Dask-backed rasters give the NumPy result for every chunking and scheduler.

Engines E1 (every chunk decomposition x op x raster configuration) and E3 (controlled Dask scheduler
with write monitor on every compute; deviation-bounded schedule enumeration on 2-block graphs;
free-running thread pools as a labelled complement)."""
import itertools

import numpy as np

from ..core.rasters import dataarray, generic, same
from ..core.space import Space
from ..core.spaces import chunkings, compositions, unrank_product

PROPERTY = "C01"
LEVEL = "model_checking"
RULE = ("case = (operation, raster configuration, chunk decomposition[s]) executed on the Dask backend under the "
        "controlled one-task-at-a-time scheduler with write monitor and compared cell for cell with the same call on "
        "the NumPy backend; in the 'sched' spaces a case is one complete task schedule (choice sequence) with <= k "
        "deviations from Dask's default order. Non-trivial = the raster is split into >= 2 chunks; distinct = digest "
        "of (op, chunks, output).")
ASSUMPTIONS = [
    "rasters up to 5x6 cells, kernels up to 7x3, values from two fixed generic rasters (all cells distinct) plus one "
    "NaN/+inf/-inf at every position; a halo/reduction bug of a 3x3..7x3 stencil shows at a chunk border, all of which "
    "occur among the chunkings of such a raster",
    "hotspots: cells whose |z| is within 1e-4 of 1.65/1.96/2.58 are ties (global mean/std are reduced in a different "
    "order on Dask); constant rasters (std 0) are outside hotspots' domain",
    "true_color: RGB is not compared where the band is NaN (cast of NaN to uint8 is undefined); alpha is exact",
    "perlin: rtol 1e-5/atol 1e-6 (NumPy path normalises in the template's dtype, Dask path in float32); "
    "generate_terrain: rtol 1e-6 and cells within 1e-5 of the 0.3 water threshold are ties; generators get float templates only",
    "equal_interval: cells within 1e-9 (relative) of an interior cut are ties",
    "quantile is not in the statement (da.percentile is approximate by design)",
    "free-running thread-pool runs are a complement (labelled 'threads'), not the deciding step",
    "distributed schedulers and CuPy are not explorable in this sandbox",
]
NAN = float("nan")

H, W = {"quick": (4, 5), "thorough": (5, 6)}, None
SHAPE = {"quick": (4, 5), "thorough": (5, 6)}
MSHAPE = (3, 4)
BOUNDS = {
    "quick": {"raster": [4, 5], "chunkings": 128, "multi_raster": [3, 4], "multi_chunking_pairs": 1024,
              "kernel_shapes": "1x3,3x1,3x3,3x5,5x3,5x5", "nonfinite_deviations": 1, "schedule_deviations": 1,
              "thread_workers": [1, 2, 4, 16]},
    "thorough": {"raster": [5, 6], "chunkings": 512, "multi_raster": [3, 4], "multi_chunking_pairs": 1024,
                 "kernel_shapes": "1x3,3x1,3x3,3x5,5x3,5x5,1x5,5x1,7x3", "nonfinite_deviations": 1,
                 "schedule_deviations": 2, "thread_workers": [1, 2, 4, 16]},
}

COORD_CFGS = {
    # name: (ys(h), xs(w), attrs)
    "spaced_desc": lambda h, w: (10.0 + 2.0 * np.arange(h)[::-1], -3.0 + 0.5 * np.arange(w), {}),
    "unit": lambda h, w: (np.arange(h, dtype=float), np.arange(w, dtype=float), {}),
    "res_attr": lambda h, w: (np.arange(h, dtype=float), np.arange(w, dtype=float), {"res": (0.5, 2.0)}),
}


def base_arrays(shape, dtype, nr):
    b = [generic(shape, 0), generic(shape, 1), generic(shape, 0)[::-1, ::-1] * 0.5 + 3.0]
    out = []
    for a in b[:nr]:
        if np.dtype(dtype).kind in "iu":
            a = np.round(a * 3)
        out.append(np.ascontiguousarray(a).astype(dtype))
    return out


# ------------------------------------------------------------------------------------------------
# comparison policies
# ------------------------------------------------------------------------------------------------
def _window_mean(a, k):
    """float64 correlation with k / k.sum(); NaN where the window leaves the raster."""
    h, w = a.shape
    kh, kw = k.shape
    out = np.full((h, w), np.nan)
    kn = k / k.sum()
    for y in range(kh // 2, h - kh // 2):
        for x in range(kw // 2, w - kw // 2):
            win = a[y - kh // 2:y + kh // 2 + 1, x - kw // 2:x + kw // 2 + 1]
            out[y, x] = float((win * kn).sum())
    return out


def compare(op, rasters_np, ref, val):
    """-> (ok, n_tie_cells, message)"""
    ref = np.asarray(ref)
    val = np.asarray(val)
    if ref.shape != val.shape:
        return False, 0, "shape %s != numpy shape %s" % (val.shape, ref.shape)
    pol = op.policy
    if pol == "exact":
        if ref.dtype != val.dtype:
            return False, 0, "dtype %s != numpy dtype %s" % (val.dtype, ref.dtype)
        return same(val, ref), 0, "cells differ from the NumPy result"
    if pol == "hotspots":
        a = rasters_np[0].astype(np.float32).astype(np.float64)
        with np.errstate(all="ignore"):
            z = (_window_mean(a, op.kernel) - np.nanmean(a)) / np.nanstd(a)
        tie = np.zeros(a.shape, bool)
        for thr in (1.65, 1.96, 2.58):
            tie |= np.abs(np.abs(z) - thr) < 1e-4
        tie |= np.abs(z) < 1e-6
        ok = np.array_equal(val[~tie], ref[~tie])
        return ok, int(tie.sum()), "hotspot classes differ from the NumPy result"
    if pol == "cuts":
        a = rasters_np[0].astype(float)
        fin = a[np.isfinite(a)]
        tie = np.zeros(a.shape, bool)
        if fin.size:
            lo, hi = fin.min(), fin.max()
            k = int(op.name.rsplit("k", 1)[1])
            for i in range(1, k):
                c = lo + (hi - lo) * i / k
                tie |= np.abs(a - c) <= 1e-9 * max(1.0, abs(c))
        ok = same(np.where(tie, 0, val), np.where(tie, 0, ref))
        return ok, int(tie.sum()), "classes differ from the NumPy result"
    if pol == "true_color":
        if val.dtype != np.uint8:
            return False, 0, "dtype %s, expected uint8" % val.dtype
        if not np.array_equal(val[..., 3], ref[..., 3]):
            return False, 0, "alpha differs from the NumPy result"
        for b in range(3):
            band = rasters_np[b].astype(np.float32)
            m = np.isfinite(band)
            if not np.isfinite(band).all() and not m.any():
                continue
            fin = band[m]
            if fin.size == 0 or fin.max() == fin.min() or np.isinf(band).any():
                continue
            if not np.array_equal(val[..., b][m], ref[..., b][m]):
                return False, 0, "band %d differs from the NumPy result" % b
        return True, 0, ""
    if pol == "perlin":
        return same(val.astype(np.float64), ref.astype(np.float64), rtol=1e-5, atol=1e-6), 0, \
            "noise differs from the NumPy result beyond float32 rounding"
    if pol == "terrain":
        v, r = val.astype(float), ref.astype(float)
        top = max(float(np.nanmax(np.abs(r))), 1e-300)
        # water threshold: norm < 0.3 -> 0 ; norm = value / zfactor and zfactor = max (norm max is 1)
        tie = ((v == 0) ^ (r == 0)) & (np.abs(np.maximum(v, r) / top - 0.3) < 1e-5)
        ok = same(np.where(tie, 0, v), np.where(tie, 0, r), rtol=1e-6, atol=1e-9 * top)
        return ok, int(tie.sum()), "terrain differs from the NumPy result"
    raise ValueError(pol)


# ------------------------------------------------------------------------------------------------
class _Base(Space):
    tier = "quick"

    def setup(self):
        import dask
        import dask.array as da
        from ..sched import dask_explorer as dx
        from ._ops import build_ops
        self.dask, self.da, self.dx = dask, da, dx
        self.ops = {o.name: o for o in build_ops(self.tier)}
        self.refcache = {}

    # -- building rasters ---------------------------------------------------------------------
    def rasters(self, arrays, cfg, chunks_list=None):
        h, w = arrays[0].shape
        ys, xs, attrs = COORD_CFGS[cfg](h, w)
        out = []
        for i, a in enumerate(arrays):
            ch = None if chunks_list is None else chunks_list[i]
            out.append(dataarray(a.copy(), ys, xs, attrs=attrs, chunks=ch))
        return out

    def reference(self, op, arrays, cfg, key):
        if key not in self.refcache:
            if len(self.refcache) > 400:
                self.refcache.clear()
            try:
                self.refcache[key] = ("ok", np.asarray(op(self.rasters(arrays, cfg)).values))
            except Exception as e:  # the NumPy call itself fails: input outside the op's domain
                self.refcache[key] = ("exc", repr(e))
        return self.refcache[key]

    def dask_call(self, op, arrays, cfg, chunks_list, prefix=(), monitor="deps"):
        s = self.dx.ControlledScheduler(prefix, monitor)
        with self.dask.config.set(scheduler=s.get):
            res = op(self.rasters(arrays, cfg, chunks_list))
            lazy = isinstance(res.data, self.da.Array)
            val = np.asarray(res.data.compute()) if lazy else np.asarray(res.data)
        return val, lazy, s

    def one(self, out, rank, op, arrays, cfg, chunks_list, keytxt, refkey):
        """Run one (op, rasters, chunkings) case under the controlled scheduler and judge it."""
        st, ref = self.reference(op, arrays, cfg, refkey)
        nchunks = max(len(c[0]) * len(c[1]) for c in chunks_list)
        if st == "exc":
            out.count("numpy_reference_raises")
            out.case(outcome=None, nontrivial=False, calls=1)
            return
        case = {"op": op.name, "coords": cfg, "chunks": chunks_list, "dtype": str(arrays[0].dtype)}
        key = "c01|%s|%s|%s|chunks=%s" % (op.name, cfg, keytxt, chunks_list)
        try:
            val, lazy, s = self.dask_call(op, arrays, cfg, chunks_list)
        except Exception as e:
            out.case(outcome=("exc", type(e).__name__), nontrivial=nchunks > 1, calls=1)
            out.violation(rank, key, "Dask-backed call raises %s: %s (NumPy call succeeds)" % (type(e).__name__, str(e)[:200]),
                          case=case, sig="c01|%s|dask-raises|%s" % (op.name.split("_k")[0], type(e).__name__))
            return
        out.calls(s.tasks)
        out.count("tasks_executed", s.tasks)
        out.count("computes", s.computes)
        ok, nties, msg = compare(op, arrays, ref, val)
        out.case(outcome=(op.name, str(chunks_list), val), nontrivial=nchunks > 1, calls=1)
        out.tie(nties)
        out.ok()
        if not lazy:
            out.violation(rank, key + "|eager", "result is not Dask-backed before compute", case=case)
        if not ok:
            out.violation(rank, key, msg, case=dict(case, rasters=arrays), observed=val, expected=ref)
        if s.impure:
            out.count("impure_tasks", len(s.impure))
            out.note("impure task(s) seen: %s" % (s.impure[0],))
            # conflict exploration: all <=1-deviation schedules must still give the NumPy result
            bad = []

            def on_exec(ch, res, sch):
                if not compare(op, arrays, ref, res)[0]:
                    bad.append(ch)

            def fn(get):
                with self.dask.config.set(scheduler=get):
                    r = op(self.rasters(arrays, cfg, chunks_list))
                    return np.asarray(r.data.compute())
            st2 = self.dx.explore_schedules(fn, 1, max_execs=300, on_exec=on_exec)
            out.count("conflict_schedules", st2["executions"])
            if bad:
                out.violation(rank, key + "|schedule", "a task mutates a shared value and schedule %s changes the result" % bad[0],
                              case=dict(case, schedule=bad[0]))
        elif out.want_sample() and nchunks > 2:
            out.sample(dict(case, tasks=s.tasks, max_ready=s.max_ready, equal_to_numpy=True))


class ChunkSpace(_Base):
    """every op x every chunk decomposition of the raster (one coordinate configuration, float64).
    stride > 1 (quick tier, secondary ops only): every stride-th chunking of the canonical list, offset 1."""

    def __init__(self, tier, group, opnames, stride=1):
        self.tier = tier
        self.shape = SHAPE[tier]
        self.opnames = opnames
        self.chunkings = chunkings(*self.shape)[(1 if stride > 1 else 0)::stride]
        self.name = "chunk_%s_%dx%d" % (group, *self.shape)
        self.size = len(opnames) * len(self.chunkings)
        self.weight = 3.0
        self.cfg = "spaced_desc"

    def describe(self, rank):
        oi, ci = divmod(rank, len(self.chunkings))
        return {"op": self.opnames[oi], "chunks": self.chunkings[ci], "shape": self.shape}

    def run(self, lo, hi, out):
        for rank in range(lo, hi):
            oi, ci = divmod(rank, len(self.chunkings))
            op = self.ops[self.opnames[oi]]
            arrays = base_arrays(self.shape, "f8", op.nr)
            ch = self.chunkings[ci]
            self.one(out, rank, op, arrays, self.cfg, [ch] * op.nr, "f8|generic", (op.name, self.cfg, "f8"))


class MultiSpace(_Base):
    """multi-raster ops: every band chunked independently (3x4: 32 x 32 pairs; third band like band 1 or 2)."""

    def __init__(self, tier, opnames2, opnames3):
        self.tier = tier
        self.name = "multi_independent_chunkings_3x4"
        self.ch = chunkings(*MSHAPE)
        n = len(self.ch)
        self.ops2, self.ops3 = opnames2, opnames3
        self.size = len(opnames2) * n * n + len(opnames3) * n * n * 2
        self.weight = 1.0

    def locate(self, rank):
        n = len(self.ch)
        n2 = len(self.ops2) * n * n
        if rank < n2:
            oi, r = divmod(rank, n * n)
            a, b = divmod(r, n)
            return self.ops2[oi], [self.ch[a], self.ch[b]]
        rank -= n2
        oi, r = divmod(rank, n * n * 2)
        r, third = divmod(r, 2)
        a, b = divmod(r, n)
        return self.ops3[oi], [self.ch[a], self.ch[b], self.ch[a] if third == 0 else self.ch[b]]

    def describe(self, rank):
        o, c = self.locate(rank)
        return {"op": o, "chunks_per_band": c}

    def run(self, lo, hi, out):
        for rank in range(lo, hi):
            name, chl = self.locate(rank)
            op = self.ops[name]
            arrays = base_arrays(MSHAPE, "f8", op.nr)
            self.one(out, rank, op, arrays, "unit", chl, "f8|generic", (name, "unit", "f8", "m"))


NONFINITE = (NAN, float("inf"), float("-inf"))


class NonFiniteSpace(_Base):
    """one NaN / +inf / -inf at every position (deviation bound 1) x a coarse set of chunkings."""

    def __init__(self, tier, opnames):
        self.tier = tier
        self.shape = SHAPE["quick"]
        h, w = self.shape
        self.opnames = opnames
        self.chs = [((2, 2), (2, 3)), ((1, 3), (4, 1))]
        if tier == "thorough":
            self.chs += [((1, 1, 1, 1), (1, 1, 1, 1, 1)), ((3, 1), (1, 2, 2)), ((4,), (1, 4)), ((2, 1, 1), (5,))]
        self.name = "nonfinite_cell_4x5"
        self.radices = [len(opnames), h * w, len(NONFINITE), len(self.chs)]
        self.size = int(np.prod(self.radices))
        self.weight = 2.0

    def describe(self, rank):
        oi, pos, vi, ci = unrank_product(rank, self.radices)
        return {"op": self.opnames[oi], "cell": divmod(pos, self.shape[1]), "value": NONFINITE[vi], "chunks": self.chs[ci]}

    def run(self, lo, hi, out):
        for rank in range(lo, hi):
            oi, pos, vi, ci = unrank_product(rank, self.radices)
            op = self.ops[self.opnames[oi]]
            arrays = base_arrays(self.shape, "f8", op.nr)
            arrays[0].flat[pos] = NONFINITE[vi]
            if op.nr > 1:
                arrays[1].flat[(pos * 7 + 3) % arrays[1].size] = NONFINITE[vi]
            tag = "f8|cell%d=%s" % (pos, NONFINITE[vi])
            self.one(out, rank, op, arrays, "spaced_desc", [self.chs[ci]] * op.nr, tag, (op.name, "spaced_desc", tag))


class OffsetSpace(_Base):
    """values on a large offset (|mean| / std >= 1e3): global mean / std / min / max reductions lose precision differently
    when they are re-derived per backend, so the Dask result must still follow the NumPy result."""

    def __init__(self, tier, opnames):
        self.tier = tier
        self.shape = SHAPE["quick"]
        self.opnames = opnames
        self.offsets = [20000.0, 65000.0, -1.0e6]
        allc = chunkings(*self.shape)
        self.chs = allc[1::23] if tier == "quick" else allc[1::7]
        self.radices = [len(opnames), len(self.offsets), len(self.chs)]
        self.name = "large_offset_values_4x5"
        self.size = int(np.prod(self.radices))

    def describe(self, rank):
        oi, fi, ci = unrank_product(rank, self.radices)
        return {"op": self.opnames[oi], "offset": self.offsets[fi], "chunks": self.chs[ci]}

    def run(self, lo, hi, out):
        for rank in range(lo, hi):
            oi, fi, ci = unrank_product(rank, self.radices)
            op = self.ops[self.opnames[oi]]
            off = self.offsets[fi]
            arrays = [a + off for a in base_arrays(self.shape, "f8", op.nr)]
            tag = "f8|generic%+g" % off
            self.one(out, rank, op, arrays, "spaced_desc", [self.chs[ci]] * op.nr, tag, (op.name, "spaced_desc", tag))


class DtypeCellsizeSpace(_Base):
    """dtype {float32, int32} x coordinate configuration {unit, res attr} x a coarse set of chunkings."""

    def __init__(self, tier, opnames):
        self.tier = tier
        self.shape = SHAPE["quick"]
        self.opnames = opnames
        allc = chunkings(*self.shape)
        self.chs = allc[1::17] if tier == "quick" else allc[1::5]
        self.dtypes = ["f4", "i4"]
        self.cfgs = ["unit", "res_attr"]
        self.name = "dtype_cellsize_4x5"
        self.radices = [len(opnames), len(self.dtypes), len(self.cfgs), len(self.chs)]
        self.size = int(np.prod(self.radices))

    def describe(self, rank):
        oi, di, gi, ci = unrank_product(rank, self.radices)
        return {"op": self.opnames[oi], "dtype": self.dtypes[di], "coords": self.cfgs[gi], "chunks": self.chs[ci]}

    def run(self, lo, hi, out):
        for rank in range(lo, hi):
            oi, di, gi, ci = unrank_product(rank, self.radices)
            op = self.ops[self.opnames[oi]]
            dt = self.dtypes[di]
            if op.float_only and dt == "i4":
                out.case(outcome=None, nontrivial=False, calls=0)
                out.count("skipped_int_template_for_generator")
                continue
            arrays = base_arrays(self.shape, dt, op.nr)
            self.one(out, rank, op, arrays, self.cfgs[gi], [self.chs[ci]] * op.nr, dt + "|generic",
                     (op.name, self.cfgs[gi], dt))


class ScheduleSpace(_Base):
    """E3c: ALL task schedules with <= k deviations from Dask's default order on a 2-block graph."""

    def __init__(self, tier, opnames):
        self.tier = tier
        self.opnames = opnames
        self.bound = 1 if tier == "quick" else 2
        self.name = "sched_le%d_deviations_2blocks" % self.bound
        self.size = len(opnames)
        self.grain = 1
        self.weight = 50.0
        self.cap = 4000 if tier == "quick" else 10000

    def describe(self, rank):
        return {"op": self.opnames[rank], "chunks": ((3,), (2, 2)), "deviation_bound": self.bound}

    def run(self, lo, hi, out):
        for rank in range(lo, hi):
            op = self.ops[self.opnames[rank]]
            arrays = base_arrays(MSHAPE, "f8", op.nr)
            chl = [((3,), (2, 2))] * op.nr
            st, ref = self.reference(op, arrays, "spaced_desc", (op.name, "sched"))
            if st == "exc":
                out.count("numpy_reference_raises")
                continue
            digests = set()

            def fn(get):
                with self.dask.config.set(scheduler=get):
                    r = op(self.rasters(arrays, "spaced_desc", chl))
                    return np.asarray(r.data.compute())

            def on_exec(ch, res, sch):
                ok, nt, msg = compare(op, arrays, ref, res)
                out.case(outcome=(op.name, tuple(sch.order)), nontrivial=any(ch), calls=sch.tasks)
                out.ok()
                out.tie(nt)
                digests.add(res.tobytes())
                if not ok:
                    out.violation(rank, "c01|sched|%s|choices=%s" % (op.name, [i for i in ch]),
                                  "schedule changes the result: " + msg, case={"op": op.name, "choices": ch})
                if sch.impure:
                    out.count("impure_tasks", len(sch.impure))
            try:
                st2 = self.dx.explore_schedules(fn, self.bound, monitor="deps", max_execs=self.cap, on_exec=on_exec)
            except Exception as e:
                out.violation(rank, "c01|sched|%s|raises" % op.name, "Dask-backed call raises %r" % (e,),
                              sig="c01|%s|dask-raises|%s" % (op.name.split("_k")[0], type(e).__name__))
                continue
            out.count("schedules", st2["executions"])
            if st2["capped"]:
                out.note("schedule cap %d hit for %s (bound %d): fully covered below the cap only" % (self.cap, op.name, self.bound))
                out.count("schedule_caps_hit")
            if len(digests) > 1 and op.policy == "exact":
                out.violation(rank, "c01|sched|%s|nondeterministic" % op.name, "%d distinct results over schedules" % len(digests))
            out.sample({"op": op.name, "schedules": st2["executions"], "points": st2["max_points"],
                        "max_ready": st2["max_ready"], "distinct_results": len(digests)})


FAMILIES = ["savi", "evi", "hillshade", "mean", "apply", "focal_stats", "convolution", "hotspots", "binary", "reclassify",
            "equal_interval", "true_color", "ndvi_vs_swapped", "perlin", "slope_aspect_curv"]
FAMILY_POLICY = {"hotspots": "hotspots", "equal_interval": "cuts", "true_color": "true_color", "perlin": "perlin"}


class JointComputeSpace(_Base):
    """calls differing only in parameters, built on the SAME Dask inputs and computed together in ONE graph
    (dask.compute(a, b, ...)): each must still equal its own NumPy result."""

    def __init__(self, tier):
        self.tier = tier
        self.chs = [((4,), (5,)), ((2, 2), (2, 3)), ((1, 3), (4, 1)), ((1, 1, 2), (2, 1, 2))]
        if tier == "thorough":
            self.chs += [((1, 1, 1, 1), (1, 1, 1, 1, 1)), ((3, 1), (5,))]
        self.name = "joint_compute_parameter_families"
        self.size = len(FAMILIES) * len(self.chs)
        self.grain = len(self.chs)
        self.weight = 5.0

    def setup(self):
        super().setup()
        from ._ops import build_families
        self.fam = build_families()
        assert sorted(self.fam) == sorted(FAMILIES)

    def describe(self, rank):
        fi, ci = divmod(rank, len(self.chs))
        return {"family": FAMILIES[fi], "chunks": self.chs[ci], "computed": "together in one dask.compute"}

    def run(self, lo, hi, out):
        from ._ops import Op, kernel01
        for rank in range(lo, hi):
            fi, ci = divmod(rank, len(self.chs))
            name = FAMILIES[fi]
            nr, variants = self.fam[name]
            shape = SHAPE["quick"]
            arrays = base_arrays(shape, "f8", nr)
            ch = self.chs[ci]
            refs = [np.asarray(v(self.rasters(arrays, "spaced_desc")).values) for v in variants]
            s = self.dx.ControlledScheduler((), "deps")
            key = "c01|joint|%s|chunks=%s" % (name, ch)
            try:
                with self.dask.config.set(scheduler=s.get):
                    rd = self.rasters(arrays, "spaced_desc", [ch] * nr)
                    lazies = [v(rd) for v in variants]
                    vals = self.dask.compute(*[z.data for z in lazies])
            except Exception as e:
                out.case(outcome=("exc", type(e).__name__), calls=1)
                out.violation(rank, key + "|raises", "joint compute raises %r" % (e,), case=self.describe(rank))
                continue
            out.calls(s.tasks)
            pol = FAMILY_POLICY.get(name, "exact")
            for i, (val, ref) in enumerate(zip(vals, refs)):
                kern = kernel01((3, 3)) if i == 0 else kernel01((3, 5))
                op = Op("%s_k%d" % (name, 3 if i == 0 else 5) if pol == "cuts" else name, None, nr, pol, kernel=kern)
                ok, nt, msg = compare(op, arrays, ref, np.asarray(val))
                out.case(outcome=(name, i, str(ch), np.asarray(val)), nontrivial=True, calls=1)
                out.ok()
                out.tie(nt)
                if not ok:
                    out.violation(rank, key + "|variant=%d" % i, "computed together with its parameter variants, variant %d of %s "
                                  "no longer equals its NumPy result: %s" % (i, name, msg), case=dict(self.describe(rank), variant=i),
                                  observed=np.asarray(val), expected=ref)
            if s.impure:
                out.count("impure_tasks", len(s.impure))
            if out.want_sample():
                out.sample(dict(self.describe(rank), variants=len(variants), tasks=s.tasks))


class ThreadsSpace(_Base):
    """free-running complement (NOT the deciding step): the real threaded scheduler x worker counts."""

    def __init__(self, tier, opnames):
        self.tier = tier
        self.opnames = opnames
        self.workers = [1, 2, 4, 16]
        self.name = "threads_free_running_complement"
        self.size = len(opnames) * len(self.workers)

    def describe(self, rank):
        oi, wi = divmod(rank, len(self.workers))
        return {"op": self.opnames[oi], "scheduler": "threads", "num_workers": self.workers[wi]}

    def run(self, lo, hi, out):
        for rank in range(lo, hi):
            oi, wi = divmod(rank, len(self.workers))
            op = self.ops[self.opnames[oi]]
            shape = SHAPE["quick"]
            arrays = base_arrays(shape, "f8", op.nr)
            chl = [((1, 1, 2), (2, 1, 2))] * op.nr
            st, ref = self.reference(op, arrays, "spaced_desc", (op.name, "thr"))
            if st == "exc":
                continue
            for rep in range(2):
                try:
                    with self.dask.config.set(scheduler="threads", num_workers=self.workers[wi]):
                        r = op(self.rasters(arrays, "spaced_desc", chl))
                        val = np.asarray(r.data.compute())
                except Exception as e:
                    out.case(outcome=("exc",), calls=1)
                    out.violation(rank, "c01|threads|%s|w=%d|raises" % (op.name, self.workers[wi]), repr(e),
                                  sig="c01|%s|dask-raises|%s" % (op.name.split("_k")[0], type(e).__name__))
                    break
                ok, nt, msg = compare(op, arrays, ref, val)
                out.case(outcome=(op.name, val), nontrivial=True, calls=1)
                out.ok()
                out.tie(nt)
                if not ok:
                    out.violation(rank, "c01|threads|%s|w=%d" % (op.name, self.workers[wi]), msg,
                                  case=self.describe(rank), observed=val, expected=ref)


def _names(tier):
    from ._ops import KSHAPES_Q, KSHAPES_T
    shapes = KSHAPES_T if tier == "thorough" else KSHAPES_Q
    tags = ["%dx%d" % s for s in shapes]
    terrain = ["slope", "aspect", "curvature", "hillshade", "hillshade_az100_alt30", "hillshade_az0_alt0", "hillshade_az360_alt90",
               "mean_p1", "mean_p2", "mean_p3_excl", "mean_p2_excl_nonan"]
    focal = []
    for t in tags:
        focal += ["apply_mean_" + t, "apply_range_" + t, "apply_corner_" + t, "focal_stats_" + t,
                  "convolution_" + t, "hotspots_" + t]
    focal.append("focal_stats_max_min_3x3")
    cell1 = ["binary", "reclassify", "equal_interval_k3", "equal_interval_k5"]
    two = ["gci", "nbr", "nbr2", "ndvi", "ndmi", "savi", "savi_sf0.25"]
    three = ["arvi", "evi", "sipi", "ebbi", "true_color", "true_color_nodata5"]
    gens = ["perlin", "perlin_f23_s7", "generate_terrain", "generate_terrain_s3", "perlin_s0_f31", "generate_terrain_full_extent"]
    return terrain, focal, cell1, two, three, gens


def build(tier):
    terrain, focal, cell1, two, three, gens = _names(tier)
    q = tier == "quick"
    focal_main = [f for f in focal if f.startswith(("apply_mean_", "convolution_", "hotspots_"))] if q else focal
    focal_rest = [f for f in focal if f not in focal_main]
    spaces = [
        ChunkSpace(tier, "terrain_mean", terrain),
        ChunkSpace(tier, "focal_kernels", focal_main),
        ChunkSpace(tier, "classify_spectral", cell1 + two + three),
        ChunkSpace(tier, "perlin", gens[:2] + gens[4:5]),
        ChunkSpace(tier, "generate_terrain", gens[2:4] + gens[5:], stride=16 if tier == "quick" else 4),
        MultiSpace(tier, two if not q else ["ndvi", "savi_sf0.25", "gci"], three if not q else ["evi", "true_color"]),
        NonFiniteSpace(tier, terrain + [f for f in focal if ("3x3" in f or "3x5" in f or "5x3" in f or "1x3" in f)
                                        and (not q or f.startswith(("apply_mean_", "convolution_", "hotspots_", "focal_stats_3x3")))]
                       + cell1 + ["ndvi", "evi", "true_color"]),
        DtypeCellsizeSpace(tier, terrain + [f for f in focal if "3x5" in f or "5x3" in f] + cell1 + ["ndvi", "savi", "arvi",
                                                                                                   "true_color"] + gens[:3]),
        OffsetSpace(tier, ["hotspots_3x3", "hotspots_3x5", "hotspots_1x3", "equal_interval_k3", "true_color", "mean_p1", "slope",
                           "convolution_3x3", "focal_stats_3x3", "ndvi"]),
        JointComputeSpace(tier),
        ScheduleSpace(tier, ["slope", "mean_p2", "apply_mean_3x3", "equal_interval_k3", "ndvi", "true_color", "perlin",
                             "reclassify"] + (["focal_stats_3x3", "hotspots_3x3", "convolution_3x5", "evi", "aspect"]
                                              if tier == "thorough" else [])),
        ThreadsSpace(tier, ["slope", "aspect", "mean_p2", "apply_range_3x5", "focal_stats_5x3", "hotspots_3x3",
                            "convolution_5x5", "binary", "equal_interval_k3", "ndvi", "evi", "true_color", "perlin"]
                     + (["generate_terrain"] if tier == "thorough" else [])),
    ]
    if focal_rest:
        spaces.insert(2, ChunkSpace(tier, "focal_kernels_secondary", focal_rest, stride=4))
    return spaces
