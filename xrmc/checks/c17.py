"""C17 — local operators are per-cell functions of the layers, NaN-absorbing.

Engine E1.  A dataset is built whose cells are *every* D-tuple of data-layer values over a small alphabet,
crossed with every reference value 1..D (so each (tuple, ref) pair is one cell of the raster); the cells are
laid out in two non-square shapes and in one permuted order.  Every operator of xrspatial.local named by the
property is called on every ordered sub-list of the data layers (and on the default "all variables"
selection for three variable orders of the dataset), every ref_var choice, C / Fortran / mixed memory layout,
int and float layers, and compared cell by cell with the plain-Python definitions of
xrmc.oracles.local_ops.
Signed alphabets ({-2,-1,0,NaN}, {-3,0,2,NaN}, {-2,-1,0}): cells whose values are all negative / all zero / of mixed sign.
Variable NAMES are a dimension of their own (spaces *_names_*): name sets in which the data-layer names are proper
substrings of the reference name (ref 'b12' / 'b21' with layers 'b1', 'b2', 'b'; ref 'rank' with layers 'a', 'ran') or proper
superstrings of it (ref 'r' with layers 'r1', 'r2'); which layers an operator reads is decided by name EQUALITY only."""
import itertools

import numpy as np

from ..core.space import Space
from ..core.spaces import ordered_sublists, unrank_product
from ..oracles import local_ops as model

PROPERTY = "C17"
LEVEL = "model_checking"
RULE = ("per space (D data layers, alphabet, dtype, reference layers): rank = mixed-radix number of (arrangement "
        "of the cell list in {shape A, shape B = A transposed, shape A permuted}, selection in {data_vars=None for "
        "each dataset variable order} + {every ordered sub-list of >= 1 data layer names}, operator in {cell_stats x "
        "7 func spellings, combine, lowest/highest_position, (lesser|equal|greater)_frequency and rank x each ref_var}, "
        "memory layout in {C, F, alternating F/C}); spaces *_names_<scheme> use the variable names of that scheme "
        "(data-layer names that are substrings / superstrings of the reference names) instead of the default ones; "
        "the raster's cells are all alphabet^D tuples x ref values 1..D; "
        "one case = one call compared on every cell; non-trivial = the expected raster has >= 2 distinct non-NaN "
        "values; distinct = distinct (operator, output raster) digests")
ASSUMPTIONS = [
    "popularity is not in the property statement and is not checked",
    "reference layers are integer typed with values in 1..D and no NaN (the statement's domain); rank cells whose "
    "ref value exceeds the number of selected data layers are outside 1..n and are not asserted (counted in "
    "counters.rank_cells_ref_gt_n_not_asserted); a NaN in the data layers is asserted to give NaN there too",
    "first-occurrence order of combine ids is row-major (raster scan) order",
    "only the values, the shape and combine's attrs['key'] of the result are asserted (not dtype, dims, coords, name)",
    "datasets have at most 6 variables (data + reference layers), numpy backed; data_vars sub-lists are drawn from "
    "the data layers only, the default selection (data_vars=None) also includes the other variables of the dataset",
    "value alphabets are small integers (of either sign) so every statistic is exact (plus: infinities of both signs; and, with "
    "data layers alternating between int64 and float64, the integers 2^53 .. 2^53+2, where a float layer stores 2^53+1 as 2^53 "
    "and the oracle works on the STORED values; results are compared after conversion to float64, combine's key exactly); mean/std compared with rtol=atol=1e-9",
    "variable names are non-empty strings, pairwise different; a name may contain, or be contained in, another variable's name",
]
NAN = float("nan")
FLOAT4 = (0, 1, 2, NAN)
FLOAT3 = (0, 1, NAN)
INT3 = (0, 1, 2)
NEG4 = (-2, -1, 0, NAN)       # no positive value: every cell is all-negative, all-zero or a mix of the two
MIX4 = (-3, 0, 2, NAN)        # mixed signs
NEGI3 = (-2, -1, 0)
BIG3 = (2 ** 53, 2 ** 53 + 1, 2 ** 53 + 2)     # integers float64 cannot tell apart (2^53 + 1 rounds to 2^53); used with MIXED layer dtypes
INF = float("inf")
INF4 = (-INF, 1, INF, NAN)    # infinities of both signs: finite arithmetic on a cell may be NaN (inf - inf) although no layer is NaN
ALPHA_TAG = {NEG4: "neg210n", MIX4: "m302n", NEGI3: "neg210", INF4: "inf1n", BIG3: "big2p53"}     # suffix of the space name / alphabet id in keys
# name schemes: tag -> (data-layer names, reference-layer names)
NAME_SCHEMES = {
    "sub3": (("b1", "b2", "b"), ("b12", "b21")),       # every data name is a proper substring of ref 'b12'; 'b2', 'b' of 'b21'
    "sub2": (("a", "ran"), ("rank",)),                 # both data names are proper substrings of the ref name
    "sup2": (("r1", "r2"), ("r",)),                    # the ref name is a proper substring of both data names
}
DATA_NAMES = ("q", "a", "m", "c", "z", "e")        # insertion order differs from alphabetical order
LAYOUTS = ("C", "F", "mixed")
ARRANGEMENTS = ("A", "B", "Aperm")
STAT_SPELLINGS = (None, "max", "mean", "median", "min", "std", "sum")   # None = func omitted (documented default: sum)

# (D data layers, alphabet, dtype, reference layers, repetitions of the cell list[, name scheme])
CONFIGS = {
    "quick": [(1, FLOAT4, "f8", ("r",), 3), (1, INT3, "i8", ("r",), 4),
              (2, FLOAT4, "f8", ("r", "s"), 1), (2, INT3, "i8", ("r", "s"), 1),
              (3, FLOAT4, "f8", ("r", "s"), 1), (3, INT3, "i8", ("r", "s"), 1),
              (4, FLOAT4, "f8", ("r", "s"), 1), (4, INT3, "i8", ("r", "s"), 1),
              # signed alphabets
              (1, NEG4, "f8", ("r",), 3), (2, NEG4, "f8", ("r", "s"), 1), (3, NEG4, "f8", ("r", "s"), 1),
              (2, MIX4, "f8", ("r", "s"), 1), (3, MIX4, "f8", ("r", "s"), 1),
              (2, NEGI3, "i8", ("r", "s"), 1), (3, NEGI3, "i8", ("r", "s"), 1), (4, NEGI3, "i8", ("r", "s"), 1),
              # infinities of either sign in the layers
              (2, INF4, "f8", ("r", "s"), 1), (3, INF4, "f8", ("r", "s"), 1),
              # layers of DIFFERENT dtypes (int64 next to float64: a cell is the tuple of the stored values, compared exactly as
              # Python numbers; no statistic: float64 arithmetic on integers beyond 2^53 is inexact by nature)
              (2, BIG3, "i8+f8", ("r", "s"), 1), (3, BIG3, "i8+f8", ("r", "s"), 1), (2, INT3, "i8+f8", ("r", "s"), 1),
              (2, BIG3, "f8+i8", ("r",), 1),
              # variable names containing / contained in one another
              (3, FLOAT4, "f8", None, 1, "sub3"), (3, INT3, "i8", None, 1, "sub3"),
              (2, FLOAT4, "f8", None, 1, "sub2"), (2, INT3, "i8", None, 1, "sub2"),
              (2, FLOAT4, "f8", None, 1, "sup2"), (2, INT3, "i8", None, 1, "sup2")],
}
CONFIGS["thorough"] = CONFIGS["quick"] + [
    (2, FLOAT4, "f4", ("r", "s"), 1), (2, INT3, "i4", ("r", "s"), 1),
    (3, FLOAT4, "f4", ("r", "s"), 1), (3, INT3, "i4", ("r", "s"), 1),
    (5, FLOAT3, "f8", ("r",), 1), (5, INT3, "i8", ("r",), 1),
    (6, FLOAT3, "f8", (), 1), (6, INT3, "i8", (), 1),
    (4, NEG4, "f8", ("r", "s"), 1), (4, MIX4, "f8", ("r", "s"), 1), (3, NEG4, "f4", ("r", "s"), 1),
    (3, MIX4, "f8", None, 1, "sub3"), (3, NEGI3, "i8", None, 1, "sub3")]
CONFIGS = {t: [c if len(c) == 6 else c + (None,) for c in cfg] for t, cfg in CONFIGS.items()}
BOUNDS = {t: {"datasets": [dict(data_layers=D, alphabet=[str(x) for x in al], dtype=dt,
                                data_layer_names=list(NAME_SCHEMES[nm][0] if nm else DATA_NAMES[:D]),
                                ref_layers=list(NAME_SCHEMES[nm][1] if nm else refs),
                                cell_list_repeats=rep) for D, al, dt, refs, rep, nm in cfg],
              "layouts": list(LAYOUTS), "arrangements": list(ARRANGEMENTS),
              "selections": "data_vars=None x dataset variable orders + all ordered sub-lists (>= 1) of the data layers"}
          for t, cfg in CONFIGS.items()}


def _shape(n):
    """Non-square (h, w), h < w, h the largest divisor of n below sqrt(n)."""
    h = max(d for d in range(1, n) if n % d == 0 and d * d < n)
    return h, n // h


def _perm(n):
    """A fixed permutation of range(n): i -> (i * p + c) mod n with p coprime to n."""
    p = int(n * 0.618) + 1
    while np.gcd(p, n) != 1:
        p += 1
    c = n // 3
    return [(i * p + c) % n for i in range(n)]


class LocalSpace(Space):
    def __init__(self, D, alphabet, dtype, refs, rep, names=None):
        self.data = DATA_NAMES[:D]
        if names is not None:
            self.data, refs = NAME_SCHEMES[names]
            assert len(self.data) == D and len(set(self.data) | set(refs)) == D + len(refs)
        self.D, self.alphabet, self.dtype, self.refs, self.rep = D, alphabet, dtype, tuple(refs), rep
        self.name = "local_D%d_%s_%dletters_refs%d" % (D, dtype, len(alphabet), len(refs))
        self.atag = ALPHA_TAG.get(alphabet, str(len(alphabet)))       # alphabet id used in violation keys
        if alphabet in ALPHA_TAG:
            self.name += "_" + ALPHA_TAG[alphabet]
        if names is not None:
            self.name += "_names_" + names
        # the cells: every tuple x every ref value
        tuples = list(itertools.product(alphabet, repeat=D))
        if self.refs:
            cells = [t + (r, D + 1 - r) for t in tuples for r in range(1, D + 1)]
        else:
            cells = [t for t in tuples]
        self.cells = cells * rep
        self.n = len(self.cells)
        self.shapeA = _shape(self.n)
        self.perm = _perm(self.n)
        # dataset variable orders (only observable through data_vars=None)
        d, r = list(self.data), list(self.refs)
        orders = [d + r, r + d, d[:1] + r[:1] + d[1:] + r[1:]]
        self.orders = [list(o) for o in dict.fromkeys(tuple(o) for o in orders)]
        self.selections = [("default", i, None) for i in range(len(self.orders))] + \
                          [("explicit", 0, list(s)) for s in ordered_sublists(self.data, D, 1)]
        self.ops = ([] if alphabet is BIG3 else [("cell_stats", f, None) for f in STAT_SPELLINGS]) + \
                   [("combine", None, None), ("lowest_position", None, None), ("highest_position", None, None)] + \
                   [(fn, None, ref) for fn in model.FREQUENCIES + ("rank",) for ref in self.refs]
        self.radices = [len(ARRANGEMENTS), len(self.selections), len(self.ops), len(LAYOUTS)]
        self.size = int(np.prod(self.radices))
        self.weight = self.n * (D + 1)
        self._ds = {}
        self._lists = {}
        self._exp = (None, None)

    def setup(self):
        import xarray as xr
        from xrspatial import local
        self.xr, self.local = xr, local

    # ---- case construction --------------------------------------------------------------------------
    def arrays(self, arr_i):
        """name -> C-ordered 2-D array of the layer for arrangement arr_i."""
        cells = self.cells if ARRANGEMENTS[arr_i] != "Aperm" else [self.cells[j] for j in self.perm]
        h, w = self.shapeA
        shape = (w, h) if ARRANGEMENTS[arr_i] == "B" else (h, w)
        out = {}
        for k, name in enumerate(self.data):
            dts = self.dtype.split("+")
            out[name] = np.array([c[k] for c in cells], dtype=dts[k % len(dts)]).reshape(shape)
        for k, name in enumerate(self.refs):
            out[name] = np.array([c[self.D + k] for c in cells], dtype="i8").reshape(shape)
        return out

    def lists(self, arr_i):
        if arr_i not in self._lists:
            self._lists[arr_i] = {k: v.tolist() for k, v in self.arrays(arr_i).items()}
        return self._lists[arr_i]

    def dataset(self, arr_i, order_i, lay_i):
        key = (arr_i, order_i, lay_i)
        if key not in self._ds:
            xr = self.xr
            arrs = self.arrays(arr_i)
            h, w = arrs[self.data[0]].shape
            coords = {"y": np.linspace(9.0, 1.0, h) if h > 1 else np.array([9.0]), "x": np.arange(w) * 2.5 - 3.0}
            lay = LAYOUTS[lay_i]
            vars_ = {}
            for name in self.orders[order_i]:
                a = arrs[name]
                if self.is_f(name, lay):
                    a = np.asfortranarray(a)
                else:
                    a = np.ascontiguousarray(a)
                vars_[name] = xr.DataArray(a, dims=("y", "x"), coords=coords, attrs={"res": 2.5})
            self._ds[key] = xr.Dataset(vars_)
        return self._ds[key]

    def is_f(self, name, lay):
        """Is layer `name` Fortran-ordered under dataset layout `lay`?  ('mixed': data layers alternate F, C, F, ...;
        reference layers are C-ordered.)"""
        pos = self.data.index(name) if name in self.data else 1
        return lay == "F" or (lay == "mixed" and pos % 2 == 0)

    def decode(self, rank):
        arr_i, sel_i, op_i, lay_i = unrank_product(rank, self.radices)
        kind, order_i, sub = self.selections[sel_i]
        op, func, ref = self.ops[op_i]
        if sub is not None:
            layers = list(sub)
        else:
            layers = [v for v in self.orders[order_i] if v != ref]
        return dict(arr_i=arr_i, sel_i=sel_i, op_i=op_i, lay_i=lay_i, order_i=order_i, data_vars=sub,
                    op=op, func=func, ref_var=ref, layers=layers)

    def label(self, c):
        return "op=%s%s|ref_var=%s|data_vars=%s|dataset=%s|layout=%s|dtype=%s|alphabet=%s|cells=%s:%s" % (
            c["op"], "" if c["op"] != "cell_stats" else "(%s)" % (c["func"] or "default"), c["ref_var"],
            "None" if c["data_vars"] is None else ",".join(c["data_vars"]), ",".join(self.orders[c["order_i"]]),
            LAYOUTS[c["lay_i"]], self.dtype, self.atag, ARRANGEMENTS[c["arr_i"]], "x".join(map(str, self.shape_of(c["arr_i"]))))

    def shape_of(self, arr_i):
        h, w = self.shapeA
        return (w, h) if ARRANGEMENTS[arr_i] == "B" else (h, w)

    def describe(self, rank):
        c = self.decode(rank)
        arrs = self.arrays(c["arr_i"])
        return {"function": "xrspatial.local." + c["op"], "func": c["func"], "ref_var": c["ref_var"],
                "data_vars": c["data_vars"], "dataset_variables": self.orders[c["order_i"]],
                "memory_layout": LAYOUTS[c["lay_i"]],
                "layers": {k: arrs[k] for k in self.orders[c["order_i"]]}}

    def expected(self, c):
        key = (c["arr_i"], c["sel_i"], c["op_i"])
        if self._exp[0] != key:
            ls = self.lists(c["arr_i"])
            exp, extra = model.apply(c["op"], [ls[v] for v in c["layers"]],
                                     ls[c["ref_var"]] if c["ref_var"] else None, c["func"] or "sum")
            skipped = sum(1 for row in exp for v in row if v is None)
            e = np.array([[NAN if v is None else v for v in row] for row in exp], dtype=float)
            mask = np.array([[v is not None for v in row] for row in exp], dtype=bool)
            self._exp = (key, (e, mask, extra, skipped))
        return self._exp[1]

    def call(self, c):
        ds = self.dataset(c["arr_i"], c["order_i"], c["lay_i"])
        fn = getattr(self.local, c["op"])
        kw = {}
        if c["data_vars"] is not None:
            kw["data_vars"] = list(c["data_vars"])
        if c["op"] == "cell_stats":
            if c["func"] is not None:
                kw["func"] = c["func"]
            return fn(ds, **kw)
        if c["ref_var"] is not None:
            return fn(ds, c["ref_var"], **kw)
        return fn(ds, **kw)

    # ---- exploration --------------------------------------------------------------------------------
    def run(self, lo, hi, out):
        for rank in range(lo, hi):
            c = self.decode(rank)
            e, mask, ekey, skipped = self.expected(c)
            k = len(c["layers"])
            lay = LAYOUTS[c["lay_i"]]
            nf = sum(1 for v in c["layers"] if self.is_f(v, lay))
            cls = "layers=%s,selected=%s" % ("single" if k == 1 else "multi",
                                             "allF" if nf == k else "allC" if nf == 0 else "mixedCF")
            label = self.label(c)
            sig = None
            problem = None
            o = None
            try:
                res = self.call(c)
                o = np.asarray(res.values)
            except Exception as ex:  # in-domain input: an exception is a violation
                problem = ("raises-%s" % type(ex).__name__, "%s: %s" % (type(ex).__name__, str(ex)[:200]))
                if k == 1:
                    sig = "local.%s|single data layer|%s" % (c["op"], type(ex).__name__)
            first = None
            if problem is None:
                if o.shape != e.shape:
                    problem = ("wrong-shape", "result shape %r, layers have shape %r" % (o.shape, e.shape))
                else:
                    try:
                        of = o.astype(float)
                    except (TypeError, ValueError):
                        of = None
                    if of is None:
                        problem = ("wrong-values", "result is not numeric (dtype %s)" % o.dtype)
                    else:
                        tol = 1e-9 if (c["op"] == "cell_stats" and (c["func"] in ("mean", "std"))) else 0.0
                        en, on = np.isnan(e), np.isnan(of)
                        with np.errstate(invalid="ignore"):
                            bad = (en != on) | (~en & ~on & (np.abs(of - e) > tol + tol * np.abs(e)))
                        bad &= mask
                        if bad.any():
                            y, x = map(int, np.argwhere(bad)[0])
                            ls = self.lists(c["arr_i"])
                            first = dict(cell=(y, x), values=tuple(ls[v][y][x] for v in c["layers"]),
                                         ref=ls[c["ref_var"]][y][x] if c["ref_var"] else None,
                                         observed=of[y, x], expected=e[y, x])
                            problem = ("wrong-values",
                                       "%d of %d cells differ from the per-cell definition; first at (row %d, col %d): "
                                       "layer values %r, ref %r -> observed %r, expected %r"
                                       % (int(bad.sum()), int(mask.sum()), y, x, first["values"], first["ref"],
                                          float(of[y, x]), float(e[y, x])))
                        elif c["op"] == "combine":
                            okey = res.attrs.get("key") if hasattr(res, "attrs") else None
                            good = isinstance(okey, dict) and len(okey) == len(ekey) and \
                                all(i in okey and tuple(okey[i]) == ekey[i] for i in ekey)
                            if not good:
                                problem = ("wrong-key-attr", "attrs['key'] is not the id -> tuple map: %r, expected %r"
                                           % (okey, ekey))
            nontrivial = len(np.unique(e[mask & ~np.isnan(e)])) >= 2
            out.case(outcome=(c["op"], c["func"] or "", o if o is not None else (problem[1] if problem else "")),
                     nontrivial=nontrivial, calls=1)
            out.ok()
            out.count("cells_compared", int(mask.sum()))
            if skipped:
                out.count("rank_cells_ref_gt_n_not_asserted", skipped)
            if problem:
                kind = "%s|%s" % (problem[0], cls)
                out.count("violations:" + kind)
                out.violation(rank, "%s|%s" % (kind, label),
                              "local.%s: %s  [%s, %d data layer(s), layout %s]" % (c["op"], problem[1], label, k, lay),
                              case=self.describe(rank), sig=sig,
                              observed=o if o is not None else problem[1],
                              expected={"values": e, "combine_key": ekey} if ekey is not None else e)
            elif out.want_sample() and nontrivial and lay == "C" and self.n <= 64:
                out.sample({"case": self.describe(rank), "result": o})


def build(tier):
    return [LocalSpace(*cfg) for cfg in CONFIGS[tier]]
