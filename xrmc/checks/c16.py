"""C16 — regions labels are exactly the connected components of equal value.

Exhaustive enumeration (engine E1) of every raster over small alphabets on small shapes x
neighbourhood {4, 8} x dtype, each compared with a flood-fill reference."""
import numpy as np

from ..core.rasters import dataarray, grid
from ..core.space import Space
from ..oracles.components import components, same_partition

PROPERTY = "C16"
LEVEL = "model_checking"
RULE = ("every raster of each listed shape over each listed alphabet (rank = mixed-radix number of the cell "
        "letters) x neighbourhood {4,8}; a case is non-trivial when the raster has >= 2 distinct non-NaN values "
        "or >= 2 components; distinct = distinct (input, label raster) digests")
ASSUMPTIONS = [
    "values outside the alphabets and rasters beyond the cell budgets are not explored (small-scope argument: "
    "the two-pass labelling only compares neighbouring cells for equality)",
    "numpy backend only (regions has no dask path)",
]
NAN = float("nan")

# (shape, alphabet, dtype)
GRIDS = {
    "quick": [((1, 1), (0, 1, NAN), "f8"), ((1, 6), (0, 1, NAN), "f8"), ((6, 1), (0, 1, NAN), "f8"),
              ((4, 4), (0, 1), "f8"), ((3, 3), (0, 1, 2), "f8"), ((2, 6), (0, 1), "i8"),
              ((3, 4), (0, 1, NAN), "f8"), ((3, 3), (0, 1, 2), "i4"), ((2, 4), (-1.5, 0.0, 2.5), "f4")],
    "thorough": [((1, 1), (0, 1, NAN), "f8"), ((1, 8), (0, 1, NAN), "f8"), ((8, 1), (0, 1, NAN), "f8"),
                 ((4, 4), (0, 1), "f8"), ((3, 3), (0, 1, 2), "f8"), ((2, 6), (0, 1), "i8"),
                 ((3, 4), (0, 1, NAN), "f8"), ((3, 3), (0, 1, 2), "i4"), ((2, 4), (-1.5, 0.0, 2.5), "f4"),
                 ((4, 5), (0, 1), "f8"), ((5, 4), (0, 1), "i8"), ((3, 4), (0, 1, 2), "f8"),
                 ((2, 5), (0, 1, 2, NAN), "f8"), ((3, 3), (0, 1, 2, NAN), "f8"), ((3, 7), (0, 1), "f8")],
}
BOUNDS = {t: {"grids": [dict(shape=list(s), alphabet=[str(x) for x in al], dtype=dt) for s, al, dt in g],
              "neighbourhood": [4, 8]} for t, g in GRIDS.items()}


def laid_out(a, layout):
    """equal-valued copy of `a` in another memory layout: F = Fortran order, S = every second column of a wider C array,
    R = reversed view along both axes (negative strides)."""
    if layout == "F":
        return np.asfortranarray(a.copy())
    if layout == "S":
        wide = np.full((a.shape[0], a.shape[1] * 2), 7, dtype=a.dtype)
        wide[:, ::2] = a
        return wide[:, ::2]
    if layout == "R":
        return np.ascontiguousarray(a[::-1, ::-1])[::-1, ::-1]
    return a.copy()


class RegionSpace(Space):
    def __init__(self, shape, alphabet, dtype, margin=None, fill=0, layout="C"):
        """margin = (top, bottom, left, right) cells of `fill` around every enumerated raster: the implementation clamps its
        neighbour windows at the raster border, so the same pattern is also explored away from the border."""
        self.shape, self.alphabet, self.dtype = shape, alphabet, dtype
        self.margin, self.fill, self.layout = margin, fill, layout
        self.name = "regions_%dx%d_%dletters_%s" % (shape[0], shape[1], len(alphabet), dtype)
        if any(x != x for x in alphabet):
            self.name += "_nan"
        if margin:
            self.name += "_margin%d%d%d%d_fill%s" % (margin + (fill,))
        if layout != "C":
            self.name += "_layout" + layout
        self.size = len(alphabet) ** (shape[0] * shape[1]) * 2
        self.weight = shape[0] * shape[1]

    def setup(self):
        from xrspatial import zonal
        self.regions = zonal.regions

    def case(self, rank):
        conn = 4 if rank % 2 == 0 else 8
        a = grid(rank // 2, self.shape, self.alphabet, self.dtype)
        if self.margin:
            t, b, l, r = self.margin
            big = np.full((a.shape[0] + t + b, a.shape[1] + l + r), self.fill, dtype=a.dtype)
            big[t:t + a.shape[0], l:l + a.shape[1]] = a
            a = big
        return a, conn

    def describe(self, rank):
        a, conn = self.case(rank)
        return {"raster": a, "neighborhood": conn}

    def run(self, lo, hi, out):
        h, w = self.shape
        if self.margin:
            h, w = h + self.margin[0] + self.margin[1], w + self.margin[2] + self.margin[3]
        ys = np.linspace(5.0, 1.0, h) if h > 1 else np.array([5.0])
        xs = np.linspace(-2.0, 2.5, w) if w > 1 else np.array([-2.0])
        attrs = {"res": (1.0, 2.0), "tag": "t"}
        for rank in range(lo, hi):
            a, conn = self.case(rank)
            r = dataarray(laid_out(a, self.layout), ys, xs, dims=("lat", "lon"), attrs=attrs,
                          extra_coords={"band": 3, "tile": "t07", "row_id": (("lat",), np.arange(h) * 10)})
            res = self.regions(r, neighborhood=conn)
            o = np.asarray(res.values)
            lab, k = components(a, conn)
            key = "%s|rank=%d" % (self.name, rank)
            problems = []
            if not same_partition(lab, o):
                problems.append("labels are not the connected components")
            nanmask = lab == 0
            if a.dtype.kind == "f" and not np.array_equal(np.isnan(o), nanmask):
                problems.append("NaN cells not kept / non-NaN cell became NaN")
            if np.any(o[~nanmask] <= 0):
                problems.append("non-positive label")
            if res.shape != a.shape or res.dims != ("lat", "lon") or dict(res.attrs) != attrs \
                    or not np.array_equal(res["lat"].values, ys) or not np.array_equal(res["lon"].values, xs):
                problems.append("shape/dims/coords/attrs differ from the input's")
            elif set(map(str, res.coords)) != {"lat", "lon", "band", "tile", "row_id"} or int(res["band"]) != 3 \
                    or str(res["tile"].values) != "t07" or not np.array_equal(res["row_id"].values, np.arange(h) * 10):
                problems.append("scalar / auxiliary coordinates of the input are not kept: %s" % sorted(map(str, res.coords)))
            if not np.array_equal(r.values, a, equal_nan=True):
                problems.append("input modified")
            out.case(outcome=(a, o), nontrivial=k >= 2, calls=1)
            out.ok()
            if problems:
                out.violation(rank, key, "; ".join(problems) + " (neighborhood=%d)" % conn,
                              case=self.describe(rank), observed=o, expected=lab)
            elif out.want_sample() and k >= 3:
                out.sample({"raster": a, "neighborhood": conn, "labels": o})


EMBEDDED = {
    "quick": [((3, 5), (0, 1), "f8", (1, 0, 0, 1), 0), ((3, 4), (0, 1), "f8", (1, 1, 1, 1), 0), ((2, 3), (1, 2, NAN), "f8", (1, 1, 1, 1), 1)],
    "thorough": [((3, 5), (0, 1), "f8", (1, 0, 0, 1), 0), ((3, 5), (0, 1), "f8", (1, 1, 1, 1), 0), ((3, 4), (0, 1), "i8", (1, 1, 1, 1), 0),
                 ((2, 4), (1, 2, NAN), "f8", (1, 1, 1, 1), 1), ((3, 6), (0, 1), "f8", (1, 0, 1, 1), 0)],
}
for _t in BOUNDS:
    BOUNDS[_t]["embedded_with_margin"] = [dict(shape=list(s), alphabet=[str(x) for x in al], dtype=dt, margin_top_bottom_left_right=list(m),
                                               fill=f) for s, al, dt, m, f in EMBEDDED[_t]]


LAYOUTS = {
    "quick": [((3, 3), (0, 1, 2), "f8", "F"), ((2, 6), (0, 1), "i8", "F"), ((3, 4), (0, 1), "f8", "S"), ((3, 3), (0, 1, NAN), "f8", "R"),
              ((3, 4), (0, 1), "f4", "F")],
    "thorough": [((3, 3), (0, 1, 2), "f8", "F"), ((2, 6), (0, 1), "i8", "F"), ((3, 4), (0, 1), "f8", "S"), ((3, 3), (0, 1, NAN), "f8", "R"),
                 ((3, 4), (0, 1), "f4", "F"), ((4, 4), (0, 1), "f8", "F"), ((3, 4), (0, 1, NAN), "f8", "F"), ((4, 4), (0, 1), "i4", "S")],
}
for _t in BOUNDS:
    BOUNDS[_t]["memory_layouts"] = [dict(shape=list(s), alphabet=[str(x) for x in al], dtype=dt, layout=lay) for s, al, dt, lay in LAYOUTS[_t]]


def build(tier):
    return [RegionSpace(s, al, dt) for s, al, dt in GRIDS[tier]] + [RegionSpace(s, al, dt, m, f) for s, al, dt, m, f in EMBEDDED[tier]] + \
        [RegionSpace(s, al, dt, layout=lay) for s, al, dt, lay in LAYOUTS[tier]]
