"""C16 — regions labels are exactly the connected components of equal value.

Exhaustive enumeration (engine E1) of every raster over small alphabets on small shapes x
neighbourhood {4, 8} x dtype, each compared with a flood-fill reference."""
import numpy as np

from ..core.rasters import dataarray, grid
from ..core.space import Space
from ..oracles.components import components, same_partition

PROPERTY = "C16"
LEVEL = "model_checking"
RULE = ("every raster of each listed shape over each listed alphabet (rank = mixed-radix number of the cell "
        "letters) x neighbourhood {4,8}; a case is non-trivial when the raster has >= 2 distinct non-NaN values "
        "or >= 2 components; distinct = distinct (input, label raster) digests")
ASSUMPTIONS = [
    "values outside the alphabets and rasters beyond the cell budgets are not explored (small-scope argument: "
    "the two-pass labelling only compares neighbouring cells for equality)",
    "numpy backend only (regions has no dask path)",
]
NAN = float("nan")

# (shape, alphabet, dtype)
GRIDS = {
    "quick": [((1, 1), (0, 1, NAN), "f8"), ((1, 6), (0, 1, NAN), "f8"), ((6, 1), (0, 1, NAN), "f8"),
              ((4, 4), (0, 1), "f8"), ((3, 3), (0, 1, 2), "f8"), ((2, 6), (0, 1), "i8"),
              ((3, 4), (0, 1, NAN), "f8"), ((3, 3), (0, 1, 2), "i4"), ((2, 4), (-1.5, 0.0, 2.5), "f4")],
    "thorough": [((1, 1), (0, 1, NAN), "f8"), ((1, 8), (0, 1, NAN), "f8"), ((8, 1), (0, 1, NAN), "f8"),
                 ((4, 4), (0, 1), "f8"), ((3, 3), (0, 1, 2), "f8"), ((2, 6), (0, 1), "i8"),
                 ((3, 4), (0, 1, NAN), "f8"), ((3, 3), (0, 1, 2), "i4"), ((2, 4), (-1.5, 0.0, 2.5), "f4"),
                 ((4, 5), (0, 1), "f8"), ((5, 4), (0, 1), "i8"), ((3, 4), (0, 1, 2), "f8"),
                 ((2, 5), (0, 1, 2, NAN), "f8"), ((3, 3), (0, 1, 2, NAN), "f8"), ((3, 7), (0, 1), "f8")],
}
BOUNDS = {t: {"grids": [dict(shape=list(s), alphabet=[str(x) for x in al], dtype=dt) for s, al, dt in g],
              "neighbourhood": [4, 8]} for t, g in GRIDS.items()}


class RegionSpace(Space):
    def __init__(self, shape, alphabet, dtype):
        self.shape, self.alphabet, self.dtype = shape, alphabet, dtype
        self.name = "regions_%dx%d_%dletters_%s" % (shape[0], shape[1], len(alphabet), dtype)
        self.size = len(alphabet) ** (shape[0] * shape[1]) * 2
        self.weight = shape[0] * shape[1]

    def setup(self):
        from xrspatial import zonal
        self.regions = zonal.regions

    def case(self, rank):
        conn = 4 if rank % 2 == 0 else 8
        a = grid(rank // 2, self.shape, self.alphabet, self.dtype)
        return a, conn

    def describe(self, rank):
        a, conn = self.case(rank)
        return {"raster": a, "neighborhood": conn}

    def run(self, lo, hi, out):
        h, w = self.shape
        ys = np.linspace(5.0, 1.0, h) if h > 1 else np.array([5.0])
        xs = np.linspace(-2.0, 2.5, w) if w > 1 else np.array([-2.0])
        attrs = {"res": (1.0, 2.0), "tag": "t"}
        for rank in range(lo, hi):
            a, conn = self.case(rank)
            r = dataarray(a.copy(), ys, xs, dims=("lat", "lon"), attrs=attrs)
            res = self.regions(r, neighborhood=conn)
            o = np.asarray(res.values)
            lab, k = components(a, conn)
            key = "%s|rank=%d" % (self.name, rank)
            problems = []
            if not same_partition(lab, o):
                problems.append("labels are not the connected components")
            nanmask = lab == 0
            if a.dtype.kind == "f" and not np.array_equal(np.isnan(o), nanmask):
                problems.append("NaN cells not kept / non-NaN cell became NaN")
            if np.any(o[~nanmask] <= 0):
                problems.append("non-positive label")
            if res.shape != a.shape or res.dims != ("lat", "lon") or dict(res.attrs) != attrs \
                    or not np.array_equal(res["lat"].values, ys) or not np.array_equal(res["lon"].values, xs):
                problems.append("shape/dims/coords/attrs differ from the input's")
            if not np.array_equal(r.values, a, equal_nan=True):
                problems.append("input modified")
            out.case(outcome=(a, o), nontrivial=k >= 2, calls=1)
            out.ok()
            if problems:
                out.violation(rank, key, "; ".join(problems) + " (neighborhood=%d)" % conn,
                              case=self.describe(rank), observed=o, expected=lab)
            elif out.want_sample() and k >= 3:
                out.sample({"raster": a, "neighborhood": conn, "labels": o})


def build(tier):
    return [RegionSpace(s, al, dt) for s, al, dt in GRIDS[tier]]
