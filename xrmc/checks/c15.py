"""C15 — polygonize is lossless: the polygons are exactly the connected regions of equal value.

Exhaustive enumeration (engine E1) of every raster over small alphabets on small shapes x mask family x
connectivity {4, 8}; every case is run untransformed (full comparison with a flood-fill + even-odd reference)
and once per affine transform (vertex-by-vertex comparison with the transformed untransformed output).
A second, deviation-bounded family reaches rasters with MANY regions: a checkerboard of 70-80 cells (under connectivity 4
every cell is a region of its own) with every placement of one small connected motif of a third value, or of one of the two
checkerboard letters, written over it (U shapes, corners, L, block, diagonal pair in every orientation: shapes that make the
one-pass labelling join two provisional regions), with and without a border mask.
polygonize runs compiled only (its `_is_close` is a numba overload and does not exist under NUMBA_DISABLE_JIT)."""
import numpy as np

from ..core.digest import bytes64
from ..core.space import Space
from ..core.spaces import SumSpace, unrank_product
from ..oracles.components import components
from ..oracles.polygon import (cells_in_ring, cells_in_ring_generic, popcount, ring_problems, shoelace)

PROPERTY = "C15"
LEVEL = "model_checking"
RULE = ("every raster of each listed shape over each listed alphabet (mixed-radix rank of the cell letters) x every "
        "mask of the listed family x connectivity {4,8}; each case = 1 untransformed call compared with the "
        "flood-fill / even-odd reference + 1 call per transform compared vertex by vertex with the transformed "
        "untransformed output; ranks of a 'cellstates' space that repeat the input of another rank (no excluded cell, "
        "fill letter > 0) are skipped and not counted as cases; a case is non-trivial when the output has >= 2 polygons "
        "or a polygon with a hole; distinct = distinct digests of (column values, ring vertex arrays); spaces named "
        "*_r<L>[_m<L>] repeat the enumeration of their un-suffixed namesake with the raster / mask held in memory layout L "
        "(C, F, T = transposed view, S = strided view); poly_checker_* spaces: rank -> (shape, motif in one orientation, "
        "top-left position of its bounding box, motif value, mask none / border excluded, connectivity), raster = the "
        "checkerboard (r + c) % 2 of that shape with the motif's cells overwritten by the motif value, judged like every "
        "other case (transforms identity and general only)")
ASSUMPTIONS = [
    "orientation convention taken from the module header and tests/test_polygonize.py: x = column index, y = row "
    "index ('+x is East, +y is North'), cell (row r, col c) is the unit square [c,c+1]x[r,r+1]; 'anticlockwise' "
    "means positive shoelace area sum(x_i*y_{i+1} - x_{i+1}*y_i)/2 in these (x, y) axes (so the ring looks "
    "clockwise when the raster is drawn with row 0 at the top); exteriors are asserted > 0 and holes < 0 on the "
    "untransformed output only (an axis flip legitimately reverses the sense)",
    "transform = 6 coefficients in affine.Affine/rasterio order (a,b,c,d,e,f): x' = a*x + b*y + c, y' = d*x + e*y + f "
    "(the docstring only says 'affine transform', shape (6,)); passed as a float64 array; coefficients are dyadic so "
    "the expected vertices are exact in float64",
    "values are small integers (0,1,2), also as float64, pairs of large integers 1 apart (1e6, -3e5, 2^53; integer dtypes only), and the float alphabets {-1.5, 0.0, 2.5} and {-2.0, -1.0} "
    "(float64 and float32; exactly representable, pairwise >= 1 apart): the float comparison of polygonize is an "
    "isclose() with rtol 1e-5, 'equal value' regions for nearly-equal floats are outside the statement and not "
    "generated; no NaN",
    "8-connectivity rings may touch themselves at a corner (diagonal pinch); this is accepted, the statement is "
    "asserted through the even-odd rule on cell centres and the signed areas, not through ring simplicity",
    "numpy backend, return_type='numpy', DataArray without coordinates (polygonize ignores coordinates); rasters "
    "beyond the cell budgets and the 'random larger ones' of the quantifier are not explored (no sampling in this engine); "
    "rasters of more than 16 cells are reached only as one motif written over a checkerboard (poly_checker_*: 5x16, 9x9, "
    "6x12, 8x9 - 72 to 81 single-cell regions under connectivity 4, two interlocked regions under connectivity 8)",
    "memory layout: the spaces without a layout suffix pass C-contiguous arrays; the *_r<L>[_m<L>] spaces pass the SAME "
    "logical raster (and mask) held in another memory layout, L in {C, F = np.asfortranarray, T = the view returned by "
    "DataArray.transpose() of a DataArray holding the transposed C-ordered array, S = every second column of a C-ordered "
    "array twice as wide (neither C- nor F-contiguous)}, on the non-square shapes 2x3, 3x2, 3x4 where memory order and "
    "logical order differ; the reference works on logical cell positions only",
    "mask families.  'all' (rasters of <= 9 cells): each of the 2^N boolean masks x every raster over the alphabet, "
    "values under excluded cells included (quick: 1x1, 1xN/Nx1 N<=7, 2x2, 2x3, 3x2 over {0,1}; thorough adds 3x3, "
    "2x4, 4x2, 1x8, 8x1 over {0,1} and 2x2, 2x3, 3x2, lines N<=6 over {0,1,2}).  'cellstates' (3x3; quick {0,1}, "
    "thorough {0,1,2}): each of the 2^9 masks x every assignment of values to the INCLUDED cells, the excluded cells "
    "all holding one fill letter (each letter in turn) instead of every combination.  'named' (more than 9 cells): "
    "the fixed masks checkerboard even/odd, interior, main diagonal, border, row 1, column 1, cell (0,0), cell (1,1), "
    "last cell excluded x every assignment of values to the included cells x each uniform fill letter under the "
    "excluded cells.  Mask dtype bool, plus int64 and float64 0/1 masks on 2x3/3x2 (thorough)",
]

# ---- transforms (name, coefficients as a function of the shape) ----------------------------------------------
_TF = {}


def transforms(shape):
    if shape not in _TF:
        h, w = shape
        # simplest first: identity, offsets only (unit scale, no shear), one flipped axis, scale + offset, everything
        _TF[shape] = [("identity", np.array([1.0, 0.0, 0.0, 0.0, 1.0, 0.0])),
                      ("translate", np.array([1.0, 0.0, 5.0, 0.0, 1.0, -2.25])),
                      ("flip_y", np.array([1.0, 0.0, 0.0, 0.0, -1.0, float(h)])),
                      ("scale_shift", np.array([2.0, 0.0, 10.0, 0.0, 0.5, -3.0])),
                      ("general", np.array([1.0, 0.5, -2.0, -0.25, -1.5, 7.0]))]
    return _TF[shape]


# ---- named masks: bit i (= r*w + c) set <=> cell (r, c) is EXCLUDED (mask value False) -----------------------
def named_masks(shape):
    h, w = shape
    cells = [(r, c) for r in range(h) for c in range(w)]
    border = lambda r, c: r in (0, h - 1) or c in (0, w - 1)  # noqa: E731
    rules = [("checker_even_out", lambda r, c: (r + c) % 2 == 0),
             ("checker_odd_out", lambda r, c: (r + c) % 2 == 1),
             ("interior_out", lambda r, c: not border(r, c)),
             ("diagonal_out", lambda r, c: r == c),
             ("border_out", border),
             ("row1_out", lambda r, c: r == 1),
             ("col1_out", lambda r, c: c == 1),
             ("cell00_out", lambda r, c: (r, c) == (0, 0)),
             ("cell11_out", lambda r, c: (r, c) == (1, 1)),
             ("last_cell_out", lambda r, c: (r, c) == (h - 1, w - 1))]
    return [(name, sum(1 << (r * w + c) for r, c in cells if f(r, c))) for name, f in rules]


LINES = lambda n: [(1, 1)] + [s for k in range(2, n + 1) for s in ((1, k), (k, 1))]  # noqa: E731
DT3 = ("int64", "int32", "float64")
FLT = ("float64", "float32")
NEG3 = (-1.5, 0.0, 2.5)          # float alphabets with negative letters (dyadic, pairwise far apart)
NEG2 = (-2.0, -1.0)
RECT6 = [(2, 3), (3, 2)]
# (raster layout, mask layout): both in the same non-C layout, and one of them C-ordered next to an F / T one
# (the all-C pair is the spaces without a suffix)
LAYOUT_PAIRS = [("F", "F"), ("T", "T"), ("S", "S"), ("C", "F"), ("F", "C"), ("C", "T"), ("T", "C")]


def lay_out(a, layout, DataArray):
    """DataArray holding the logical 2-D array `a` in the given memory layout (see ASSUMPTIONS)."""
    if layout == "C":
        return DataArray(np.array(a, order="C"))          # a fresh copy
    if layout == "F":
        return DataArray(np.asfortranarray(a))
    if layout == "T":
        return DataArray(np.ascontiguousarray(a.T), dims=("dim_1", "dim_0")).transpose()
    if layout == "S":
        wide = np.zeros((a.shape[0], 2 * a.shape[1]), dtype=a.dtype)
        wide[:, ::2] = a
        wide[:, 1::2] = ~a[:, ::-1] if a.dtype == bool else a[:, ::-1] + 1          # other values in between
        return DataArray(wide[:, ::2])
    raise ValueError(layout)

# (label, shapes, alphabet, dtypes, mask family, mask dtype)
SPEC = {
    "quick": [
        ("3x3_3l", [(3, 3)], (0, 1, 2), DT3, "none", "bool"),
        ("4x4_2l", [(4, 4)], (0, 1), ("int64", "float64"), "none", "bool"),
        ("3x5_2l", [(3, 5)], (0, 1), ("int64", "float64"), "none", "bool"),
        ("lines8_3l", LINES(8), (0, 1, 2), DT3, "none", "bool"),
        ("lines7_2l", LINES(7), (0, 1), ("int64",), "all", "bool"),
        ("small6_2l", [(2, 2), (2, 3), (3, 2)], (0, 1), ("int64", "float64"), "all", "bool"),
        ("3x3_2l", [(3, 3)], (0, 1), ("int64", "float64"), "cellstates", "bool"),
        ("4x4_2l", [(4, 4)], (0, 1), ("int64",), "named", "bool"),
        ("3x5_2l", [(3, 5)], (0, 1), ("int64",), "named", "bool"),
        # float rasters with negative values (the float comparison is relative to the magnitude of a value)
        ("3x3_neg3l", [(3, 3)], NEG3, FLT, "none", "bool"),
        ("3x3_neg2l", [(3, 3)], NEG2, FLT, "none", "bool"),
        ("lines8_neg2l", LINES(8), NEG2, FLT, "none", "bool"),
        ("small6_neg2l", [(2, 2), (2, 3), (3, 2)], NEG2, ("float64",), "all", "bool"),
        # integer rasters whose neighbouring values differ by 1 at a large magnitude (ids, timestamps): integers are compared
        # exactly, never with the relative tolerance of the float comparison; 2^53 + 1 is not a float64
        ("3x3_big2l", [(3, 3)], (1000000, 1000001), ("int64", "int32"), "none", "bool"),
        ("3x3_huge2l", [(3, 3)], (2 ** 53, 2 ** 53 + 1), ("int64",), "none", "bool"),
        ("small6_negbig2l", [(2, 3), (3, 2)], (-300001, -300000), ("int64",), "all", "bool"),
        # memory layout of raster / mask (non-square shapes: memory order != logical order)
        ("rect6_2l", RECT6, (0, 1), ("int64",), "all", "bool", LAYOUT_PAIRS),
        ("rect6_2l", RECT6, (0, 1), ("float64",), "all", "bool", [("F", "F")]),
        ("3x4_2l", [(3, 4)], (0, 1), ("int64",), "none", "bool", [(l, None) for l in "FTS"]),
        ("3x4_2l", [(3, 4)], (0, 1), ("float64",), "none", "bool", [("F", None)]),
        ("3x4_2l", [(3, 4)], (0, 1), ("int64",), "named", "bool", [("F", "F")]),
    ],
}
SPEC["thorough"] = SPEC["quick"] + [
    ("4x4_2l", [(4, 4)], (0, 1), ("int32",), "none", "bool"),
    ("3x5_2l", [(3, 5)], (0, 1), ("int32",), "none", "bool"),
    ("small6_2l", [(2, 2), (2, 3), (3, 2)], (0, 1), ("int32",), "all", "bool"),
    ("4x5_2l", [(4, 5)], (0, 1), ("int64", "float64"), "none", "bool"),
    ("5x4_2l", [(5, 4)], (0, 1), ("int64",), "none", "bool"),
    ("3x4_3l", [(3, 4)], (0, 1, 2), DT3, "none", "bool"),
    ("lines8_2l", [s for s in LINES(8) if max(s) == 8], (0, 1), ("int64",), "all", "bool"),
    ("lines6_3l", LINES(6), (0, 1, 2), ("int64", "float64"), "all", "bool"),
    ("small6_3l", [(2, 2), (2, 3), (3, 2)], (0, 1, 2), ("int64",), "all", "bool"),
    ("small8_2l", [(2, 4), (4, 2)], (0, 1), ("int64",), "all", "bool"),
    ("small6_2l", [(2, 3), (3, 2)], (0, 1), ("int64",), "all", "int64"),
    ("small6_2l", [(2, 3), (3, 2)], (0, 1), ("float64",), "all", "float64"),
    ("3x3_2l", [(3, 3)], (0, 1), DT3, "all", "bool"),
    ("3x3_3l", [(3, 3)], (0, 1, 2), ("int64",), "cellstates", "bool"),
    ("4x5_2l", [(4, 5)], (0, 1), ("int64",), "named", "bool"),
    ("3x4_3l", [(3, 4)], (0, 1, 2), ("int64",), "named", "bool"),
    ("4x4_2l", [(4, 4)], (0, 1), ("float64", "int32"), "named", "bool"),
    ("rect6_3l", RECT6, (0, 1, 2), ("int64",), "all", "bool", [("F", "F"), ("T", "T")]),
    ("rect8_2l", [(2, 4), (4, 2)], (0, 1), ("int64",), "all", "bool", [("F", "F"), ("T", "T")]),
    ("3x4_3l", [(3, 4)], (0, 1, 2), ("int64",), "none", "bool", [("F", None)]),
    ("3x4_2l", [(3, 4)], (0, 1), ("int64",), "named", "bool", [("T", "T"), ("S", "S"), ("F", "C"), ("C", "T")]),
    ("rect6_2l", RECT6, (0, 1), ("int64",), "all", "bool", [("F", "T"), ("T", "F")]),
    ("rect6_2l", RECT6, (0, 1), ("float64",), "all", "bool", [("T", "T"), ("S", "S")]),
    ("3x4_2l", [(3, 4)], (0, 1), ("float64",), "none", "bool", [("T", None), ("S", None)]),
]
# every entry gets its list of (raster layout, mask layout); default: C-contiguous raster and mask
SPEC = {t: [e if len(e) == 7 else e + ([("C", "C")],) for e in spec] for t, spec in SPEC.items()}
BOUNDS = {t: {"spaces": [dict(label=n, shapes=[list(s) for s in shapes], alphabet=list(al), dtypes=list(dts),
                              masks=mm, mask_dtype=md, layouts_raster_mask=[list(lp) for lp in lps])
                         for n, shapes, al, dts, mm, md, lps in spec],
              "layouts": {"C": "C-contiguous", "F": "np.asfortranarray", "T": "DataArray.transpose() view of the "
                          "transposed C-ordered array", "S": "every second column of a C-ordered array twice as wide"},
              "mask_families": {"none": "mask=None",
                                "all": "every one of the 2^N masks x every raster over the alphabet",
                                "cellstates": "every assignment of {alphabet letters, EXCLUDED} to the cells x one "
                                              "uniform fill letter under the excluded cells, every letter",
                                "named": {"masks": [n for n, _ in named_masks((4, 4))],
                                          "rasters": "every assignment of letters to the included cells x one uniform "
                                                     "fill letter under the excluded cells, every letter"}},
              "connectivity": [4, 8],
              "transforms": dict({n: t.tolist() for n, t in transforms((4, 4))}, none="transform=None"),
              "transform_note": "flip_y uses f = number of rows of the raster"}
          for t, spec in SPEC.items()}


class PolySpace(Space):
    mode = "jit"

    def __init__(self, label, shapes, alphabet, dtype, family, mask_dtype, layouts=("C", "C")):
        self.alphabet, self.dtype, self.family, self.mask_dtype = tuple(alphabet), dtype, family, mask_dtype
        self.rlay, self.mlay = layouts[0], (None if family == "none" else layouts[1])
        short = {"int64": "i8", "int32": "i4", "float64": "f8", "float32": "f4"}
        self.name = "poly_%s_%s_%s" % (label, short[dtype], {"none": "nomask", "all": "allmasks"}.get(family, family))
        if mask_dtype != "bool":
            self.name += "_m" + short[mask_dtype]
        if (self.rlay, self.mlay or "C") != ("C", "C"):
            self.name += "_r" + self.rlay + ("" if self.mlay is None else "_m" + self.mlay)
        L = len(self.alphabet)
        # parts: (shape, excluded-cells bit set or None, number of cases)
        self.parts = []
        for s in shapes:
            n = s[0] * s[1]
            if family == "none":
                self.parts.append((s, None, L ** n * 2))
            elif family == "all":
                self.parts.append((s, None, L ** n * 2 ** n * 2))
            elif family == "cellstates":
                self.parts.append((s, None, (L + 1) ** n * L * 2))
            elif family == "named":
                for _, m in named_masks(s):
                    self.parts.append((s, m, L ** (n - popcount(m)) * L * 2))
            else:
                raise ValueError(family)
        self.sum = SumSpace([(i, p[2]) for i, p in enumerate(self.parts)])
        self.size = self.sum.size
        self.weight = max(s[0] * s[1] for s in shapes)
        if dtype == "float32":
            # few shards: every worker that runs a float32 shard compiles the float32 kernels first (several seconds)
            self.grain = self.size if self.size <= 5000 else -(-self.size // 3)

    def setup(self):
        import xarray as xr
        from xrspatial.experimental.polygonize import polygonize
        self.polygonize = polygonize
        self.DataArray = xr.DataArray
        # compile the two signatures this space uses before the first shard
        a = np.zeros((2, 3), dtype=self.dtype)
        m = None if self.family == "none" else self.lay(np.ones((2, 3), dtype=self.mask_dtype), self.mlay)
        polygonize(self.lay(a, self.rlay), mask=m)
        polygonize(self.lay(a, self.rlay), mask=m, transform=np.array([1.0, 0.0, 0.0, 0.0, 1.0, 0.0]))

    def lay(self, a, layout):
        return lay_out(a, layout, self.DataArray)

    def tfs(self, shape):
        return transforms(shape)

    # ---- rank -> case ------------------------------------------------------------------------------------
    def case(self, rank):
        """-> (shape, raster, bool mask or None, connectivity), or None for a rank that repeats another rank's input."""
        part, local = self.sum.locate(rank)
        shape, excluded, _ = self.parts[part]
        n = shape[0] * shape[1]
        al, L = self.alphabet, len(self.alphabet)
        conn = 8 if local % 2 else 4
        local //= 2
        if self.family == "none":
            letters = unrank_product(local, [L] * n)
            inc = None
        elif self.family == "all":
            # mask index 0 = mask given with every cell included; bit i set = cell i excluded
            mi = local % 2 ** n
            letters = unrank_product(local // 2 ** n, [L] * n)
            inc = [not mi >> i & 1 for i in range(n)]
        elif self.family == "cellstates":
            # every cell is one of the letters or EXCLUDED (state L); excluded cells all hold the fill letter.
            # Without an excluded cell the fill is irrelevant: only fill 0 is a case.
            fill = local % L
            states = unrank_product(local // L, [L + 1] * n)
            if fill and L not in states:
                return None
            letters = [fill if i == L else i for i in states]
            inc = [i != L for i in states]
        else:  # named: letters of the included cells are enumerated, excluded cells hold the fill letter
            fill = local % L
            inc = [not excluded >> i & 1 for i in range(n)]
            vis = iter(unrank_product(local // L, [L] * sum(inc)))
            letters = [next(vis) if k else fill for k in inc]
        a = np.array([al[i] for i in letters], dtype=self.dtype).reshape(shape)
        mask = None if inc is None else np.array(inc, dtype=bool).reshape(shape)
        return shape, a, mask, conn

    def describe(self, rank):
        c = self.case(rank)
        if c is None:
            return {"space": self.name, "rank": rank, "note": "repeats the input of the rank with fill letter 0"}
        shape, a, mask, conn = c
        return {"raster": a, "mask": None if mask is None else mask.astype(self.mask_dtype),
                "raster_layout": self.rlay, "mask_layout": self.mlay,
                "connectivity": conn, "transforms": {n: t for n, t in transforms(shape)}}

    def key(self, a, mask, conn, extra=""):
        if (self.rlay, self.mlay or "C") != ("C", "C"):
            extra = "|layout=%s/%s%s" % (self.rlay, self.mlay, extra)
        return "polygonize|raster=%s|dtype=%s|mask=%s|mask_dtype=%s|conn=%d%s" % (
            a.tolist(), self.dtype, None if mask is None else mask.astype(int).tolist(), self.mask_dtype, conn, extra)

    # ---- one case ----------------------------------------------------------------------------------------
    def run(self, lo, hi, out):
        for rank in range(lo, hi):
            self.one(rank, out)

    def one(self, rank, out):
        c = self.case(rank)
        if c is None:
            out.count("ranks_skipped_as_repeated_input")
            return
        shape, a, mask, conn = c
        h, w = shape
        ra = self.lay(a, self.rlay)
        rm = None if mask is None else self.lay(mask.astype(self.mask_dtype), self.mlay)
        tfs = self.tfs(shape)
        try:
            col, polys = self.polygonize(ra, mask=rm, connectivity=conn, return_type="numpy")
        except Exception as e:  # in-domain input: an exception is a violation
            out.case(outcome=None, nontrivial=False, calls=1)
            out.violation(rank, self.key(a, mask, conn), "polygonize raised %s: %s" % (type(e).__name__, e),
                          case=self.describe(rank), observed=repr(e))
            return

        # ---- reference: flood-fill components of equal value among the unmasked cells --------------------
        lab, k = components(a, conn, mask)
        cm = [0] * (k + 1)
        cv = [None] * (k + 1)
        vals = a.ravel().tolist()
        for i, l in enumerate(lab.ravel().tolist()):
            if l:
                cm[l] |= 1 << i
                cv[l] = vals[i]
        comp = {cm[l]: cv[l] for l in range(1, k + 1)}      # cell set -> value
        valid = 0
        for l in range(1, k + 1):
            valid |= cm[l]

        # ---- untransformed output against the statement --------------------------------------------------
        cellsof = lambda bits: [divmod(i, w) for i in range(h * w) if bits >> i & 1]  # noqa: E731
        problems = []
        if len(col) != len(polys):
            problems.append("%d values for %d polygons" % (len(col), len(polys)))
        if len(polys) != k:
            problems.append("%d polygons, the raster has %d connected regions" % (len(polys), k))
        seen = dup = 0
        nholes = 0
        crosscheck = rank % 61 == 0
        for pi, rings in enumerate(polys):
            if len(rings) == 0:
                problems.append("polygon %d has no ring" % pi)
                continue
            cs = holes = 0
            area = 0.0
            for ri, ring in enumerate(rings):
                ring = ring.tolist()
                bad = ring_problems(ring, h, w)
                if bad:
                    problems.append("polygon %d ring %d: %s" % (pi, ri, "; ".join(bad)))
                    cells = cells_in_ring_generic(ring, h, w)
                else:
                    cells = cells_in_ring(ring, h, w)
                    if crosscheck:   # harness self-check (an AssertionError is a harness error, not a violation)
                        assert cells == cells_in_ring_generic(ring, h, w), "scanline != per-point even-odd"
                s = shoelace(ring)
                if ri == 0:
                    if not s > 0:
                        problems.append("polygon %d exterior is not anticlockwise (signed area %g)" % (pi, s))
                    cs = cells
                    area = abs(s)
                else:
                    if not s < 0:
                        problems.append("polygon %d hole %d is not clockwise (signed area %g)" % (pi, ri, s))
                    holes |= cells
                    area -= abs(s)
                    nholes += 1
            cs &= ~holes
            if area != popcount(cs):
                problems.append("polygon %d area (exterior - holes) %g != its %d cells" % (pi, area, popcount(cs)))
            if cs not in comp:
                problems.append("polygon %d covers cells %s: not a connected region of equal value" % (pi, cellsof(cs)))
            elif pi < len(col) and not comp[cs] == col[pi]:
                problems.append("polygon %d has value %r, its cells have value %r" % (pi, col[pi], comp[cs]))
            dup |= seen & cs
            seen |= cs
        if dup:
            problems.append("cells %s lie in more than one polygon" % cellsof(dup))
        if seen & ~valid:
            problems.append("masked cells %s lie in a polygon" % cellsof(seen & ~valid))
        if valid & ~seen:
            problems.append("unmasked cells %s lie in no polygon" % cellsof(valid & ~seen))

        flat = [r for p in polys for r in p]
        outcome = bytes64(b"|".join([np.asarray(col, dtype=float).tobytes(), bytes([len(p) % 256 for p in polys])]
                                    + [r.tobytes() for r in flat]))
        out.case(outcome=outcome, nontrivial=len(polys) >= 2 or nholes > 0, calls=1 + len(tfs))
        out.ok()
        out.count("polygons", len(polys))
        if nholes:
            out.count("holes", nholes)
            out.count("cases_with_holes")
        if problems:
            out.violation(rank, self.key(a, mask, conn), "; ".join(problems[:6]), case=self.describe(rank),
                          observed={"values": list(col), "polygons": [list(p) for p in polys]},
                          expected={"regions": lab, "n_regions": k})
        elif nholes and out.want_sample():
            out.sample({"raster": a, "mask": mask, "connectivity": conn, "values": list(col),
                        "polygons": [list(p) for p in polys]})

        # ---- every transform: vertex == transform(untransformed vertex) ----------------------------------
        base = np.concatenate(flat) if flat else np.empty((0, 2))
        struct = [[len(r) for r in p] for p in polys]
        for tname, t in tfs:
            tkey = self.key(a, mask, conn, "|transform=" + tname)
            try:
                col2, polys2 = self.polygonize(ra, mask=rm, connectivity=conn, transform=t.copy(), return_type="numpy")
            except Exception as e:
                out.violation(rank, tkey, "transform %s: polygonize raised %s: %s" % (tname, type(e).__name__, e),
                              case=self.describe(rank), observed=repr(e))
                continue
            out.ok()
            flat2 = [r for p in polys2 for r in p]
            msg = None
            if list(col2) != list(col) or [[len(r) for r in p] for p in polys2] != struct:
                msg = "values / ring structure differ from the untransformed output"
            else:
                got = np.concatenate(flat2) if flat2 else np.empty((0, 2))
                exp = np.column_stack((t[0] * base[:, 0] + t[1] * base[:, 1] + t[2],
                                       t[3] * base[:, 0] + t[4] * base[:, 1] + t[5]))
                if got.shape != exp.shape or not np.all(np.abs(got - exp) <= 1e-9):
                    msg = "vertices are not transform(untransformed vertices)"
            if msg:
                out.violation(rank, tkey, "transform %s %s: %s" % (tname, t.tolist(), msg), case=self.describe(rank),
                              observed={"values": list(col2), "polygons": [list(p) for p in polys2]},
                              expected={"untransformed": [list(p) for p in polys]})


# ---- checkerboard + one motif: rasters with many regions ------------------------------------------------------
# motifs as pictures (row 0 first); every distinct image under the 8 rotations / reflections is a motif of its own
MOTIF_PICTURES = [("corner3", (".X", "XX")), ("U5", ("X.X", "XXX")), ("U6", ("X..X", "XXXX")), ("U7", ("X.X", "X.X", "XXX")),
                  ("L4", ("X.", "X.", "XX")), ("block4", ("XX", "XX")), ("diag2", ("X.", ".X"))]


def _orientations(pic):
    cells = frozenset((r, c) for r, row in enumerate(pic) for c, ch in enumerate(row) if ch == "X")
    seen, out = set(), []
    for flip in (False, True):
        cur = frozenset((r, -c) for r, c in cells) if flip else cells
        for _ in range(4):
            cur = frozenset((c, -r) for r, c in cur)                      # quarter turn
            r0, c0 = min(r for r, _ in cur), min(c for _, c in cur)
            norm = tuple(sorted((r - r0, c - c0) for r, c in cur))
            if norm not in seen:
                seen.add(norm)
                out.append(norm)
    return sorted(out)


MOTIFS = [("%s/%d" % (name, i), cells) for name, pic in MOTIF_PICTURES for i, cells in enumerate(_orientations(pic))]
CHECKER = {"quick": [((5, 16), "int64"), ((9, 9), "int64"), ((6, 12), "float64"), ((8, 9), "int64")]}
CHECKER["thorough"] = CHECKER["quick"] + [((6, 12), "int64"), ((9, 9), "float64"), ((16, 5), "int64"), ((12, 6), "int32"),
                                          ((10, 13), "int64")]
# motif value: the third letter first, then the checkerboard letters (0 joins the motif to its 0-neighbours: several merges)
CHECKER_VALUES = {"quick": (2, 0), "thorough": (2, 0, 1)}
CHECKER_MASKS = ("none", "border_out")
CHECKER_TRANSFORMS = ("identity", "general")
for _t in BOUNDS:
    BOUNDS[_t]["checkerboard_plus_one_motif"] = dict(
        template="raster[r][c] = (r + c) % 2", shapes_dtypes=[[list(sh), dt] for sh, dt in CHECKER[_t]],
        motifs={name: ["".join("X" if (r, c) in cells else "." for c in range(1 + max(c for _, c in cells)))
                       for r in range(1 + max(r for r, _ in cells))] for name, cells in MOTIFS},
        placements="every position of the motif's bounding box inside the raster", motif_values=list(CHECKER_VALUES[_t]),
        masks=list(CHECKER_MASKS), connectivity=[4, 8], transforms=list(CHECKER_TRANSFORMS))


class CheckerSpace(PolySpace):
    """Deviation-bounded family around the checkerboard template: one motif, every orientation, every placement."""

    def __init__(self, shape, dtype, values):
        self.shape, self.dtype, self.alphabet, self.values = shape, dtype, (0, 1, 2), values
        self.family, self.mask_dtype, self.rlay, self.mlay = "checker", "bool", "C", "C"
        short = {"int64": "i8", "int32": "i4", "float64": "f8", "float32": "f4"}
        self.name = "poly_checker_%dx%d_%s" % (shape[0], shape[1], short[dtype])
        h, w = shape
        self.places = [(mi, r0, c0) for mi, (_, cells) in enumerate(MOTIFS)
                       for r0 in range(h - max(r for r, _ in cells)) for c0 in range(w - max(c for _, c in cells))]
        self.radices = [len(self.places), len(values), len(CHECKER_MASKS), 2]
        self.size = int(np.prod(self.radices))
        self.weight = h * w
        self.base = (np.add.outer(np.arange(h), np.arange(w)) % 2).astype(dtype)
        self.border = np.zeros(shape, bool)
        self.border[1:-1, 1:-1] = True

    def setup(self):
        PolySpace.setup(self)                                  # the with-mask signatures
        a = np.zeros((2, 3), dtype=self.dtype)
        self.polygonize(self.lay(a, "C"))                      # ... and the two without a mask
        self.polygonize(self.lay(a, "C"), transform=np.array([1.0, 0.0, 0.0, 0.0, 1.0, 0.0]))

    def tfs(self, shape):
        return [t for t in transforms(shape) if t[0] in CHECKER_TRANSFORMS]

    def parts_of(self, rank):
        pi, vi, mi, ci = unrank_product(rank, self.radices)
        return self.places[pi], self.values[vi], CHECKER_MASKS[mi], (4, 8)[ci]

    def case(self, rank):
        (mo, r0, c0), v, mname, conn = self.parts_of(rank)
        a = self.base.copy()
        for r, c in MOTIFS[mo][1]:
            a[r0 + r, c0 + c] = v
        return self.shape, a, (None if mname == "none" else self.border.copy()), conn

    def describe(self, rank):
        (mo, r0, c0), v, mname, conn = self.parts_of(rank)
        d = PolySpace.describe(self, rank)
        d["construction"] = "checkerboard (r+c)%%2, motif %s at row %d col %d with value %r, mask %s" % (
            MOTIFS[mo][0], r0, c0, v, mname)
        d["transforms"] = {n: t for n, t in self.tfs(self.shape)}
        return d

    def key(self, a, mask, conn, extra=""):
        # short literal: the cells that differ from the checkerboard
        dev = ["(%d,%d)=%g" % (r, c, a[r, c]) for r, c in zip(*np.nonzero(a != self.base))]
        return "polygonize|raster=checkerboard %dx%d + {%s}|dtype=%s|mask=%s|conn=%d%s" % (
            a.shape[0], a.shape[1], ",".join(dev), self.dtype, "None" if mask is None else "border_out", conn, extra)


def build(tier):
    spaces = [PolySpace(n, shapes, al, dt, mm, md, lp) for n, shapes, al, dts, mm, md, lps in SPEC[tier] for dt in dts
              for lp in lps]
    return spaces + [CheckerSpace(sh, dt, CHECKER_VALUES[tier]) for sh, dt in CHECKER[tier]]
