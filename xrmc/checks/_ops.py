"""Table of Dask-accepting public raster operations (shared by C01 / C10 / C11).

Each op: name -> Op(fn, nrasters, policy, kind).  fn(list_of_DataArrays) -> DataArray.
Imports of xrspatial happen lazily (inside worker processes only)."""
import numpy as np


class Op:
    def __init__(self, name, fn, nr=1, policy="exact", kind="cell", kernel=None, float_only=False):
        self.name, self.fn, self.nr, self.policy, self.kind = name, fn, nr, policy, kind
        self.kernel = kernel
        self.float_only = float_only

    def __call__(self, rasters):
        return self.fn(rasters)


def kernel01(shape):
    """asymmetric 0/1 kernel (no mirror / transpose symmetry) with the centre set."""
    h, w = shape
    k = np.zeros(shape)
    for i in range(h):
        for j in range(w):
            k[i, j] = 1.0 if (i * 3 + j * 5 + (i * j) % 2) % 3 != 1 else 0.0
    k[h // 2, w // 2] = 1.0
    k[0, 0] = 1.0
    k[h - 1, w - 1] = 0.0 if h * w > 1 else 1.0
    if h > 1 and w > 1:
        k[0, w - 1] = 1.0
        k[h - 1, 0] = 0.0
    return k


def kernelw(shape):
    """all-distinct weights."""
    h, w = shape
    return (np.arange(h * w, dtype=float).reshape(shape) * 1.25 + 0.5) * np.where(
        (np.arange(h * w).reshape(shape) % 4) == 3, -1.0, 1.0)


KSHAPES_Q = [(1, 3), (3, 1), (3, 3), (3, 5), (5, 3), (5, 5)]
KSHAPES_T = KSHAPES_Q + [(1, 5), (5, 1), (7, 3)]


def build_ops(tier="quick"):
    import xrspatial as xs
    from xrspatial import classify, convolution, focal, multispectral as ms
    from xrspatial.utils import ngjit

    ops = []
    add = ops.append
    add(Op("slope", lambda r: xs.slope(r[0]), kind="stencil"))
    add(Op("aspect", lambda r: xs.aspect(r[0]), kind="stencil"))
    add(Op("curvature", lambda r: xs.curvature(r[0]), kind="stencil"))
    add(Op("hillshade", lambda r: xs.hillshade(r[0]), kind="stencil"))
    add(Op("hillshade_az100_alt30", lambda r: xs.hillshade(r[0], azimuth=100, angle_altitude=30), kind="stencil"))
    add(Op("hillshade_az0_alt0", lambda r: xs.hillshade(r[0], azimuth=0, angle_altitude=0), kind="stencil"))
    add(Op("hillshade_az360_alt90", lambda r: xs.hillshade(r[0], azimuth=360, angle_altitude=90), kind="stencil"))
    add(Op("mean_p1", lambda r: focal.mean(r[0]), kind="stencil"))
    add(Op("mean_p2", lambda r: focal.mean(r[0], passes=2), kind="stencil"))
    add(Op("mean_p3_excl", lambda r: focal.mean(r[0], passes=3, excludes=[np.nan, 3.0]), kind="stencil"))
    add(Op("mean_p2_excl_nonan", lambda r: focal.mean(r[0], passes=2, excludes=[-9999.0]), kind="stencil"))
    shapes = KSHAPES_T if tier == "thorough" else KSHAPES_Q

    @ngjit
    def _range_red(kv):
        return np.nanmax(kv) - np.nanmin(kv)

    @ngjit
    def _first_red(kv):
        return kv[0, 0]

    for sh in shapes:
        k01 = kernel01(sh)
        kw = kernelw(sh)
        tag = "%dx%d" % sh
        add(Op("apply_mean_" + tag, lambda r, k=k01: focal.apply(r[0], k), kind="stencil", kernel=k01))
        add(Op("apply_range_" + tag, lambda r, k=k01: focal.apply(r[0], k, _range_red), kind="stencil", kernel=k01))
        add(Op("apply_corner_" + tag, lambda r, k=k01: focal.apply(r[0], k, _first_red), kind="stencil", kernel=k01))
        add(Op("focal_stats_" + tag, lambda r, k=k01: focal.focal_stats(r[0], k), kind="stencil", kernel=k01))
        add(Op("convolution_" + tag, lambda r, k=kw: convolution.convolution_2d(r[0], k), kind="stencil", kernel=kw))
        add(Op("hotspots_" + tag, lambda r, k=k01: focal.hotspots(r[0], k), policy="hotspots", kind="stencil", kernel=k01))
    add(Op("focal_stats_max_min_3x3", lambda r: focal.focal_stats(r[0], np.ones((3, 3)), stats_funcs=["max", "min"]),
           kind="stencil", kernel=np.ones((3, 3))))
    add(Op("binary", lambda r: classify.binary(r[0], [1.0, 3.0, 7.0, -2.0]), policy="exact"))
    add(Op("reclassify", lambda r: classify.reclassify(r[0], bins=[-5.0, 0.0, 4.5, 9.0, 12.0],
                                                       new_values=[10, 20, 30, 40, 50])))
    add(Op("equal_interval_k3", lambda r: classify.equal_interval(r[0], k=3), policy="cuts"))
    add(Op("equal_interval_k5", lambda r: classify.equal_interval(r[0], k=5), policy="cuts"))
    for name in ("gci", "nbr", "nbr2", "ndvi", "ndmi"):
        f = getattr(ms, name)
        add(Op(name, lambda r, f=f: f(r[0], r[1]), nr=2))
    add(Op("savi", lambda r: ms.savi(r[0], r[1]), nr=2))
    add(Op("savi_sf0.25", lambda r: ms.savi(r[0], r[1], soil_factor=0.25), nr=2))
    add(Op("arvi", lambda r: ms.arvi(r[0], r[1], r[2]), nr=3))
    add(Op("evi", lambda r: ms.evi(r[0], r[1], r[2]), nr=3))
    add(Op("sipi", lambda r: ms.sipi(r[0], r[1], r[2]), nr=3))
    add(Op("ebbi", lambda r: ms.ebbi(r[0], r[1], r[2]), nr=3))
    add(Op("true_color", lambda r: ms.true_color(r[0], r[1], r[2]), nr=3, policy="true_color"))
    add(Op("true_color_nodata5", lambda r: ms.true_color(r[0], r[1], r[2], nodata=5), nr=3, policy="true_color"))
    add(Op("perlin", lambda r: xs.perlin(r[0]), policy="perlin", kind="generator", float_only=True))
    add(Op("perlin_f23_s7", lambda r: xs.perlin(r[0], freq=(2, 3), seed=7), policy="perlin", kind="generator",
           float_only=True))
    add(Op("generate_terrain", lambda r: xs.generate_terrain(r[0]), policy="terrain", kind="generator",
           float_only=True))
    add(Op("generate_terrain_s3", lambda r: xs.generate_terrain(r[0], x_range=(10, 40), y_range=(-5, 20), seed=3,
                                                               zfactor=100), policy="terrain", kind="generator",
           float_only=True))
    add(Op("generate_terrain_full_extent", lambda r: xs.generate_terrain(r[0], x_range=(100, 300), y_range=(0, 50), seed=0, zfactor=10,
                                                                        full_extent=(0, 0, 400, 200)), policy="terrain",
           kind="generator", float_only=True))
    add(Op("perlin_s0_f31", lambda r: xs.perlin(r[0], freq=(3, 1), seed=0), policy="perlin", kind="generator", float_only=True))
    return ops


def build_families():
    """name -> (nr, [variant(rasters) -> lazy DataArray, ...]): calls that differ ONLY in parameters, to be built on the same
    Dask inputs and computed together in one graph (shared keys / caches keyed on too little show up there)."""
    import xrspatial as xs
    from xrspatial import classify, convolution, focal, multispectral as ms
    from xrspatial.utils import ngjit

    @ngjit
    def _rng(kv):
        return np.nanmax(kv) - np.nanmin(kv)

    k33, k35 = kernel01((3, 3)), kernel01((3, 5))
    F = {
        "savi": (2, [lambda r, s=sf: ms.savi(r[0], r[1], soil_factor=s) for sf in (0.25, 0.75, 1.0, 0.0)]),
        "evi": (3, [lambda r, g=g, c=c: ms.evi(r[0], r[1], r[2], c1=c, gain=g) for g, c in ((2.5, 6.0), (1.0, 6.0), (2.5, 7.5))]),
        "hillshade": (1, [lambda r, a=a, t=t: xs.hillshade(r[0], azimuth=a, angle_altitude=t) for a, t in ((225, 25), (100, 30), (0, 0), (225, 60))]),
        "mean": (1, [lambda r, p=p, e=e: focal.mean(r[0], passes=p, excludes=e) for p, e in ((1, [np.nan]), (2, [np.nan]), (2, [-9999.0]), (1, [3.0]))]),
        "apply": (1, [lambda r: focal.apply(r[0], k33), lambda r: focal.apply(r[0], k35), lambda r: focal.apply(r[0], k33, _rng)]),
        "focal_stats": (1, [lambda r: focal.focal_stats(r[0], k33), lambda r: focal.focal_stats(r[0], k33, stats_funcs=["max", "min"]),
                            lambda r: focal.focal_stats(r[0], k35, stats_funcs=["max", "min"])]),
        "convolution": (1, [lambda r: convolution.convolution_2d(r[0], kernelw((3, 3))), lambda r: convolution.convolution_2d(r[0], kernelw((3, 5))),
                            lambda r: convolution.convolution_2d(r[0], kernelw((3, 3)) * 2.0)]),
        "hotspots": (1, [lambda r: focal.hotspots(r[0], k33), lambda r: focal.hotspots(r[0], k35)]),
        "binary": (1, [lambda r: classify.binary(r[0], [1.0, 3.0]), lambda r: classify.binary(r[0], [2.0, 3.0, 7.0])]),
        "reclassify": (1, [lambda r: classify.reclassify(r[0], bins=[0.0, 9.0, 12.0], new_values=[1, 2, 3]),
                           lambda r: classify.reclassify(r[0], bins=[0.0, 4.5, 12.0], new_values=[1, 2, 3]),
                           lambda r: classify.reclassify(r[0], bins=[0.0, 9.0, 12.0], new_values=[3, 2, 1])]),
        "equal_interval": (1, [lambda r: classify.equal_interval(r[0], k=3), lambda r: classify.equal_interval(r[0], k=5)]),
        "true_color": (3, [lambda r: ms.true_color(r[0], r[1], r[2]), lambda r: ms.true_color(r[0], r[1], r[2], nodata=5),
                           lambda r: ms.true_color(r[0], r[1], r[2], c=5.0, th=0.3)]),
        "ndvi_vs_swapped": (2, [lambda r: ms.ndvi(r[0], r[1]), lambda r: ms.ndvi(r[1], r[0]), lambda r: ms.nbr(r[0], r[1])]),
        "perlin": (1, [lambda r: xs.perlin(r[0]), lambda r: xs.perlin(r[0], seed=7), lambda r: xs.perlin(r[0], freq=(2, 3))]),
        "slope_aspect_curv": (1, [lambda r: xs.slope(r[0]), lambda r: xs.aspect(r[0]), lambda r: xs.curvature(r[0])]),
    }
    return F
