"""C03 — zonal tables do not depend on how Dask rasters are chunked.

E1: every (zone, value) cell sequence over a 9-letter alphabet on a short raster x every chunk
decomposition; every pair of independent chunkings of zones and values; parameter product on
adversarial layouts.  E3: every compute runs under the controlled one-task-at-a-time scheduler with
the write monitor (purity of every task => all schedules equivalent); deviation-bounded schedule
enumeration on a 2-block crosstab graph; free-running thread pools as a labelled complement.
Reference = the NumPy backend on the same data (as the property states)."""
import itertools

import numpy as np

from ..core.rasters import dataarray
from ..core.space import Space
from ..core.spaces import chunkings, compositions, unrank_product

PROPERTY = "C03"
LEVEL = "model_checking"
RULE = ("case = (function, zones raster, values raster, chunking of zones, chunking of values, parameters) computed on "
        "the Dask backend under the controlled scheduler with write monitor and compared with the NumPy-backend table "
        "(rows matched by zone id; ids/count/min/max exact, sum/mean/std/var rtol 1e-9); non-trivial = >= 2 blocks and "
        ">= 1 zone with a valid cell; distinct = digest of (chunks, table)")
ASSUMPTIONS = [
    "rasters of <= 8 cells (the Dask zonal graphs have ~650 tasks per block, so block counts are kept <= 8); per-block "
    "combination logic depends only on which zones are absent / all-invalid / valid in which block, all of which occur",
    "integer-valued data so that the documented sum / sum-of-squares formulas are exact up to rounding",
    "calls in which no requested zone exists are outside the statement ('whenever at least one requested zone exists')",
    "Dask stats accepts only the built-in statistic names (documented); Dask 3-D crosstab supports agg='count' only",
    "free-running thread-pool runs are a complement, not the deciding step",
]
NAN = float("nan")
BOUNDS = {
    "quick": {"cell_sequences": "1x3 over 9 (zone,value)/(zone,cat) letters; stats and crosstab-percentage under the 2-block "
                                "chunkings, crosstab-count under all 3 chunkings", "independent_chunkings": "2x3: 8 x 8",
              "schedule_deviations": 1, "schedule_caps": {"crosstab": 3000, "stats": 150}},
    "thorough": {"cell_sequences": "stats: 1x3 all chunkings, 1x4 two-block chunkings; crosstab count: 1x3, 1x4, 2x2 all "
                                   "chunkings; percentage: 1x3 all, 1x4 two-block", "independent_chunkings": "2x4: 16 x 16",
                 "schedule_deviations": 1, "schedule_caps": {"crosstab": 20000, "stats": 4000}},
}

ZL = (1.0, 2.0, NAN)
VL = (3.0, NAN, 5.0)
CL = (0.0, 1.0, NAN)
EXACT_COLS = ("zone", "count", "min", "max")


def table_diff(dd, dn, rtol=1e-9):
    """Compare two stats/crosstab tables: rows matched by 'zone'; -> None or message."""
    import pandas as pd
    if list(dd.columns) != list(dn.columns):
        return "columns %s != numpy columns %s" % (list(dd.columns), list(dn.columns))
    zd = [float(z) for z in dd["zone"]]
    zn = [float(z) for z in dn["zone"]]
    if sorted(zd) != sorted(zn):
        return "zone ids %s != numpy zone ids %s" % (zd, zn)
    if len(set(zd)) != len(zd):
        return "duplicate zone rows %s" % zd
    for z in zn:
        rd = dd.iloc[zd.index(z)]
        rn = dn.iloc[zn.index(z)]
        for c in dn.columns:
            a, b = float(rd[c]), float(rn[c])
            if a != a and b != b:
                continue
            if str(c) in EXACT_COLS or not isinstance(c, str):
                okc = a == b
            else:
                okc = (a == a and b == b) and abs(a - b) <= rtol * max(1.0, abs(b))
            if not okc:
                return "zone %s column %r: dask %r, numpy %r" % (z, c, a, b)
    return None


class _Base(Space):
    def setup(self):
        import dask
        import dask.array as da
        from xrspatial import zonal
        from ..sched import dask_explorer as dx
        self.dask, self.da, self.dx, self.zonal = dask, da, dx, zonal

    def mk(self, a, chunks=None, dims=("y", "x")):
        h, w = a.shape[-2:]
        return dataarray(a.copy(), np.arange(h, dtype=float), np.arange(w, dtype=float), dims=dims, chunks=chunks)

    def call(self, fn, zones, values, zch, vch, kw, prefix=(), monitor="deps", layer_coords=None):
        """-> (table, scheduler) for the Dask backend."""
        s = self.dx.ControlledScheduler(prefix, monitor)
        with self.dask.config.set(scheduler=s.get):
            z = self.mk(zones, zch)
            if values.ndim == 3:
                import dask.array as da
                import xarray as xr
                v = xr.DataArray(da.from_array(values.copy(), chunks=vch), dims=("layer", "y", "x"),
                                 coords={"layer": layer_coords, "y": np.arange(values.shape[1], dtype=float),
                                         "x": np.arange(values.shape[2], dtype=float)})
            else:
                v = self.mk(values, vch)
            r = fn(z, v, **kw)
            lazy = hasattr(r, "compute")
            df = r.compute() if lazy else r
        return df.reset_index(drop=True), lazy, s

    def ref(self, fn, zones, values, kw, layer_coords=None):
        z = self.mk(zones)
        if values.ndim == 3:
            import xarray as xr
            v = xr.DataArray(values.copy(), dims=("layer", "y", "x"),
                             coords={"layer": layer_coords, "y": np.arange(values.shape[1], dtype=float),
                                     "x": np.arange(values.shape[2], dtype=float)})
        else:
            v = self.mk(values)
        return fn(z, v, **kw).reset_index(drop=True)

    def judge(self, out, rank, fname, zones, values, zch, vch, kw, layer_coords=None):
        fn = getattr(self.zonal, fname)
        nblocks = len(zch[0]) * len(zch[1])
        case = {"function": fname, "zones": zones, "values": values, "zones_chunks": zch, "values_chunks": vch,
                "kwargs": {k: (list(v) if isinstance(v, (list, tuple)) else v) for k, v in kw.items()}}
        key = "c03|%s|z=%s|v=%s|zch=%s|vch=%s|%s" % (fname, zones.tolist(), values.tolist(), zch, vch,
                                                     sorted((k, str(v)) for k, v in kw.items()))
        try:
            dn = self.ref(fn, zones, values, kw, layer_coords)
        except Exception as e:
            out.case(outcome=None, nontrivial=False, calls=1)
            out.count("numpy_reference_raises:%s" % type(e).__name__)
            return
        if len(dn) == 0:
            out.case(outcome=None, nontrivial=False, calls=1)
            out.count("no_requested_zone_exists(outside statement)")
            return
        try:
            dd, lazy, s = self.call(fn, zones, values, zch, vch, kw, layer_coords=layer_coords)
        except Exception as e:
            out.case(outcome=("exc", type(e).__name__), nontrivial=nblocks > 1, calls=1)
            out.violation(rank, key, "Dask-backed %s raises %s: %s (NumPy call succeeds)" % (fname, type(e).__name__, str(e)[:200]),
                          case=case)
            return
        out.calls(s.tasks)
        out.count("tasks_executed", s.tasks)
        valid_zone = bool(np.isfinite(dn.drop(columns=["zone"]).to_numpy(dtype=float)).any())
        out.case(outcome=(str(zch), str(vch), dd.to_numpy(dtype=float)), nontrivial=nblocks > 1 and valid_zone, calls=1)
        # float32 value rasters: the NumPy reducers accumulate in float32, so agreement is to float32 rounding
        msg = table_diff(dd, dn, rtol=1e-5 if values.dtype == np.float32 else 1e-9)
        out.ok()
        if msg:
            out.violation(rank, key, "%s: %s" % (fname, msg), case=case, observed=dd, expected=dn)
        if s.impure:
            out.count("impure_tasks", len(s.impure))
            out.note("impure task: %s mutates %s" % (s.impure[0][0], s.impure[0][1][:2]))
        if out.want_sample() and nblocks > 1 and valid_zone and not msg:
            out.sample(dict(case, tasks=s.tasks, table=dd))
        return dd, dn, s


class CellSeqSpace(_Base):
    """every sequence of (zone, value) cells over a 9-letter alphabet x every chunking with >= 2 blocks."""

    def __init__(self, fname, shape, kw, tag, letters2, max_blocks=None):
        self.fname, self.shape, self.kw = fname, shape, kw
        self.letters2 = letters2
        self.n = shape[0] * shape[1]
        self.chs = [c for c in chunkings(*shape) if len(c[0]) * len(c[1]) >= 2]
        if max_blocks:
            self.chs = [c for c in self.chs if len(c[0]) * len(c[1]) <= max_blocks]
        self.name = "%s_cells_%dx%d_%s" % (fname, shape[0], shape[1], tag)
        self.nl = len(ZL) * len(letters2)
        self.size = self.nl ** self.n * len(self.chs)
        self.weight = 2.0

    def case(self, rank):
        r, ci = divmod(rank, len(self.chs))
        letters = unrank_product(r, [self.nl] * self.n)
        z = np.array([ZL[l // len(self.letters2)] for l in letters]).reshape(self.shape)
        v = np.array([self.letters2[l % len(self.letters2)] for l in letters]).reshape(self.shape)
        return z, v, self.chs[ci]

    def describe(self, rank):
        z, v, ch = self.case(rank)
        return {"function": self.fname, "zones": z, "values": v, "chunks": ch, "kwargs": self.kw}

    def run(self, lo, hi, out):
        for rank in range(lo, hi):
            z, v, ch = self.case(rank)
            if not np.isfinite(z).any():
                out.case(outcome=None, nontrivial=False, calls=0)
                out.count("no_finite_zone(outside statement)")
                continue
            self.judge(out, rank, self.fname, z, v, ch, ch, self.kw)


ADV = {
    # zones, values (2x3 / 2x4), adversarial: interleaved zones, zone absent from blocks, zone whose cells are all invalid
    "2x3": (np.array([[1.0, 2.0, 1.0], [7.0, NAN, 2.0]]), np.array([[3.0, 0.0, 5.0], [NAN, 4.0, 3.0]])),
    "2x4": (np.array([[1.0, 2.0, 1.0, 2.0], [7.0, NAN, 2.0, 1.0]]), np.array([[3.0, 0.0, 5.0, 1.0], [NAN, 4.0, 3.0, 0.0]])),
}


class IndependentChunkSpace(_Base):
    """zones and values chunked independently (every pair of chunkings)."""

    def __init__(self, shape_tag, fname, kw, tag):
        self.z, self.v = ADV[shape_tag]
        self.fname, self.kw = fname, kw
        self.chs = chunkings(*self.z.shape)
        self.name = "%s_independent_chunkings_%s_%s" % (fname, shape_tag, tag)
        self.size = len(self.chs) ** 2
        self.weight = 3.0

    def describe(self, rank):
        a, b = divmod(rank, len(self.chs))
        return {"function": self.fname, "zones_chunks": self.chs[a], "values_chunks": self.chs[b], "kwargs": self.kw}

    def run(self, lo, hi, out):
        for rank in range(lo, hi):
            a, b = divmod(rank, len(self.chs))
            v = self.v if self.fname == "stats" else np.where(np.isnan(self.v), NAN, self.v % 3)
            self.judge(out, rank, self.fname, self.z, v, self.chs[a], self.chs[b], self.kw)


STAT_SETS = [["mean"], ["max"], ["min"], ["sum"], ["std"], ["var"], ["count"], ["std", "var"], ["count", "sum"],
             ["mean", "max", "min", "sum", "std", "var", "count"], ["max", "mean"]]
ZONE_IDS = [None, [1.0, 2.0], [2.0, 1.0], [7.0], [2.0, 99.0], [7.0, 1.0, 2.0]]


class StatsParamSpace(_Base):
    def __init__(self, tier):
        self.z, self.v = ADV["2x3"]
        self.chs = [((2,), (1, 2)), ((1, 1), (3,)), ((1, 1), (2, 1))] + ([((1, 1), (1, 1, 1)), ((2,), (3,))] if tier == "thorough" else [])
        self.nodata = [None, 0, 3]
        self.radices = [len(STAT_SETS), len(ZONE_IDS), len(self.nodata), len(self.chs)]
        self.name = "stats_parameters_2x3"
        self.size = int(np.prod(self.radices))
        self.weight = 3.0

    def describe(self, rank):
        si, zi, ni, ci = unrank_product(rank, self.radices)
        return {"stats_funcs": STAT_SETS[si], "zone_ids": ZONE_IDS[zi], "nodata_values": self.nodata[ni], "chunks": self.chs[ci]}

    def run(self, lo, hi, out):
        for rank in range(lo, hi):
            si, zi, ni, ci = unrank_product(rank, self.radices)
            kw = {"stats_funcs": list(STAT_SETS[si]), "nodata_values": self.nodata[ni]}
            if ZONE_IDS[zi] is not None:
                kw["zone_ids"] = list(ZONE_IDS[zi])
            self.judge(out, rank, "stats", self.z, self.v, self.chs[ci], self.chs[ci], kw)


CAT_IDS = [None, [0.0, 1.0], [1.0, 0.0], [2.0], [1.0, 99.0], [2.0, 0.0]]


class CrosstabParamSpace(_Base):
    def __init__(self, tier):
        self.z, v = ADV["2x3"]
        self.v = np.where(np.isnan(v), NAN, v % 3)
        self.chs = [((2,), (1, 2)), ((1, 1), (3,)), ((1, 1), (2, 1))] + ([((1, 1), (1, 1, 1))] if tier == "thorough" else [])
        self.nodata = [None, 0]
        self.aggs = ["count", "percentage"]
        self.radices = [len(ZONE_IDS), len(CAT_IDS), len(self.nodata), len(self.aggs), len(self.chs)]
        self.name = "crosstab2d_parameters_2x3"
        self.size = int(np.prod(self.radices))

    def describe(self, rank):
        zi, ki, ni, ai, ci = unrank_product(rank, self.radices)
        return {"zone_ids": ZONE_IDS[zi], "cat_ids": CAT_IDS[ki], "nodata_values": self.nodata[ni], "agg": self.aggs[ai],
                "chunks": self.chs[ci]}

    def run(self, lo, hi, out):
        for rank in range(lo, hi):
            zi, ki, ni, ai, ci = unrank_product(rank, self.radices)
            kw = {"agg": self.aggs[ai], "nodata_values": self.nodata[ni]}
            if ZONE_IDS[zi] is not None:
                kw["zone_ids"] = list(ZONE_IDS[zi])
            if CAT_IDS[ki] is not None:
                kw["cat_ids"] = list(CAT_IDS[ki])
            self.judge(out, rank, "crosstab", self.z, self.v, self.chs[ci], self.chs[ci], kw)


class Crosstab3DSpace(_Base):
    """3-D values (count): layers x chunkings of zones x chunkings of the value stack (layer axis split too)."""

    def __init__(self, tier):
        self.z, v = ADV["2x3"]
        self.v3 = np.stack([v, np.where(np.isnan(v), 1.0, NAN * 0 + v[::-1, ::-1]), v * 0 + 2.0])
        self.v3[1, 0, 0] = NAN
        self.zchs = chunkings(2, 3)
        self.lch = [(3,), (1, 2), (1, 1, 1)]
        self.params = [dict(), dict(nodata_values=3), dict(zone_ids=[2.0, 1.0]), dict(cat_ids=["c", "a"]), dict(layer=0)]
        self.radices = [len(self.zchs), len(self.zchs), len(self.lch), len(self.params)]
        self.name = "crosstab3d_count_2x3"
        self.size = int(np.prod(self.radices))
        if tier == "quick":
            self.zsel = None

    def describe(self, rank):
        a, b, l, p = unrank_product(rank, self.radices)
        return {"zones_chunks": self.zchs[a], "values_chunks": (self.lch[l],) + tuple(self.zchs[b]), "kwargs": self.params[p]}

    def run(self, lo, hi, out):
        for rank in range(lo, hi):
            a, b, l, p = unrank_product(rank, self.radices)
            kw = dict(self.params[p])
            kw.setdefault("agg", "count")
            vch = (self.lch[l],) + tuple(self.zchs[b])
            self.judge(out, rank, "crosstab", self.z, self.v3, self.zchs[a], vch, kw, layer_coords=["a", "b", "c"])


class ValueDtypeSpace(_Base):
    """value / zone dtypes: narrow integers whose sums and squares leave the dtype's range, float32, unsigned."""

    def __init__(self, tier):
        self.dts = [("int16", [200, 300, 10, 20, 250, 100, 30, 40]), ("uint8", [200, 255, 10, 20, 250, 100, 30, 40]),
                    ("int32", [70000, 300, 10, 20, 50000, 100, 30, 40]), ("float32", [0.5, 300.25, 10, 20, 250, 100.75, 30, 40]),
                    ("int8", [100, -120, 10, 20, 127, 100, 30, 40]), ("int64", [2 ** 31, 3, 10, 20, 2 ** 31 + 5, 100, 30, 40])]
        self.zdts = ["int64", "int16", "float32"]
        self.chs = [((2,), (2, 2)), ((1, 1), (4,)), ((1, 1), (1, 3))] + ([((2,), (1, 1, 1, 1)), ((1, 1), (2, 2))] if tier == "thorough" else [])
        self.items = [("stats", {}), ("crosstab", {"agg": "count"})]
        self.radices = [len(self.dts), len(self.zdts), len(self.chs), len(self.items)]
        self.name = "value_and_zone_dtypes_2x4"
        self.size = int(np.prod(self.radices))
        self.weight = 3.0

    def describe(self, rank):
        di, zi, ci, ii = unrank_product(rank, self.radices)
        return {"values_dtype": self.dts[di][0], "zones_dtype": self.zdts[zi], "chunks": self.chs[ci], "function": self.items[ii][0]}

    def run(self, lo, hi, out):
        for rank in range(lo, hi):
            di, zi, ci, ii = unrank_product(rank, self.radices)
            dt, vals = self.dts[di]
            v = np.array(vals, dtype=dt).reshape(2, 4)
            z = np.array([[1, 1, 2, 2], [1, 1, 2, 3]], dtype=self.zdts[zi])
            fname, kw = self.items[ii]
            if fname == "crosstab":
                v = (v % 3).astype(dt)
            self.judge(out, rank, fname, z, v, self.chs[ci], self.chs[ci], dict(kw))


class BlockCountSpace(_Base):
    """number of blocks as a dimension: 1 x n rasters split into n one-cell blocks (n = 1..N) and small grids split into
    one-cell blocks, with one zone living only in the LAST block and one only in the FIRST (tree/grouped reductions over
    the block axis behave differently for 4k+1, odd x odd, ... block counts)."""

    def __init__(self, tier):
        ns = list(range(1, 13)) if tier == "quick" else list(range(1, 22))
        self.layouts = [((1, n), ((1,), (1,) * n)) for n in ns]
        self.layouts += [((3, 3), ((1, 1, 1), (1, 1, 1))), ((2, 3), ((1, 1), (1, 1, 1)))]
        if tier == "thorough":
            self.layouts += [((3, 5), ((1, 1, 1), (1, 1, 1, 1, 1))), ((5, 5), ((1,) * 5, (1,) * 5)), ((2, 8), ((2,), (1,) * 8))]
        self.items = [("stats", {}), ("crosstab", {"agg": "count"}), ("crosstab", {"agg": "percentage"}),
                      ("stats", {"zone_ids": [9.0, 1.0]})]
        self.name = "block_count_sweep"
        self.size = len(self.layouts) * len(self.items)
        self.grain = 1
        self.weight = 30.0

    def case(self, rank):
        li, ii = divmod(rank, len(self.items))
        shape, ch = self.layouts[li]
        n = shape[0] * shape[1]
        z = np.array([float(i % 3 + 1) for i in range(n)])
        z[0] = 8.0 if n > 1 else 1.0
        z[-1] = 9.0
        v = np.arange(1.0, n + 1.0)
        fname, kw = self.items[ii]
        if fname == "crosstab":
            v = v % 3
        return fname, dict(kw), z.reshape(shape), v.reshape(shape), ch

    def describe(self, rank):
        fname, kw, z, v, ch = self.case(rank)
        return {"function": fname, "kwargs": kw, "blocks": len(ch[0]) * len(ch[1]), "zones": z, "values": v}

    def run(self, lo, hi, out):
        for rank in range(lo, hi):
            fname, kw, z, v, ch = self.case(rank)
            self.judge(out, rank, fname, z, v, ch, ch, kw)


class ScheduleSpace(_Base):
    """E3c: all schedules with <= 1 deviation on 2-block graphs (crosstab; stats under a stated cap)."""

    def __init__(self, tier):
        self.tier = tier
        self.items = [("crosstab", dict(agg="count")), ("crosstab", dict(agg="percentage")), ("stats", dict())]
        self.caps = {"crosstab": 3000 if tier == "quick" else 20000, "stats": 150 if tier == "quick" else 4000}
        self.name = "sched_le1_deviation_2blocks"
        self.size = len(self.items)
        self.grain = 1
        self.weight = 100.0

    def describe(self, rank):
        return {"function": self.items[rank][0], "kwargs": self.items[rank][1], "chunks": ((2,), (2, 1)), "deviation_bound": 1}

    def run(self, lo, hi, out):
        z, v0 = ADV["2x3"]
        ch = ((2,), (2, 1))
        for rank in range(lo, hi):
            fname, kw = self.items[rank]
            fn = getattr(self.zonal, fname)
            v = v0 if fname == "stats" else np.where(np.isnan(v0), NAN, v0 % 3)
            dn = self.ref(fn, z, v, kw)
            tables = set()

            def cf(get):
                with self.dask.config.set(scheduler=get):
                    r = fn(self.mk(z, ch), self.mk(v, ch), **kw)
                    return r.compute().reset_index(drop=True)

            def on_exec(chs, df, sch):
                out.case(outcome=(fname, tuple(sch.order)), nontrivial=any(chs), calls=sch.tasks)
                out.ok()
                msg = table_diff(df, dn)
                tables.add(df.to_numpy(dtype=float).tobytes())
                if msg:
                    out.violation(rank, "c03|sched|%s|%s|choices=%s" % (fname, kw, chs), "schedule-dependent or wrong table: " + msg,
                                  case={"function": fname, "choices": chs})
            st = self.dx.explore_schedules(cf, 1, monitor=None, max_execs=self.caps[fname], on_exec=on_exec,
                                           tolerate_divergence=(fname == "stats"))
            out.count("schedules", st["executions"])
            if st["diverged"]:
                out.count("schedule_prefixes_not_replayable(graph rebuilt with a different fusion)", st["diverged"])
                out.note("dask stats graph: %d recorded choice prefixes did not fit the rebuilt graph (Dask fuses the uuid-named "
                         "delayed tasks differently on every build); the executed schedules are valid schedules of the real graph, "
                         "but the <=1-deviation set is not claimed complete for stats" % st["diverged"])
            if st["capped"]:
                out.count("schedule_caps_hit")
                out.note("schedule cap %d hit for %s: the first %d one-deviation schedules (in DFS order) were covered; "
                         "the write monitor covers the rest by the purity argument" % (self.caps[fname], fname, self.caps[fname]))
            out.sample({"function": fname, "schedules": st["executions"], "points": st["max_points"],
                        "max_ready": st["max_ready"], "distinct_tables": len(tables)})


class ThreadsSpace(_Base):
    def __init__(self, tier):
        self.items = [("stats", dict()), ("crosstab", dict(agg="count")), ("crosstab", dict(agg="percentage")),
                      ("stats", dict(zone_ids=[2.0, 1.0]))]
        self.workers = [1, 4, 16]
        self.name = "threads_free_running_complement"
        self.size = len(self.items) * len(self.workers)

    def describe(self, rank):
        i, w = divmod(rank, len(self.workers))
        return {"function": self.items[i][0], "kwargs": self.items[i][1], "scheduler": "threads", "num_workers": self.workers[w]}

    def run(self, lo, hi, out):
        z, v0 = ADV["2x4"]
        ch = ((1, 1), (2, 2))
        for rank in range(lo, hi):
            i, w = divmod(rank, len(self.workers))
            fname, kw = self.items[i]
            fn = getattr(self.zonal, fname)
            v = v0 if fname == "stats" else np.where(np.isnan(v0), NAN, v0 % 3)
            dn = self.ref(fn, z, v, kw)
            try:
                with self.dask.config.set(scheduler="threads", num_workers=self.workers[w]):
                    df = fn(self.mk(z, ch), self.mk(v, ch), **kw).compute().reset_index(drop=True)
            except Exception as e:
                out.case(outcome=("exc",), calls=1)
                out.violation(rank, "c03|threads|%s|%s|w=%d|raises" % (fname, kw, self.workers[w]), repr(e))
                continue
            out.case(outcome=df.to_numpy(dtype=float), calls=1)
            out.ok()
            msg = table_diff(df, dn)
            if msg:
                out.violation(rank, "c03|threads|%s|%s|w=%d" % (fname, kw, self.workers[w]), msg, observed=df, expected=dn)


def build(tier):
    sp = []
    if tier == "quick":
        # quick: two-block chunkings only for stats (a Dask stats compute costs ~0.4 s per block)
        sp.append(CellSeqSpace("stats", (1, 3), {}, "default", VL, max_blocks=2))
        sp.append(CellSeqSpace("crosstab", (1, 3), {"agg": "count"}, "count", CL))
        sp.append(CellSeqSpace("crosstab", (1, 3), {"agg": "percentage"}, "percentage", CL, max_blocks=2))
        sp.append(IndependentChunkSpace("2x3", "stats", {}, "default"))
        sp.append(IndependentChunkSpace("2x3", "crosstab", {"agg": "count"}, "count"))
    else:
        sp.append(CellSeqSpace("stats", (1, 3), {}, "default", VL))
        sp.append(CellSeqSpace("stats", (1, 4), {}, "default", VL, max_blocks=2))
        for shape in ((1, 3), (1, 4), (2, 2)):
            sp.append(CellSeqSpace("crosstab", shape, {"agg": "count"}, "count", CL))
        sp.append(CellSeqSpace("crosstab", (1, 3), {"agg": "percentage"}, "percentage", CL))
        sp.append(CellSeqSpace("crosstab", (1, 4), {"agg": "percentage"}, "percentage", CL, max_blocks=2))
        sp.append(IndependentChunkSpace("2x4", "stats", {}, "default"))
        sp.append(IndependentChunkSpace("2x4", "crosstab", {"agg": "count"}, "count"))
        sp.append(IndependentChunkSpace("2x3", "crosstab", {"agg": "percentage"}, "percentage"))
    sp += [StatsParamSpace(tier), CrosstabParamSpace(tier), Crosstab3DSpace(tier), ValueDtypeSpace(tier), BlockCountSpace(tier), ScheduleSpace(tier),
           ThreadsSpace(tier)]
    return sp
