"""C04 — crosstab is a true contingency table under any zone / category selection (NumPy backend).

Engine E1.  Rasters are enumerated as *all* sequences of N (zone, category) cells over small alphabets
(for 3-D values: N cells x L layers), laid out 1xN and (N even) 2x(N/2).  Kinds of spaces:
  tab_*    unrestricted table: agg {count, percentage} x nodata
  sel_*    restriction: every ordered sub-list of zone_ids / cat_ids (present ids + one absent id) and every pair
           of short sub-lists, x agg x nodata
  csel_*   restriction by cat_ids only (every ordered sub-list, zone_ids absent): the affordable slice of sel_* for the
           largest N of the non-finite family
  lay_*    3-D values: seven aggregates x layer index {0, -1} x nodata
  sel3_*   3-D values with zone_ids / cat_ids restrictions
  layo_*   3-D values whose layer-coordinate LABELS are not in ascending order (descending [20, 10], [2020, 2010, 2000];
           partly ordered [20, 10, 30]; strings ['b', 'a'], ['b', 'a', 'c']): the column labelled c must hold the aggregate of
           the layer whose coordinate label is c, wherever that label sorts; seven aggregates x cat_ids in {None, every
           ordered sub-list of 1..2 labels} x category dimension first / last
  asel_* / asel3_*   restrictions whose lists mix the ids present (zones from {10, 20, 40}) with the absent ids 5, 25, 99
           (3-D layer ids 10, 20 with absent 5, 15, 40): absent ids below the minimum, BETWEEN two existing ids and
           above the maximum, alone and mixed with existing ids, in any order
  tab_nr*  categories that are close to but different from nodata_values (float64 neighbours, 5e-9 absolute,
           5e-6 relative): such a cell is valid ("finite, not nodata") and is a category of its own
  memb_* / memp_* / mem3_*   memory layout of the two rasters (C-ordered, Fortran-ordered, transposed view - 3-D also
           per-layer column-major - chosen independently for zones and values) on the non-square shapes 2x3, 3x2,
           2x4 where memory order differs from logical order; the oracle works on logical cell positions
Families nf / nfa put -inf and +inf (next to NaN) into the 2-D value alphabet: the statement counts only cells whose
value is "finite, not nodata", so such a cell belongs to no category and not to the zone's valid cells either.
One rank = one call of xrspatial.zonal.crosstab, compared with the Counter model of xrmc/oracles/zonal.py.
Rows and columns are matched by label; any row / column order is accepted."""
import itertools

import numpy as np

from ..core.digest import bytes64
from ..core.space import Space
from ..core.spaces import SumSpace, ordered_sublists, unrank_product
from ..oracles import zonal as oz

PROPERTY = "C04"
LEVEL = "model_checking"
RULE = ("every sequence of N (zone, category) cells over the listed alphabets (rank = mixed-radix number: zone letters, "
        "then category letters, then the parameter setting) x every listed layout x agg x nodata; for the restriction "
        "spaces additionally every selection: zone_ids = each ordered sub-list (length 0..3, no repetition) of (zones "
        "present + absent zone 8) with cat_ids=None, cat_ids = each ordered sub-list (length 0..3) of (categories "
        "present + absent category 7) with zone_ids=None, and each pair of sub-lists of length 0..2 (csel spaces: only "
        "the cat_ids sub-lists with zone_ids=None; asel spaces: the candidates are the ids present + the absent ids "
        "5, 25, 99, lists of length 0..3 one at a time and pairs of lists of length 0..1); value letters NaN, -inf, +inf are cells without category that do not "
        "count as valid cells of their zone; 3-D: every "
        "sequence of N cells x L layers, seven aggregates, category dimension first (layer=0) or last (layer=-1); layo "
        "spaces: the same x every listed non-ascending labelling of the layer coordinate x cat_ids in {None, each ordered "
        "sub-list of 1..2 of the labels} (layout 1xN only).  "
        "Memory-layout spaces: memb = every zones raster over {1, 2} x every values raster over {0, 1} x layout pairs "
        "(zones, values) in {C, F}^2 minus (C, C); memp = every zones raster over {1, 2} x the position rasters (1..N in "
        "flatten order; each one-hot raster) x layout pairs in {C, F, T}^2 minus (C, C); mem3 = every zones raster over "
        "{1, 2} x the cube whose 2N cells hold distinct powers of two x (zones layout in {C, F, T}) x (cube layout in "
        "{C, F, T, Y}) minus (C, C), where C = C-contiguous, F = np.array(order='F'), T = transposed view of a "
        "C-contiguous array of the reversed shape, Y = the two spatial axes swapped in memory.  "
        "One case = one call of zonal.crosstab.  A case is non-trivial when the expected table has a non-zero / "
        "defined entry; distinct = distinct digests of the returned table")
ASSUMPTIONS = [
    "NumPy backend only (the Dask backend is explored by C03 on its chunking space); CuPy not explorable here",
    "zones / categories outside the alphabets and rasters with more than N cells are not explored (small-scope "
    "argument: the table is a function of the flattened (zone, category) sequence only)",
    "zone_ids / cat_ids lists without repeated ids; nodata_values is a finite number or None",
    "non-finite VALUE cells (NaN, -inf, +inf) are in the domain (families nf, nfa, l2x): by the statement they are not "
    "valid cells, i.e. they belong to no category / aggregate and not to the percentage denominator; the only "
    "non-finite ZONE letter is NaN (+-inf zone cells are explored by C02 on the shared zone sort)",
    "row order, column order, dtypes and the index of the returned DataFrame are not asserted (labels are)",
    "percentage entries of a zone without any valid cell are not asserted (0/0; only non-empty rows are specified)",
    "3-D entries of a (zone, layer) without valid cell are not asserted (aggregate of an empty set); a ValueError "
    "'zero-size array' raised by agg min/max when a selected (zone, layer) is empty is counted "
    "(counter 3d_minmax_raised_on_empty_zone_layer) and not reported as a violation",
    "3-D values: the category dimension is the first (layer=0) or the last (layer=-1) one and carries a coordinate with "
    "pairwise different labels - integers or strings, in any order (layo spaces; elsewhere 10, 20, 30); a layer is "
    "identified by its label, cat_ids name labels (string labels: lists of str)",
    "comparison tolerance rtol 1e-9 (atol 1e-12); counts are compared exactly within that tolerance",
    "near-nodata category letters are float64 only (for nodata=0 the neighbours are the two smallest subnormals); "
    "category columns are matched by their exact float64 label",
    "memory layouts: contiguous C / Fortran order, whole-array transposed views and swapped spatial axes only (no "
    "negative or non-unit strides); rasters are handed to xarray.DataArray without copying (asserted by the check)",
]
NAN, INF = float("nan"), float("inf")
ABSENT_ZONE, ABSENT_CAT = 8, 7
ABSENT = {}      # family -> (absent zones, absent categories / layers); default ((8,), (7,)) and 3-D ((8,), (40,))
AGG2 = ("count", "percentage")
AGG3 = ("count", "sum", "mean", "min", "max", "std", "var")
LAYER_IDS = (10, 20, 30)
# non-ascending labellings of the layer coordinate (kind layo), per number of layers
LABEL_ORDERS = {2: ((20, 10), ("b", "a")), 3: ((2020, 2010, 2000), (20, 10, 30), ("b", "a", "c"))}

FAMILIES = {
    # name: (zone alphabet, category alphabet, zone dtype, value dtype, nodata options)
    "f12": ((1.0, 2.0, NAN), (0.0, 1.0, 2.0, NAN), "f8", "f8", (None, 2)),
    "f12a": ((1.0, 2.0, NAN), (0.0, 1.0, 2.0, NAN), "f8", "f8", (None,)),
    "f20": ((1.0, 2.0, 3.0, NAN), (0.0, 1.0, 2.0, NAN, 9.0), "f8", "f8", (None, 9)),
    "f20n": ((1.0, 2.0, 3.0, NAN), (0.0, 1.0, 2.0, NAN, 9.0), "f8", "f8", (9,)),
    "i12": ((1, 2, 3), (0, 1, 2, 9), "i8", "i4", (None, 9)),
    "i6": ((1, 2), (0, 1, 9), "i8", "i4", (None, 9)),
    # non-finite value letters: two categories + every kind of non-finite cell (NaN sorts last, +inf last-but-NaN, -inf first)
    "nf": ((1.0, 2.0, NAN), (0.0, 1.0, NAN, -INF, INF), "f8", "f8", (None, 1)),
    "nfa": ((1.0, 2.0, NAN), (0.0, 1.0, NAN, -INF, INF), "f8", "f8", (None,)),
    # 3-D: value alphabet per layer cell
    "l2": ((1.0, 2.0, NAN), (1.0, 3.0, NAN), "f8", "f8", (None, 1)),
    "l2w": ((1.0, 2.0, NAN), (0.0, 1.0, 3.0, NAN), "f8", "f8", (None, 1)),
    "l2b": ((1.0, 2.0, NAN), (1.0, 3.0), "f8", "f8", (None,)),
    "l3": ((1.0, 2.0, NAN), (1.0, 3.0, NAN), "f8", "f8", (None,)),
    "l3b": ((1.0, 2.0, NAN), (1.0, 3.0), "f8", "f8", (None,)),
    "l2i": ((1, 2, 3), (0, 1, 3), "i4", "i8", (None, 1)),
    "l2x": ((1.0, 2.0, NAN), (1.0, 3.0, -INF, INF), "f8", "f8", (None,)),
    "lo": ((1.0, 2.0), (1.0, 3.0, NAN), "f8", "f8", (None,)),
    "lo3": ((1.0, 2.0), (1.0, 3.0, NAN), "f8", "f8", (None,)),        # = lo, three layers (space names are per family)
    # absent requested ids below / between / above the existing ones (see ABSENT)
    "g3": ((10.0, 20.0, 40.0), (10.0, 40.0), "f8", "f8", (None,)),
    "g3i": ((10, 20, 40), (10, 40), "i8", "i4", (None,)),
    "g3l": ((10.0, 20.0, 40.0), ("2**i",), "f8", "f8", (None,)),
    # memory-layout spaces
    "bin": ((1.0, 2.0), (0.0, 1.0), "f8", "f8", (None,)),
    "pos": ((1.0, 2.0), ("1..N", "one-hot"), "f8", "f8", (None,)),
    "pos3": ((1.0, 2.0), ("2**i",), "f8", "f8", (None,)),
}
ABSENT.update({"g3": ((5, 25, 99), (5, 25, 99)), "g3i": ((5, 25, 99), (5, 25, 99)), "g3l": ((5, 25, 99), (5, 15, 40))})


def near_letters(nd):
    """nodata itself, its float64 neighbours, values within 1e-9 absolute / 1e-6 relative of it, NaN."""
    nd = float(nd)
    rel = nd * (1 + 5e-6) if nd != 0 else -5e-9
    out = (nd, float(np.nextafter(nd, INF)), float(np.nextafter(nd, -INF)), nd + 5e-9, rel, NAN)
    assert len({x for x in out if x == x}) == 5
    return out


for _f, _nd in (("nr0", 0), ("nr3", 3), ("nr1k", 1000.0)):
    FAMILIES[_f] = ((1.0, 2.0, NAN), near_letters(_nd), "f8", "f8", (_nd,))
MEM_ALL = [(a, b) for a in "CFT" for b in "CFT" if (a, b) != ("C", "C")]
MEM_CF = [(a, b) for a in "CF" for b in "CF" if (a, b) != ("C", "C")]
MEM_3D = [(a, b) for a in "CFT" for b in "CFTY" if (a, b) != ("C", "C")]
MEM_SHAPES = ((2, 3), (3, 2), (2, 4))
# list-length caps of the restriction spaces: (zone lists, cat lists, zone lists in a pair, cat lists in a pair)
SEL_CAPS = {"sel": (3, 3, 2, 2), "selt": (3, 3, 2, 2), "csel": (0, 3, None, None), "asel": (3, 3, 1, 1),
            "sel3": (2, 2, 2, 1), "asel3": (3, 2, 1, 1)}


def laid_out(a, how, spatial=(0, 1)):
    """Copy of `a` (same logical content) with the requested memory layout."""
    if how == "C":
        return a.copy(order="C")
    if how == "F":
        return np.array(a, order="F", copy=True)
    if how == "T":
        return a.T.copy(order="C").T
    if how == "Y":
        return np.swapaxes(np.swapaxes(a, *spatial).copy(order="C"), *spatial)
    raise KeyError(how)
# (kind, family, N values, layers[, shapes])
PLAN = {
    "quick": [("tab", "f12", (1, 2, 3), 0), ("tab", "f12a", (4,), 0), ("tab", "f20", (1, 2, 3), 0),
              ("tab", "i12", (1, 2, 3), 0),
              ("sel", "f12", (1, 2), 0), ("selt", "f12a", (3,), 0), ("sel", "i6", (1, 2), 0),
              ("tab", "nf", (1, 2, 3), 0), ("sel", "nf", (1,), 0), ("sel", "nfa", (2,), 0), ("csel", "nfa", (3,), 0),
              ("lay", "l2w", (1,), 2), ("lay", "l2", (2,), 2), ("lay", "l3", (1,), 3), ("lay", "l3b", (2,), 3),
              ("lay", "l2i", (1, 2), 2),
              ("sel3", "l2", (1,), 2), ("sel3", "l2b", (2,), 2),
              ("layo", "lo", (1, 2), 2), ("layo", "lo3", (1,), 3),
              ("tab", "nr0", (1, 2), 0), ("tab", "nr3", (1, 2), 0), ("tab", "nr1k", (1, 2, 3), 0),
              ("asel", "g3", (1, 2, 3), 0), ("asel3", "g3l", (3,), 2),
              ("memb", "bin", (6,), 0, MEM_SHAPES), ("memp", "pos", (6, 8), 0, MEM_SHAPES),
              ("mem3", "pos3", (6, 8), 2, MEM_SHAPES)],
    "thorough": [("tab", "f12", (1, 2, 3, 4, 5), 0), ("tab", "f20", (1, 2, 3, 4), 0), ("tab", "i12", (1, 2, 3, 4), 0),
                 ("sel", "f12", (1, 2, 3), 0), ("sel", "f20", (1, 2, 3), 0), ("sel", "i12", (1, 2, 3), 0),
                 ("tab", "nf", (1, 2, 3, 4), 0), ("sel", "nf", (1, 2), 0), ("sel", "nfa", (3,), 0),
                 ("lay", "l2w", (1, 2), 2), ("lay", "l2", (3,), 2), ("lay", "l3", (1, 2), 3), ("lay", "l3b", (3,), 3),
                 ("lay", "l2i", (1, 2, 3), 2), ("lay", "l2x", (2,), 2),
                 ("sel3", "l2", (1, 2), 2), ("sel3", "l2b", (3,), 2), ("sel3", "l3b", (1, 2), 3),
                 ("layo", "lo", (1, 2), 2), ("layo", "lo3", (1,), 3), ("layo", "l3", (2,), 2),
                 ("tab", "nr0", (1, 2, 3), 0), ("tab", "nr3", (1, 2, 3), 0), ("tab", "nr1k", (1, 2, 3), 0),
                 ("asel", "g3", (1, 2, 3), 0), ("asel", "g3i", (1, 2, 3), 0), ("asel3", "g3l", (2, 3), 2),
                 ("memb", "bin", (6,), 0, MEM_SHAPES), ("memp", "pos", (6, 8), 0, MEM_SHAPES),
                 ("mem3", "pos3", (6, 8), 2, MEM_SHAPES)],
}


def layouts(n, shapes=None):
    if shapes is not None:
        return [tuple(s) for s in shapes if s[0] * s[1] == n]
    return [(1, n)] + ([(2, n // 2)] if n % 2 == 0 else [])


BOUNDS = {t: {"spaces": [dict(kind=e[0], family=e[1], zone_alphabet=[str(x) for x in FAMILIES[e[1]][0]],
                              category_or_layer_value_alphabet=[str(x) for x in FAMILIES[e[1]][1]],
                              dtypes=list(FAMILIES[e[1]][2:4]), nodata_values=[str(x) for x in FAMILIES[e[1]][4]],
                              cells=list(e[2]), layers=e[3], layouts={n: layouts(n, *e[4:]) for n in e[2]},
                              absent_zones_and_cats=ABSENT.get(e[1])) for e in plan],
              "agg_2d": list(AGG2), "agg_3d": list(AGG3), "layer_index": [0, -1],
              "absent_zone": ABSENT_ZONE, "absent_category": ABSENT_CAT, "layer_ids": list(LAYER_IDS),
              "layer_label_orders_kind_layo": {str(k): [list(x) for x in v] for k, v in LABEL_ORDERS.items()},
              "selections": "zone lists <=3 | cat lists <=3 | pairs of lists <=2 (3-D: zone lists <=2 | cat lists <=2 | "
                            "zone lists <=2 x cat lists <=1); kind csel: cat lists <=3 only, zone_ids absent; kind selt: "
                            "as sel but in a pair one of the two lists has length <=1; kind asel (absent ids 5, 25, 99 "
                            "next to the present ones): zone lists <=3 | cat lists <=3 | pairs of lists <=1, N>=3: agg count only; kind asel3: "
                            "zone lists <=3 | layer lists <=2 | pairs of lists <=1, agg count / sum; kind layo: zone_ids "
                            "absent, cat_ids absent | each ordered sub-list of 1..2 labels, seven aggregates, layout 1xN",
              "memory_layouts": {"memb": ["z%s,v%s" % m for m in MEM_CF] + ["agg count"],
                                 "memp": ["z%s,v%s" % m for m in MEM_ALL] + ["agg count, percentage (N=8: count)"],
                                 "mem3": ["z%s,v%s" % m for m in MEM_3D] + ["agg sum, max; layer 0, -1"]},
              "trimmed": ("the unrestricted N=4 table of family f12 runs with nodata_values=None only (tab_f12a_N4; "
                          "nodata=2 stays at N<=3, nodata=9 in f20/i12) to pay for the non-finite families nf/nfa; "
                          "the N=3 restriction space of family f12a (selt_f12a_N3) pairs a zone list with a cat list only "
                          "when one of the two has length <=1 (pairs of two 2-element lists stay at N<=2) to pay for the "
                          "asel / mem / near-nodata spaces"
                          if t == "quick" else "nothing")}
          for t, plan in PLAN.items()}


def _fmt(a):
    return repr(a.tolist()).replace(" ", "")


def _sublists(items, maxlen):
    return [list(x) for x in ordered_sublists(list(items), maxlen)]


# ---- defect models, used ONLY to give a violation a descriptive key (the verdict comes from the oracle) -------
def _model_2d(z, v, zone_ids, cat_ids, agg, nodata, label_bug, cat_bug):
    zs, cs, counts, total = oz.contingency(z, v, nodata)
    rows, cols = oz.select(zs, zone_ids), oz.select(cs, cat_ids)
    tab = {}
    for zz in rows:
        row, run = {}, 0
        for c in cs:
            run += counts.get((zz, c), 0)
            if c in cols:
                n = run if cat_bug else counts.get((zz, c), 0)
                run = 0
                row[c] = float(n) if agg == "count" else ((n / total[zz] * 100.0) if total[zz] else None)
        tab[zz] = row
    return _relabel(tab, rows, zs, zone_ids) if label_bug else tab


def _relabel(tab, rows, zs, zone_ids):
    """rows computed in ascending order but labelled in request order"""
    if zone_ids is None:
        return tab
    req = [float(r) for r in zone_ids if float(r) in zs]
    return {req[i]: tab[rows[i]] for i in range(len(rows))}


def _matches(obs, tab, rtol=1e-9, atol=1e-12):
    for zz, row in tab.items():
        for c, e in row.items():
            if e is None:
                continue
            o = obs.get((zz, c))
            if o is None or not oz.close(o, e, rtol, atol):
                return False
    return True


class CrosstabSpace(Space):
    def __init__(self, kind, fam, n, nlayers, shapes=None):
        self.kind, self.fam, self.n, self.L = kind, fam, n, nlayers
        self.za, self.va, self.zdt, self.vdt, self.nodata_opts = FAMILIES[fam]
        self.name = "%s_%s_N%d" % (kind, fam, n)
        self.lay = layouts(n, shapes)
        self.nvals = n * max(1, nlayers)
        self.nzseq = len(self.za) ** n
        self.nvseq = {"pos": n + 1, "pos3": 1, "g3l": 1}.get(fam) or len(self.va) ** self.nvals
        self._vc = {}
        self.fint = self.zdt.startswith("i")
        self.selkind = kind in ("sel", "selt", "csel", "asel")
        if kind in ("tab", "lay", "layo", "memb", "memp", "mem3"):      # parameter settings do not depend on the raster: plain product
            self.fixed = self.variants((), ())
            self.size = self.nzseq * self.nvseq * len(self.fixed)
        else:
            self.fixed = None
            self.pz = [self._present(self.zseq(zi)) for zi in range(self.nzseq)]
            if self.selkind:
                self.pc = [{nd: self._present([c for c in self.vseq(vi) if oz.valid(c, nd)]) for nd in self.nodata_opts}
                           for vi in range(self.nvseq)]
                parts = [((zi, vi), sum(len(self.variants(self.pz[zi], self.pc[vi][nd], nd)) for nd in self.nodata_opts))
                         for zi in range(self.nzseq) for vi in range(self.nvseq)]
            else:
                parts = [((zi, None), self.nvseq * sum(len(self.variants(self.pz[zi], (), nd)) for nd in self.nodata_opts))
                         for zi in range(self.nzseq)]
            self.sum = SumSpace(parts)
            self.size = self.sum.size
        self.weight = n * (1.0 if kind in ("tab", "sel", "csel") else 0.8)

    # ---- enumeration ---------------------------------------------------------------------------------
    def zseq(self, zi):
        return [self.za[i] for i in unrank_product(zi, [len(self.za)] * self.n)]

    def vseq(self, vi):
        if self.fam == "pos":        # position rasters: 1..N in flatten order, then the one-hot rasters
            return [float(i + 1) for i in range(self.n)] if vi == 0 else [float(i == vi - 1) for i in range(self.n)]
        if self.fam in ("pos3", "g3l"):     # the cube whose L*N cells hold distinct powers of two (layer-major)
            return [float(2 ** i) for i in range(self.nvals)]
        return [self.va[i] for i in unrank_product(vi, [len(self.va)] * self.nvals)]

    @staticmethod
    def _present(seq):
        return tuple(sorted({x for x in seq if oz.finite(x)}))

    def variants(self, zones, cats, nodata=None):
        """Parameter settings (shape, zone_ids, cat_ids, agg, nodata, layer) for a raster with these zones / cats."""
        key = (zones, cats, nodata)
        if key in self._vc:
            return self._vc[key]
        if self.kind == "tab":
            v = [(s, None, None, a, nd, None) for s in self.lay for a in AGG2 for nd in self.nodata_opts]
        elif self.kind == "lay":
            v = [(s, None, None, a, nd, ly) for s in self.lay for a in AGG3 for nd in self.nodata_opts for ly in (0, -1)]
        elif self.kind == "layo":
            v = [(s, None, cl, a, nd, ly, ("C", "C"), labs) for s in self.lay[:1] for labs in LABEL_ORDERS[self.L]
                 for cl in [None] + _sublists(labs, 2)[1:] for a in AGG3 for nd in self.nodata_opts for ly in (0, -1)]
        elif self.kind == "memb":
            v = [(s, None, None, "count", None, None, m) for s in self.lay for m in MEM_CF]
        elif self.kind == "memp":
            v = [(s, None, None, a, None, None, m) for s in self.lay for m in MEM_ALL
                 for a in (AGG2 if self.n <= 6 else AGG2[:1])]
        elif self.kind == "mem3":
            v = [(s, None, None, a, None, ly, m) for s in self.lay for m in MEM_3D for a in ("sum", "max") for ly in (0, -1)]
        else:
            absz, absc = ABSENT.get(self.fam, ((ABSENT_ZONE,), (ABSENT_CAT,) if self.selkind else (40,)))
            zc = list(zones) + [a if self.fint else float(a) for a in absz]
            capz, capc, pz, pc = SEL_CAPS[self.kind]
            if self.selkind:
                cc = list(cats) + [a if self.vdt.startswith("i") else float(a) for a in absc]
                if self.kind == "csel":
                    sel = [(None, cl) for cl in _sublists(cc, capc)]
                else:
                    sel = [(zl, None) for zl in _sublists(zc, capz)] + [(None, cl) for cl in _sublists(cc, capc)] \
                        + [(zl, cl) for zl in _sublists(zc, pz) for cl in _sublists(cc, pc)
                           if self.kind != "selt" or len(zl) <= 1 or len(cl) <= 1]
                v = [(s, zl, cl, a, nodata, None) for s in self.lay for zl, cl in sel
                     for a in (AGG2[:1] if self.kind == "asel" and self.n >= 3 else AGG2)]
            else:
                cc = list(LAYER_IDS[:self.L]) + list(absc)
                sel = [(zl, None) for zl in _sublists(zc, capz)] + [(None, cl) for cl in _sublists(cc, capc)] \
                    + [(zl, cl) for zl in _sublists(zc, pz) for cl in _sublists(cc, pc)]
                v = [(s, zl, cl, a, nodata, ly) for s in self.lay for zl, cl in sel for a in ("count", "sum")
                     for ly in (0, -1)]
        self._vc[key] = v
        return v

    def case(self, rank):
        if self.fixed is not None:
            r, k = divmod(rank, len(self.fixed))
            zi, vi = divmod(r, self.nvseq)
            var = self.fixed[k]
        else:
            pi, local = self.sum.locate(rank)
            zi, vi = self.sum.parts[pi][0]
            if self.selkind:
                cats = self.pc[vi]
            else:
                per = self.sum.parts[pi][1] // self.nvseq
                vi, local = divmod(local, per)
                cats = {nd: () for nd in self.nodata_opts}
            for nd in self.nodata_opts:
                vs = self.variants(self.pz[zi], cats[nd], nd)
                if local < len(vs):
                    var = vs[local]
                    break
                local -= len(vs)
        shape = var[0]
        z = np.array(self.zseq(zi), dtype=self.zdt).reshape(shape)
        vals = np.array(self.vseq(vi), dtype=self.vdt)
        v = vals.reshape((self.L,) + shape) if self.L else vals.reshape(shape)
        return (z, v) + tuple(var[1:6]) + (var[6] if len(var) > 6 else ("C", "C"),
                                           var[7] if len(var) > 7 else LAYER_IDS[:self.L])

    def describe(self, rank):
        z, v, zone_ids, cat_ids, agg, nodata, layer, mem, labels = self.case(rank)
        d = {"zones": z, "values": v, "zone_ids": zone_ids, "cat_ids": cat_ids, "agg": agg, "nodata_values": nodata}
        if mem != ("C", "C"):
            d["memory_layout"] = {"zones": mem[0], "values": mem[1],
                                  "legend": "C = C-contiguous, F = np.array(a, order='F'), T = a.T.copy().T (transposed "
                                            "view), Y = the two spatial axes swapped in memory (view); for 3-D values the "
                                            "layout is that of the array handed to the call"}
        if self.L:
            d.update(values_dims=["cat", "y", "x"] if layer == 0 else ["y", "x", "cat"], layer=layer,
                     layer_ids=list(labels),
                     note="`values` is listed as (layer, y, x); for layer=-1 the call receives it transposed to (y, x, layer)")
        return d

    # ---- exploration ---------------------------------------------------------------------------------
    def setup(self):
        import xarray as xr
        from xrspatial import zonal
        self.crosstab, self.DataArray = zonal.crosstab, xr.DataArray
        z = xr.DataArray(np.array([[1.0, 2.0]]), dims=("y", "x"))
        zonal.crosstab(z, z)        # JIT warm-up of _strides

    def run(self, lo, hi, out):
        for rank in range(lo, hi):
            self.one(rank, out)

    def one(self, rank, out):
        z, v, zone_ids, cat_ids, agg, nodata, layer, mem, labels = self.case(rank)
        L = self.L
        relabelled = self.kind == "layo"        # the model then works on layer POSITIONS 0..L-1, mapped to labels here
        kw = {"agg": agg}
        if zone_ids is not None:
            kw["zone_ids"] = list(zone_ids)
        if cat_ids is not None:
            kw["cat_ids"] = list(cat_ids)
        if nodata is not None:
            kw["nodata_values"] = nodata
        zin = laid_out(z, mem[0])
        zda = self.DataArray(zin, dims=("y", "x"))
        if not L:
            vin = laid_out(v, mem[1])
            vda = self.DataArray(vin, dims=("y", "x"))
        elif layer == 0:
            vin = laid_out(v, mem[1], (1, 2))
            vda = self.DataArray(vin, dims=("cat", "y", "x"), coords={"cat": list(labels)})
        else:
            vin = laid_out(np.moveaxis(v, 0, -1), mem[1], (0, 1))
            vda = self.DataArray(vin, dims=("y", "x", "cat"), coords={"cat": list(labels)})
            kw["layer"] = -1
        assert zda.data.strides == zin.strides and vda.data.strides == vin.strides       # handed over without a copy
        ident = "z=%s|%s=%s|%s%s|zone_ids=%s|cat_ids=%s|agg=%s|nodata=%s%s" % (
            _fmt(z), "layers" if L else "v", _fmt(v), self.zdt, self.vdt, zone_ids, cat_ids, agg, nodata,
            "|layer=%d" % layer if L else "")
        if relabelled:
            ident += "|labels=%r" % (list(labels),)
        ident = ident.replace(" ", "")
        if mem != ("C", "C"):
            ident += "|mem=z%s,v%s" % mem
            for a, how in ((zin, mem[0]), (vin, mem[1])):       # the layout really is the one named
                assert a.flags.c_contiguous == (how == "C") and a.flags.f_contiguous == (how in "FT"), (how, a.flags)
            out.count("layout:z%s,v%s" % mem)
        what = "crosstab3d" if L else "crosstab2d"
        if not self.vdt.startswith("i") and np.isinf(v).any():
            out.count("cases_with_inf_value_cell")

        if relabelled:
            want = None if cat_ids is None else [labels.index(c) for c in cat_ids if c in labels]
            rows, cols, tab = oz.crosstab3d_table(z, v, range(L), zone_ids, want, agg, nodata)
            nontrivial = any(e is not None for r in tab.values() for e in r.values())
            has_empty = any(e is None for r in tab.values() for e in r.values())
        elif L:
            rows, cols, tab = oz.crosstab3d_table(z, v, LAYER_IDS[:L], zone_ids, cat_ids, agg, nodata)
            nontrivial = any(e is not None for r in tab.values() for e in r.values())
            has_empty = any(e is None for r in tab.values() for e in r.values())
        else:
            rows, cols, tab = oz.crosstab_table(z, v, zone_ids, cat_ids, agg, nodata)
            nontrivial = any(e for r in tab.values() for e in r.values())
            has_empty = False

        def lab(c):          # label of the model's column id
            return labels[int(c)] if relabelled else c

        def bad(cause, symptom, msg, observed=None):
            out.count("viol:%s/%s/%s" % (what, cause, symptom))
            out.violation(rank, "C04|%s/%s/%s|%s" % (what, cause, symptom, ident), "zonal.crosstab(%s): %s" % (ident, msg),
                          case=self.describe(rank), observed=observed,
                          expected={"zones": rows, "cats": [lab(c) for c in cols],
                                    "table": {str(k): {str(lab(c)): e for c, e in r.items()} for k, r in tab.items()}})

        try:
            res = self.crosstab(zda, vda, **kw)
        except Exception as e:
            if L and has_empty and agg in ("min", "max") and isinstance(e, ValueError) and "zero-size" in str(e):
                out.case(outcome=("exc-empty", agg), nontrivial=False, calls=1)
                out.count("3d_minmax_raised_on_empty_zone_layer")
                out.note("agg min/max raises ValueError('zero-size array ...') when a selected (zone, layer) has no valid "
                         "cell; the property leaves such entries undefined, so these calls are counted, not asserted")
                return
            out.case(outcome=("exc", type(e).__name__), nontrivial=False, calls=1)
            out.ok()
            return bad("unexplained", "exception", "raised %s: %s" % (type(e).__name__, str(e)[:300]), repr(e))

        colnames = list(res.columns)
        arr = res.to_numpy(dtype=float)
        out.case(outcome=bytes64(arr.tobytes() + repr([str(c) for c in colnames]).encode()), nontrivial=nontrivial, calls=1)
        out.ok()
        try:
            if colnames[0] != "zone":
                raise ValueError("first column is not 'zone'")
            ocols = [float(labels.index(c)) if relabelled else float(c) for c in colnames[1:]]
        except (ValueError, TypeError, IndexError):
            return bad("unexplained", "columns", "columns are %r, expected 'zone' + categories %r"
                       % (colnames, [lab(c) for c in cols]), res)
        orows = arr[:, 0].tolist()
        obs = {(orows[i], ocols[j]): arr[i, j + 1].item() for i in range(len(orows)) for j in range(len(ocols))}
        if sorted(ocols) != cols:
            return bad("unexplained", "columns", "category columns are %r, expected exactly %r (any order)"
                       % (colnames[1:], [lab(c) for c in cols]), res)
        if sorted(orows) != rows:
            return bad("unexplained", "rows", "rows are labelled %r, expected exactly the zones %r (any order)" % (orows, rows), res)
        for zz in rows:
            for c in cols:
                e = tab[zz][c]
                if e is None:
                    continue
                o = obs[(zz, c)]
                if not oz.close(o, e):
                    cause = self.diagnose(obs, z, v, zone_ids, cat_ids, agg, nodata, rows, tab)
                    return bad(cause, "entry", "entry (zone %r, %s %r) is %r, expected %r [%s]"
                               % (zz, "layer" if L else "category", lab(c), o, e, cause), res)
        if nontrivial and len(rows) >= 2 and len(cols) >= 2 and out.want_sample():
            out.sample({"call": self.describe(rank), "result": res})

    def diagnose(self, obs, z, v, zone_ids, cat_ids, agg, nodata, rows, tab):
        """Name of the defect model that reproduces the observed table exactly (label of the violation key only)."""
        zs = oz.zone_ids_present(z)
        if self.L:
            return "rows-labelled-in-request-order" if _matches(obs, _relabel(tab, rows, zs, zone_ids)) else "unexplained"
        for name, lb, cb in (("rows-labelled-in-request-order", True, False), ("skipped-category-inflates-next", False, True),
                             ("request-order-labels+skipped-category", True, True)):
            if _matches(obs, _model_2d(z, v, zone_ids, cat_ids, agg, nodata, lb, cb)):
                return name
        return "unexplained"


class DupCatSpace(Space):
    """cat_ids lists in which an id occurs MORE THAN ONCE (the multiplicity dimension of a list argument), NumPy backend, 2-D values:
    every returned column - however often its label is repeated - must hold the entries of that category's column of the
    unrestricted table (so a percentage row still sums to 100 over its distinct categories).  Dask is left out on purpose:
    dask.dataframe rejects repeated column labels with a ValueError, which is a refusal, not a wrong table."""
    ZA, VA = (1.0, 2.0), (0.0, 1.0, 2.0)
    POOL = (0.0, 1.0, 2.0, 7.0)

    def __init__(self, n, maxlen):
        self.n, self.maxlen = n, maxlen
        self.name = "dupcat_N%d_len%d" % (n, maxlen)
        self.lists = [list(c) for L in range(2, maxlen + 1) for c in itertools.product(self.POOL, repeat=L) if len(set(c)) < L]
        self.dims = [len(self.ZA)] * n + [len(self.VA)] * n + [len(self.lists), 2]
        self.size = int(np.prod(self.dims))
        self.weight = n

    def setup(self):
        import xarray as xr
        from xrspatial import zonal
        self.crosstab, self.DataArray = zonal.crosstab, xr.DataArray

    def case(self, rank):
        d = unrank_product(rank, self.dims)
        z = np.array([[self.ZA[i] for i in d[:self.n]]])
        v = np.array([[self.VA[i] for i in d[self.n:2 * self.n]]])
        return z, v, self.lists[d[-2]], ("count", "percentage")[d[-1]]

    def describe(self, rank):
        z, v, cat_ids, agg = self.case(rank)
        return {"zones": z, "values": v, "cat_ids": cat_ids, "agg": agg, "backend": "numpy"}

    def run(self, lo, hi, out):
        for rank in range(lo, hi):
            z, v, cat_ids, agg = self.case(rank)
            zs, cs, counts, total = oz.contingency(z, v, None)
            want = sorted(c for c in cat_ids if c in cs)
            key = "%s|agg=%s|cat_ids=%r" % (self.name, agg, cat_ids)
            try:
                res = self.crosstab(self.DataArray(z.copy(), dims=("y", "x")), self.DataArray(v.copy(), dims=("y", "x")),
                                    cat_ids=list(cat_ids), agg=agg)
            except Exception as e:        # noqa: a refusal is not a wrong table; it is counted, not judged
                out.case(outcome=("raises", type(e).__name__), nontrivial=False, calls=1)
                out.count("raises_" + type(e).__name__)
                continue
            arr = res.to_numpy(dtype=float)
            cols = list(res.columns)
            out.case(outcome=bytes64(arr.tobytes() + repr([str(c) for c in cols]).encode()), nontrivial=len(want) >= 2, calls=1)
            out.ok()
            msg = None
            try:
                ocols = [float(c) for c in cols[1:]]
            except (TypeError, ValueError):
                ocols = None
            if cols[:1] != ["zone"] or ocols is None or sorted(set(ocols)) != sorted(set(want)):
                msg = "columns are %r, expected 'zone' + the requested categories present %r" % (cols, want)
            elif sorted(arr[:, 0].tolist()) != zs:
                msg = "rows are labelled %r, expected %r" % (arr[:, 0].tolist(), zs)
            else:
                for i, zz in enumerate(arr[:, 0].tolist()):
                    for j, c in enumerate(ocols):
                        n = counts.get((zz, c), 0)
                        e = float(n) if agg == "count" else ((n / total[zz] * 100.0) if total[zz] else None)
                        if e is not None and not oz.close(arr[i, j + 1].item(), e):
                            msg = "entry (zone %r, category %r, column %d) is %r, expected %r" % (zz, c, j + 1, arr[i, j + 1].item(), e)
                            break
                    if msg:
                        break
            if msg:
                out.violation(rank, key, msg, case=self.describe(rank), sig="crosstab|numpy|repeated-cat_ids|" + agg,
                              observed=res, expected={"categories": want})


def build(tier):
    return [CrosstabSpace(e[0], e[1], n, e[3], *e[4:]) for e in PLAN[tier] for n in e[2]] + \
        [DupCatSpace(n, m) for n, m in ({"quick": [(3, 2), (2, 3)], "thorough": [(3, 2), (4, 3)]}[tier])]
