"""C05 — viewshed marks a cell visible exactly when the line-of-sight model says so.

Exhaustive enumeration (engine E1): (a) every terrain over a small height alphabet on small grids x every
observer cell (x a product of configurations on the smallest grids); (b) deviation-bounded larger grids: flat
base, every placement of <= k raised / lowered cells x every observer cell.  Every non-square shape family occurs
tall (H > W) as well as wide: rows and columns play different roles in the sweep; (c) observer positions OFF the cell
centre: the observer is an (x, y) coordinate pair, and every position inside a cell's footprint is that cell's observer.
Every call of the public `xrspatial.viewshed` is compared cell by cell with the O(n^2) reference evaluation in
oracles/viewshed.py."""
from functools import lru_cache
from math import comb

import numpy as np

from ..core.digest import bytes64
from ..core.rasters import dataarray, grid
from ..core.space import Space
from ..core.spaces import placements, unrank_product
from ..oracles.viewshed import EPS, HIDDEN, OBSERVER, TIE, VISIBLE, line_of_sight

PROPERTY = "C05"
LEVEL = "model_checking"
RULE = ("case = (terrain, observer cell, configuration); rank = mixed-radix (terrain rank, observer row-major, "
        "configuration), terrain rank 0 = flat.  'full' spaces enumerate every raster of the shape over the alphabet; "
        "'dev' spaces enumerate a flat 0 base with every placement of 0..k deviating cells x every assignment of the "
        "listed heights.  One implementation call per case, observer given as the x/y coordinates of the cell centre; 'offset' "
        "spaces: observer = (cell, displacement): the coordinates of the cell centre displaced by (fr, fc) cell sizes along "
        "the row / column axis, fr, fc in {0, +-0.3, +-0.49} not both 0, every combination that stays inside the "
        "coordinate range of the raster - the reference is evaluated for the cell whose centre is nearest (the cell the "
        "observer stands in), so the result must be that of the centred observer of that cell and the cell holds 180.  "
        "validated (out.ok) counts CELLS whose state (visible with its vertical angle / hidden = -1 / observer = 180) "
        "the reference predicts definitely and that were compared; tie_skipped counts cells left to the tie rule "
        "(for those only 'value is -1 or the vertical angle' is asserted).  A case is non-trivial when the "
        "reference predicts at least one hidden and one visible cell; distinct outcomes = distinct output rasters")
ASSUMPTIONS = [
    "NaN terrain is outside the property and is not generated; grids with a single row or column are not generated "
    "(the function derives the cell size from (last - first coordinate) / (n - 1))",
    "tie rule, eps = 1e-9 on gradients (radians): a cell whose visibility hinges on a gradient comparison closer than "
    "eps, or on a nearer cell that touches the cell's bearing only with the boundary of its angular span (the model "
    "does not say whether the span is closed), is counted as tie_skipped; exact IEEE ties that involve no "
    "interpolation arithmetic (flat terrain, collinear cells with identical gradient) are asserted as visible "
    "(a cell is hidden only by a GREATER gradient)",
    "bearings / angular interpolation in index space (column, row) and distances in map units (cell sizes), as in "
    "the model the function implements; corner elevation = mean of the 4 cells sharing the corner when all 4 exist, "
    "else the cell's own elevation",
    "vertical angles compared with absolute tolerance 1e-9 degrees; heights, observer / target elevations and cell "
    "sizes are small integers or dyadic rationals",
    "observer_elev / target_elev are passed as Python floats (or omitted in the 'defaults' space): integer-typed "
    "arguments with an integer raster trigger a second ~25 s numba specialisation per worker and are not explored",
    "target_elev >= 0 only (quantifier of the property); coordinates are evenly spaced, x ascending, y ascending or "
    "descending; NumPy backend only (CuPy / RTX paths need a GPU)",
    "observer positions off the cell centre: displacements of 0.3 and 0.49 cell sizes on either side of the centre along "
    "either axis (far from the half-way point between two centres, whose owner the statement leaves open); positions "
    "outside [first, last] cell-centre coordinate raise ValueError by design and are not generated, so a border cell is "
    "only displaced inwards along the axis it borders",
    "terrains with many distinct heights on grids larger than 4x4 are reached only through <= 2 (thorough: <= 3 on "
    "5x5) deviations from a flat base",
    "two cells at exactly the same distance from the observer with overlapping angular spans do not exist for offsets "
    "<= 8 cells with the cell sizes used (verified by enumeration), so equal keys in the distance-keyed status "
    "structure are never simultaneously active within these bounds",
]

# configuration: observer_elev, target_elev, (x cell size, y cell size), y descending?, dtype
A = dict(oe=1.0, te=0.0, cell=(1.0, 1.0), desc=False, dtype="f8")
B = dict(oe=0.5, te=1.0, cell=(2.0, 1.0), desc=True, dtype="i4")
C = dict(oe=0.0, te=0.0, cell=(0.5, 1.5), desc=False, dtype="f8")
# a raster that carries a stale attrs['res'] (e.g. kept by a strided selection of a generate_terrain output): distances are those
# of the coordinates, never of the attribute
R1 = dict(oe=1.0, te=0.0, cell=(2.0, 1.0), desc=False, dtype="f8", res_attr=(1.0, 1.0))
R2 = dict(oe=0.5, te=0.0, cell=(0.5, 1.5), desc=True, dtype="f8", res_attr=(3.0, 0.25))
# cell sizes far from 1 (degrees for a metre-scale DEM; kilometres): nothing in the model depends on the unit
T1 = dict(oe=1.0, te=0.0, cell=(5e-6, 4e-6), desc=False, dtype="f8")
T2 = dict(oe=0.5, te=1.0, cell=(2500.0, 1000.0), desc=True, dtype="f8")
DEFAULTS = dict(oe=0.0, te=0.0, cell=(1.0, 1.0), desc=False, dtype="f8", defaults=True)   # optional arguments omitted
PRODUCT = [dict(oe=oe, te=te, cell=cell, desc=desc, dtype=dt)
           for oe in (0.0, 0.5, 1.0, -1.0) for te in (0.0, 1.0)
           for cell in ((1.0, 1.0), (2.0, 1.0), (0.5, 1.5)) for desc in (False, True) for dt in ("i4", "f8")]

# observer displacement from the cell centre, in cell sizes along the row axis / the column axis
OFFSETS = (-0.49, -0.3, 0.0, 0.3, 0.49)

# (name, shape, ("full", alphabet) | ("dev", heights, kmax), configurations[, "offset" = displaced observers])
SPACES = {
    "quick": [
        ("full_3x3_012_A", (3, 3), ("full", (0, 1, 2)), [A]),
        ("full_3x3_02_defaults", (3, 3), ("full", (0, 2)), [DEFAULTS]),
        ("full_2x3_02_product96", (2, 3), ("full", (0, 2)), PRODUCT),
        # every shape family as HxW and as WxH: rows and columns are not interchangeable in the sweep
        ("full_3x2_02_product96", (3, 2), ("full", (0, 2)), PRODUCT),
        ("full_4x2_012_A", (4, 2), ("full", (0, 1, 2)), [A]),
        ("full_4x2_02_defaults_B", (4, 2), ("full", (0, 2)), [DEFAULTS, B]),
        ("full_2x4_02_defaults_AB", (2, 4), ("full", (0, 2)), [DEFAULTS, A, B]),
        ("dev_5x5_k2_ABC", (5, 5), ("dev", (-2, 1, 3), 2), [A, B, C]),
        ("dev_6x6_k2_B", (6, 6), ("dev", (-2, 3), 2), [B]),
        ("dev_7x7_k2_A", (7, 7), ("dev", (-2, 3), 2), [A]),
        ("dev_6x4_k2_B", (6, 4), ("dev", (-2, 3), 2), [B]),
        ("dev_4x6_k2_C", (4, 6), ("dev", (-2, 3), 2), [C]),
        # observer coordinates off the cell centre (3x3: corner, edge and interior cells; y ascending in A, descending in B)
        # (the observer's cell is located before any terrain is looked at: <= 2 deviations from flat are terrain enough)
        ("offset_dev_3x3_k2_AB", (3, 3), ("dev", (-2, 3), 2), [A, B], "offset"),
        ("offset_2x3_02_C", (2, 3), ("full", (0, 2)), [C], "offset"),
        ("offset_3x2_02_C", (3, 2), ("full", (0, 2)), [C], "offset"),
        ("stale_res_attr_3x3_02", (3, 3), ("full", (0, 2)), [R1, R2]),
        ("stale_res_attr_2x4_012", (2, 4), ("full", (0, 1, 2)), [R1]),
        ("cell_size_magnitudes_3x3_02", (3, 3), ("full", (0, 2)), [T1, T2]),
        ("cell_size_magnitudes_offset_2x3_02", (2, 3), ("full", (0, 2)), [T1, T2], "offset"),
    ],
    "thorough": [
        ("cell_size_magnitudes_3x3_02", (3, 3), ("full", (0, 2)), [T1, T2]),
        ("cell_size_magnitudes_offset_2x3_02", (2, 3), ("full", (0, 2)), [T1, T2], "offset"),
        ("cell_size_magnitudes_dev_5x5_k2", (5, 5), ("dev", (-2, 1, 3), 2), [T1, T2]),
        ("stale_res_attr_3x3_02", (3, 3), ("full", (0, 2)), [R1, R2]),
        ("stale_res_attr_2x4_012", (2, 4), ("full", (0, 1, 2)), [R1, R2]),
        ("stale_res_attr_dev_5x5_k2", (5, 5), ("dev", (-2, 1, 3), 2), [R1, R2]),
        ("full_3x3_012_A", (3, 3), ("full", (0, 1, 2)), [A]),
        ("full_3x3_02_defaults", (3, 3), ("full", (0, 2)), [DEFAULTS]),
        ("full_2x3_02_product96", (2, 3), ("full", (0, 2)), PRODUCT),
        ("full_3x2_02_product96", (3, 2), ("full", (0, 2)), PRODUCT),
        ("full_4x2_012_A", (4, 2), ("full", (0, 1, 2)), [A]),
        ("full_4x2_02_defaults_B", (4, 2), ("full", (0, 2)), [DEFAULTS, B]),
        ("full_2x4_02_defaults_AB", (2, 4), ("full", (0, 2)), [DEFAULTS, A, B]),
        ("full_3x4_02_A", (3, 4), ("full", (0, 2)), [A]),
        ("full_4x3_02_A", (4, 3), ("full", (0, 2)), [A]),
        ("full_4x4_01_A", (4, 4), ("full", (0, 1)), [A]),
        ("full_3x3_02_product96", (3, 3), ("full", (0, 2)), PRODUCT),
        ("dev_5x5_k2_ABC", (5, 5), ("dev", (-2, 1, 3), 2), [A, B, C]),
        ("dev_6x6_k2_ABC", (6, 6), ("dev", (-2, 1, 3), 2), [A, B, C]),
        ("dev_7x7_k2_ABC", (7, 7), ("dev", (-2, 1, 3), 2), [A, B, C]),
        ("dev_5x7_k2_C", (5, 7), ("dev", (-2, 3), 2), [C]),
        ("dev_7x5_k2_B", (7, 5), ("dev", (-2, 3), 2), [B]),
        ("dev_6x4_k2_B", (6, 4), ("dev", (-2, 3), 2), [B]),
        ("dev_4x6_k2_C", (4, 6), ("dev", (-2, 3), 2), [C]),
        ("dev_8x8_k2_B", (8, 8), ("dev", (-2, 1, 3), 2), [B]),
        ("dev_9x9_k2_A", (9, 9), ("dev", (-2, 3), 2), [A]),
        ("dev_5x5_k3_C", (5, 5), ("dev", (-2, 3), 3), [C]),
        ("offset_3x3_02_ABC", (3, 3), ("full", (0, 2)), [A, B, C], "offset"),
        ("offset_2x3_02_ABC", (2, 3), ("full", (0, 2)), [A, B, C], "offset"),
        ("offset_3x2_02_ABC", (3, 2), ("full", (0, 2)), [A, B, C], "offset"),
        ("offset_dev_4x5_k2_B", (4, 5), ("dev", (-2, 3), 2), [B], "offset"),
    ],
}
SPACES = {t: [e if len(e) == 5 else e + ("centre",) for e in sp] for t, sp in SPACES.items()}


def _cfg_json(c):
    return dict(observer_elev=c["oe"], target_elev=c["te"], cell_size_xy=list(c["cell"]),
                y="descending" if c["desc"] else "ascending", dtype=c["dtype"],
                optional_arguments="omitted" if c.get("defaults") else "passed as floats",
                **({"attrs_res": list(c["res_attr"])} if c.get("res_attr") else {}))


BOUNDS = {t: {"spaces": [dict(name=n, shape=list(s),
                              observers=("every cell, coordinates of the cell centre" if o == "centre" else
                                         "every cell x every displacement (fr, fc) != (0, 0) of the centre coordinates, fr, fc in "
                                         "%r cell sizes, that stays inside the coordinate range" % (OFFSETS,)),
                              terrains=(dict(kind="every raster", alphabet=list(k[1])) if k[0] == "full" else
                                        dict(kind="flat 0 base + every placement of 0..%d deviating cells" % k[2],
                                             heights=list(k[1]))),
                              configurations=("product observer_elev{0,.5,1,-1} x target_elev{0,1} x cell{(1,1),(2,1),"
                                              "(.5,1.5)} x y{asc,desc} x dtype{int32,float64}" if len(c) == 96
                                              else [_cfg_json(x) for x in c]))
                         for n, s, k, c, o in sp]} for t, sp in SPACES.items()}


@lru_cache(maxsize=None)
def _placements(ncells, k):
    return placements(ncells, k)


class ViewshedSpace(Space):
    def __init__(self, name, shape, kind, configs, observers="centre"):
        self.name, self.shape, self.kind, self.configs = name, shape, kind, configs
        n = shape[0] * shape[1]
        h, w = shape
        # (row, col, fr, fc): the observer stands in cell (row, col), at its centre displaced by fr / fc cell sizes along
        # the row / column axis; a displaced position must stay within the centres of the first and last row / column
        offs = [(0.0, 0.0)] if observers == "centre" else [(fr, fc) for fr in OFFSETS for fc in OFFSETS if (fr, fc) != (0.0, 0.0)]
        self.observers = [(r, c, fr, fc) for r in range(h) for c in range(w) for fr, fc in offs
                          if 0 <= r + fr <= h - 1 and 0 <= c + fc <= w - 1]
        if kind[0] == "full":
            self.nterr = len(kind[1]) ** n
        else:
            self.parts = [comb(n, k) * len(kind[1]) ** k for k in range(kind[2] + 1)]
            self.nterr = sum(self.parts)
        self.radices = [self.nterr, len(self.observers), len(configs)]
        self.size = self.nterr * len(self.observers) * len(configs)

    # ---- rank -> case ---------------------------------------------------------------------------
    def terrain(self, trank):
        """-> (int array, short literal)"""
        h, w = self.shape
        if self.kind[0] == "full":
            a = grid(trank, self.shape, self.kind[1], np.int64)
            return a, str(a.tolist()).replace(" ", "")
        heights = self.kind[1]
        k = 0
        while trank >= self.parts[k]:
            trank -= self.parts[k]
            k += 1
        cells = _placements(h * w, k)[trank // len(heights) ** k]
        hs = unrank_product(trank % len(heights) ** k, [len(heights)] * k)
        a = np.zeros(self.shape, np.int64)
        dev = []
        for c, i in zip(cells, hs):
            a[c // w, c % w] = heights[i]
            dev.append("(%d,%d):%d" % (c // w, c % w, heights[i]))
        return a, "%dx%d flat 0 + {%s}" % (h, w, ",".join(dev))

    def case(self, rank):
        trank, obs, ci = unrank_product(rank, self.radices)
        a, lit = self.terrain(trank)
        vr, vc, fr, fc = self.observers[obs]
        return a, lit, (vr, vc), (fr, fc), self.configs[ci]

    @staticmethod
    def key(lit, vr, vc, off, cfg):
        o = "" if off == (0.0, 0.0) else "|observer_offset_cells=(%+g,%+g)" % off
        return "viewshed|terrain=%s|observer=(%d,%d)%s|%s" % (lit, vr, vc, o, ViewshedSpace.cfg_str(cfg))

    @staticmethod
    def cfg_str(c):
        if c.get("defaults"):
            return "defaults|cell=(1,1)|y=asc|dtype=f8"
        return "observer_elev=%g|target_elev=%g|cell=(%g,%g)|y=%s|dtype=%s" % (
            c["oe"], c["te"], c["cell"][0], c["cell"][1], "desc" if c["desc"] else "asc", c["dtype"]) + (
                "|attrs.res=%r" % (c["res_attr"],) if c.get("res_attr") else "")

    def describe(self, rank):
        a, lit, (vr, vc), off, cfg = self.case(rank)
        return {"terrain": a, "observer_row_col": [vr, vc], "observer_offset_from_centre_in_cells_row_col": list(off),
                "config": _cfg_json(cfg)}

    # ---- driving the implementation ---------------------------------------------------------------
    def setup(self):
        from xrspatial import viewshed
        self.viewshed = viewshed
        self.templates = {}
        z = np.zeros((3, 3))
        viewshed(dataarray(z.copy()), x=1.0, y=1.0, observer_elev=1.0, target_elev=0.0)     # JIT warm-up (~25 s)
        line_of_sight(z, 1, 1, 1.0, 0.0, 1.0, 1.0, EPS)

    def call(self, a, vr, vc, off, cfg):
        tk = (cfg["cell"], cfg["desc"])
        if tk not in self.templates:        # coordinates built once per geometry; every call gets a new DataArray
            h, w = self.shape
            ew, ns = cfg["cell"]
            xs = -1.0 + ew * np.arange(w)
            ys = 2.0 + ns * np.arange(h)
            if cfg["desc"]:
                ys = ys[::-1].copy()
            self.templates[tk] = (dataarray(np.zeros(self.shape), ys, xs), xs, ys)
        tpl, xs, ys = self.templates[tk]
        r = tpl.copy(data=a.astype(cfg["dtype"]))
        if cfg.get("res_attr"):
            r.attrs["res"] = cfg["res_attr"]
        # off = (0, 0): exactly the centre coordinates; otherwise displaced by a fraction of the (signed) coordinate step
        x = float(xs[vc]) + off[1] * float(xs[1] - xs[0])
        y = float(ys[vr]) + off[0] * float(ys[1] - ys[0])
        if cfg.get("defaults"):
            return self.viewshed(r, x=x, y=y)
        return self.viewshed(r, x=x, y=y, observer_elev=cfg["oe"], target_elev=cfg["te"])

    def run(self, lo, hi, out):
        for rank in range(lo, hi):
            a, lit, (vr, vc), off, cfg = self.case(rank)
            key = self.key(lit, vr, vc, off, cfg)
            try:
                o = np.asarray(self.call(a, vr, vc, off, cfg).values, dtype=np.float64)
            except Exception as e:  # in-domain input: an exception is a violation
                out.case(outcome=None, nontrivial=False, calls=1)
                out.violation(rank, key, "viewshed raised %s: %s" % (type(e).__name__, e), case=self.describe(rank))
                continue
            state, value = line_of_sight(a.astype(np.float64), vr, vc, cfg["oe"], cfg["te"],
                                         cfg["cell"][0], cfg["cell"][1], EPS)
            if o.shape != a.shape:
                out.case(outcome=o, nontrivial=False, calls=1)
                out.violation(rank, key, "output shape %s != terrain shape %s" % (o.shape, a.shape),
                              case=self.describe(rank), observed=o)
                continue
            vis, hid, tie = state == VISIBLE, state == HIDDEN, state == TIE
            angle_ok = np.abs(o - value) <= 1e-9
            bad = (vis & ~angle_ok) | (hid & (o != -1)) | (tie & ~angle_ok & (o != -1)) \
                | ((state == OBSERVER) & (o != 180))
            nvis, nhid, ntie = int(vis.sum()), int(hid.sum()), int(tie.sum())
            out.case(outcome=bytes64(o.tobytes()), nontrivial=nvis > 0 and nhid > 0, calls=1)
            out.ok(nvis + nhid + 1)
            out.tie(ntie)
            out.count("cells_visible", nvis)
            out.count("cells_hidden", nhid)
            if bad.any():
                names = {VISIBLE: "visible", HIDDEN: "hidden", TIE: "tie", OBSERVER: "observer"}
                cells = ["cell (%d,%d): reference %s%s, viewshed returned %r"
                         % (i, j, names[int(state[i, j])],
                            "" if state[i, j] == HIDDEN else " (value %.12g)" % value[i, j], float(o[i, j]))
                         for i, j in zip(*np.nonzero(bad))]
                out.violation(rank, key, "%d cell(s) differ from the line-of-sight model: %s [%s]"
                              % (len(cells), "; ".join(cells[:6]), key), case=self.describe(rank), observed=o,
                              expected={"state(1 visible,0 hidden,-1 tie,2 observer)": state, "angle": value})
            elif out.want_sample() and nvis > 0 and nhid > 1:
                out.sample({"terrain": a, "observer_row_col": [vr, vc], "observer_offset_cells_row_col": list(off),
                            "config": _cfg_json(cfg), "viewshed": o,
                            "reference_state": state})


def build(tier):
    return [ViewshedSpace(n, s, k, c, o) for n, s, k, c, o in SPACES[tier]]
