#!/bin/bash
# tools/run_all.sh [quick|thorough] [ids...] : run the registered checks one after another against /repo (writes evidence)
tier="${1:-quick}"; shift
ids="$@"; [ -z "$ids" ] && ids="C01 C02 C03 C04 C05 C06 C07 C08 C09 C10 C11 C12 C13 C14 C15 C16 C17 C18 C19"
cd /verif
for id in $ids; do
  s=$(date +%s)
  ./check $id --tier $tier > /tmp/run_all_$id.log 2>&1; rc=$?
  e=$(date +%s)
  echo "$id tier=$tier exit=$rc wall=$((e-s))s $(grep -E "^$id $tier:" /tmp/run_all_$id.log | cut -c1-160)"
  grep -E "^VIOLATION|^HARNESS" /tmp/run_all_$id.log | head -3
done
