#!/usr/bin/env python3
"""Regenerates /verif/MANIFEST.json from the table below (kept in one place so that it is always valid)."""
import json
import os

HERE = os.path.dirname(os.path.dirname(os.path.abspath(__file__)))
BASE = ("cd /repo && /venv/bin/python -m pytest -ra -q -p no:cacheprovider --timeout=900 "
        "--continue-on-collection-errors")

# id -> (technique, level text, level note, design ref)
T = "bounded-exhaustive exploration of the real code"
ALL = {
    "C01": ("exhaustive enumeration of chunk decompositions x ops x rasters under a controlled one-task-at-a-time Dask "
            "scheduler with write-monitor POR + deviation-bounded schedule enumeration; NumPy backend as reference model",
            "Every chunking of a 4x5 (thorough 5x6) raster x every Dask-accepting op x kernel shapes x non-finite cell placements x "
            "dtypes/cell sizes, and every independent chunking pair of multi-band inputs, is computed under our scheduler and "
            "compared cell for cell with the NumPy call; parameter variants built on the same Dask inputs are also computed "
            "together in one graph; every task is checked pure (=> all schedules equivalent), all <=1 (2) deviation schedules "
            "of 2-block graphs are executed.",
            "Trusts the NumPy backend as reference (as the property states), Dask's graph construction, and the purity argument "
            "(tasks that neither mutate reachable values nor global state commute). Threads x {1,2,4,16} runs are a labelled complement.",
            "DESIGN.md §2 C01, §1.2 E3"),
    "C02": ("exhaustive enumeration of (zone,value) cell sequences x zone_ids x nodata x stat subsets vs dictionary group-by model",
            "All cell sequences over small zone/value alphabets (incl. NaN, +-inf, negative and fractional ids) up to N cells x "
            "ordered zone_ids sub-lists x nodata x statistic subsets / custom reducers x both return types are run through "
            "zonal.stats and compared with a dict group-by.",
            "Trusts the 60-line group-by oracle; statistics depend only on the multiset of (zone,value) pairs, so small N covers the "
            "bookkeeping (sort/stride offsets, selection, NaN stripping).",
            "DESIGN.md §2 C02"),
    "C03": ("exhaustive enumeration of cell sequences x chunk decompositions (zones and values independently) under the "
            "controlled Dask scheduler with write monitor; NumPy backend as reference model",
            "Every (zone,value) sequence over a 9-letter alphabet on short rasters x every chunking, every pair of independent "
            "chunkings of zones/values, parameter products (stat subsets, zone_ids/cat_ids orders, nodata, 3-D count) compared with "
            "the NumPy table; per-block combination depends only on which zones are absent/invalid/valid per block.",
            "Trusts the NumPy backend as reference; rasters <= 8 cells because the Dask zonal graphs have ~650 tasks per block.",
            "DESIGN.md §2 C03"),
    "C04": ("exhaustive enumeration of (zone,category) cell sequences x ordered zone_ids/cat_ids selections x agg vs Counter model",
            "All (zone,cat) sequences up to N cells x every ordered sub-list of zone ids / category ids (incl. absent ids) x agg x "
            "nodata, and 3-D layers x the seven aggregates, compared with a Counter-based contingency table; restriction = "
            "rows/columns of the unrestricted oracle matched by label.",
            "Trusts the Counter oracle; NumPy backend (Dask rides on C03).",
            "DESIGN.md §2 C04"),
    "C05": ("exhaustive enumeration of terrains x observers (+ deviation-bounded larger grids) vs independent O(n^2) line-of-sight model",
            "Every terrain over a height alphabet on small grids x every observer x configuration product, plus every <=2-cell "
            "deviation from flat on 5x5..7x7 grids (drives the sweep's status tree through rotations/deletions), compared with an "
            "O(n^2) evaluation of the same model with geometric corner selection; exact ties skipped and counted.",
            "Trusts the O(n^2) oracle and the tie rule (eps 1e-9).",
            "DESIGN.md §2 C05"),
    "C06": ("exhaustive enumeration of target layouts x metrics x max_distance x coordinate systems (interpreted sources + compiled "
            "conformance slice) vs brute-force nearest-target model",
            "Every layout over {background, target, NaN} on small grids and the configuration product on every {0,T} layout are run "
            "through proximity/allocation/direction and checked against the relations of the statement with a brute-force oracle.",
            "Large spaces run the same sources under NUMBA_DISABLE_JIT=1 (the per-call closure costs 1.3 s to compile); a compiled "
            "slice is compared case by case. Known finding: GDAL-sweep inexactness on listed layouts.",
            "DESIGN.md §2 C06"),
    "C07": ("exhaustive enumeration of chunkings x <=2-target layouts x max_distance grid under the controlled Dask scheduler; "
            "NumPy backend as reference model",
            "Every chunking of a 3x4 raster x every <=2-target layout x halo widths from 0 cells to the raster size, the single-block "
            "fallback, non-square / descending / non-uniform coordinates, NaN cells, explicit and signed target values, several "
            "lazy results computed in one graph; compared with the whole-raster NumPy result; purity of every task monitored.",
            "Interpreted sources + compiled conformance slice; equidistant targets may be named differently.",
            "DESIGN.md §2 C07"),
    "C08": ("exhaustive enumeration of 3x3 windows (tile-packed) x cell sizes x dtypes + single-cell perturbation locality vs "
            "closed-form finite-difference formulas",
            "Every 3x3 window over small alphabets, packed as tiles so that any dependency outside the window breaks the formula, "
            "every single-cell perturbation of generic rasters (locality), offsets, quarter turns, hillshade angle grid.",
            "Trusts the closed-form oracle (float64) and float32 tolerances; tie rule at flat/wrap decisions.",
            "DESIGN.md §2 C08"),
    "C09": ("exhaustive enumeration of 0/1 kernels x NaN placements x stats x reducer programs vs window-slicing model",
            "Every 0/1 kernel of the small odd shapes x single-NaN placements x the seven statistics x reducer programs that read "
            "individual window positions, mean passes/excludes, weighted convolution, hotspot classes and sign symmetry.",
            "Trusts the slicing oracle; float32 tolerances; tie rule at z thresholds.",
            "DESIGN.md §2 C09"),
    "C10": ("exhaustive enumeration of function x backend x dtype x memory layout and of depth-2 call chains with a deep "
            "before/after snapshot monitor, shares_memory and write probe",
            "Every public raster function (incl. degenerate parameterisations) x {numpy,dask} x 10 dtypes x {C,F,strided,read-only} "
            "from the fresh state, attribute/coordinate variants of the inputs, and every chain f->g where g receives f's output; "
            "arguments (rasters and kernels) deep-snapshotted, outputs checked for aliasing (shares_memory + write "
            "probe) and for the input's shape/dims/coords/attrs/backend.",
            "Documented exceptions encoded as the statement lists them; a dtype rejected by raising is not a violation.",
            "DESIGN.md §2 C10"),
    "C11": ("explicit-state history exploration with fresh-interpreter oracle (de Bruijn pair/triple covers, depth-2 trie), "
            "observable-state digests, NUMBA_NUM_THREADS x Dask scheduler x PYTHONHASHSEED grid, preemption-bounded two-thread interleaving at line granularity, "
            "parallel-kernel gate",
            "Every ordered pair of a 26(66)-letter alphabet of colliding calls and every ordered triple of the core alphabet are executed "
            "adjacently in fresh interpreters and each call is compared with the same call alone in a fresh interpreter; module "
            "state vector digested around every call; every ordered pair of 17 Dask calls made while the other's result is still "
            "lazy; all <=1(2)-preemption interleavings of pairs of public calls.",
            "Histories covered by windows (pairs/triples) inside long histories + depth-2 trie from the fresh state; real numba "
            "threads cannot be scheduled (gate + interpreted exploration instead).",
            "DESIGN.md §2 C11, §1.2 E2/E3d/E3e"),
    "C12": ("exhaustive enumeration of bin lists x value positions and of small rasters x k vs linear-scan / rational-cut / "
            "brute-force-optimal-partition models",
            "Every strictly ascending bin list over an alphabet x every value position x dtypes for reclassify/binary; every raster "
            "of <= 6 (7) cells over two alphabets x k for the data-driven classifiers (labels, NaN pattern, monotonicity, exact cuts, "
            "percentile bands, Jenks optimality by brute force).",
            "Trusts np.percentile and the brute-force partition search.",
            "DESIGN.md §2 C12"),
    "C13": ("exhaustive enumeration of band tuples x dtypes x parameters vs exact-rational band formulas",
            "Every tuple of band values over an 8-letter alphabet x dtypes x parameter grids is compared with the published formula "
            "in exact rationals rounded to float32, plus NaN/zero-denominator behaviour, range, swap and scaling relations, true_color alpha.",
            "Trusts the transcription of the published formulas.",
            "DESIGN.md §2 C13"),
    "C14": ("exhaustive enumeration of barrier layouts x start/goal pairs x connectivity x snapping x coordinate systems vs "
            "Dijkstra + path validator",
            "Every barrier layout of the small grids x every start/goal pair x connectivity x snap flags x coordinate systems "
            "(fractional steps, offsets, descending y) compared with Dijkstra on the same move set and a chain validator.",
            "Equal-cost paths: any optimal chain accepted.",
            "DESIGN.md §2 C14"),
    "C15": ("exhaustive enumeration of small rasters x masks x connectivity x transform vs flood-fill + point-in-polygon model",
            "Every raster over {0,1}/{0,1,2} up to the cell budgets x masks x connectivity x dtypes x transforms; polygons re-rasterised "
            "by even-odd test must reproduce the flood-fill components, areas = cell counts, ring orientation/closure/axis-parallel edges.",
            "Trusts the flood-fill and even-odd oracles; compiled mode only.",
            "DESIGN.md §2 C15"),
    "C16": ("exhaustive enumeration of all small rasters x neighbourhood vs flood-fill reference model",
            "Every raster over {0,1}/{0,1,2}/{0,1,NaN} up to the stated cell budgets x neighbourhood {4,8} x dtype is "
            "run through the real regions() and compared with a flood-fill partition.",
            "Trusts the flood-fill oracle (30 lines); labelling only compares adjacent cells for equality.",
            "DESIGN.md §2 C16"),
    "C17": ("exhaustive enumeration of layer-value tuples x reference values x data_vars sub-lists x memory layouts vs per-cell "
            "plain-Python definitions",
            "Every L-tuple of layer values (L=2..4, thorough 5..6) laid out as cells x every reference value x every ordered "
            "data_vars sub-list / ref_var x dtypes x C/F layout compared with per-cell definitions.",
            "Trusts the per-cell oracle.",
            "DESIGN.md §2 C17"),
    "C18": ("exhaustive enumeration of rasters over {keep, 0, NaN} x exclusion / zone-id sets vs argwhere bounding-box model",
            "Every raster over {keep,0,NaN} of the small shapes x exclusion sets (trim) and zones over {0,1,2} x id subsets (crop) "
            "compared with the isel slice of the argwhere bounding box incl. coordinates and attrs.",
            "All-excluded rasters are not asserted.",
            "DESIGN.md §2 C18"),
    "C19": ("exhaustive enumeration of point pairs/triples on planar and spherical lattices and of radius x cellsize x unit-string "
            "grammar vs metric axioms / exact-rational ellipse / unit table",
            "All pairs and triples on the lattices (poles, antimeridian, antipodes), out-of-range arguments, every radius x cell-size "
            "pair for circle/annulus kernels by exact rationals, the radius-string grammar and calc_cellsize units.",
            "Spellings outside the statement's unit list are open choices (accepted or rejected).",
            "DESIGN.md §2 C19"),
}
READY = sorted(ALL)
CHECKS = {k: ALL[k] for k in READY}

PENDING = {}


def main():
    props = [json.loads(l)["id"] for l in open(os.path.join(HERE, "properties.jsonl"))]
    checks = []
    for pid in props:
        if pid not in CHECKS:
            continue
        tech, text, note, ref = CHECKS[pid]
        checks.append({
            "property_id": pid,
            "quick_cmd": "./check %s --tier quick" % pid,
            "thorough_cmd": "./check %s --tier thorough" % pid,
            "evidence_file": "/verif/evidence/%s.json" % pid,
            "replay_cmd_template": "./check --replay {path}",
            "engine": "xrmc",
            "level_claimed": {"category": "model_checking", "text": text, "design_ref": ref},
            "level_note": note,
            "technique": tech,
        })
    na = [{"property_id": p, "reason": PENDING.get(p, "check not built yet — will be claimed once its bounded-exhaustive "
                                                     "explorer exists (see DESIGN.md §2)")}
          for p in props if p not in CHECKS]
    m = {
        "version": 1,
        "setup_cmd": "./check --selftest",
        "hooks": {
            "guard": "XRSPATIAL_VERIF",
            "enable": "no hooks are needed: every seam (custom dask scheduler, sys.settrace, NUMBA_DISABLE_JIT, "
                      "dispatcher introspection) is reached from outside; checks import /repo's working tree directly",
            "baseline_off_cmd": BASE,
            "source_commits": [],
            "add_only": True,
        },
        "engines": [
            {"name": "xrmc", "path": "/verif/xrmc", "serves_properties": sorted(CHECKS),
             "kind_free_text": "hand-written explicit-state / bounded-exhaustive explorer for Python: ranked input "
                               "spaces cut into shards over 16 spawned interpreters (E1), history explorer with "
                               "fresh-interpreter oracle (E2), controlled dask scheduler + write-monitor POR + "
                               "settrace interleaver (E3)"},
        ],
        "checks": checks,
        "not_applicable": na,
        "notes": "All checks drive the real code of /repo's working tree (editable install + PYTHONPATH=/repo); "
                 "XRMC_REPO=<dir> redirects them to a scratch worktree for mutation runs (never set in registered commands).",
    }
    with open(os.path.join(HERE, "MANIFEST.json"), "w") as f:
        json.dump(m, f, indent=1)
        f.write("\n")


if __name__ == "__main__":
    main()
