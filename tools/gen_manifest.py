#!/usr/bin/env python3
"""Regenerates /verif/MANIFEST.json from the table below (kept in one place so that it is always valid)."""
import json
import os

HERE = os.path.dirname(os.path.dirname(os.path.abspath(__file__)))
BASE = ("cd /repo && /venv/bin/python -m pytest -ra -q -p no:cacheprovider --timeout=900 "
        "--continue-on-collection-errors")

# id -> (technique, level text, level note, design ref)
CHECKS = {
    "C16": ("exhaustive enumeration of all small rasters x neighbourhood vs flood-fill reference model",
            "Every raster over {0,1}/{0,1,2}/{0,1,NaN} up to the stated cell budgets x neighbourhood {4,8} x dtype is "
            "run through the real regions() and compared with a flood-fill partition; bounded-exhaustive, so a "
            "labelling bug whose trigger fits in <= 16 cells cannot be missed.",
            "Trusts the flood-fill oracle (30 lines) and the small-scope argument: labelling only compares adjacent "
            "cells for equality, so value magnitudes and raster area beyond the budget add no new behaviour classes.",
            "DESIGN.md §2 C16"),
}

PENDING = {}


def main():
    props = [json.loads(l)["id"] for l in open(os.path.join(HERE, "properties.jsonl"))]
    checks = []
    for pid in props:
        if pid not in CHECKS:
            continue
        tech, text, note, ref = CHECKS[pid]
        checks.append({
            "property_id": pid,
            "quick_cmd": "./check %s --tier quick" % pid,
            "thorough_cmd": "./check %s --tier thorough" % pid,
            "evidence_file": "/verif/evidence/%s.json" % pid,
            "replay_cmd_template": "./check --replay {path}",
            "engine": "xrmc",
            "level_claimed": {"category": "model_checking", "text": text, "design_ref": ref},
            "level_note": note,
            "technique": tech,
        })
    na = [{"property_id": p, "reason": PENDING.get(p, "check not built yet — will be claimed once its bounded-exhaustive "
                                                     "explorer exists (see DESIGN.md §2)")}
          for p in props if p not in CHECKS]
    m = {
        "version": 1,
        "setup_cmd": "./check --selftest",
        "hooks": {
            "guard": "XRSPATIAL_VERIF",
            "enable": "no hooks are needed: every seam (custom dask scheduler, sys.settrace, NUMBA_DISABLE_JIT, "
                      "dispatcher introspection) is reached from outside; checks import /repo's working tree directly",
            "baseline_off_cmd": BASE,
            "source_commits": [],
            "add_only": True,
        },
        "engines": [
            {"name": "xrmc", "path": "/verif/xrmc", "serves_properties": sorted(CHECKS),
             "kind_free_text": "hand-written explicit-state / bounded-exhaustive explorer for Python: ranked input "
                               "spaces cut into shards over 16 spawned interpreters (E1), history explorer with "
                               "fresh-interpreter oracle (E2), controlled dask scheduler + write-monitor POR + "
                               "settrace interleaver (E3)"},
        ],
        "checks": checks,
        "not_applicable": na,
        "notes": "All checks drive the real code of /repo's working tree (editable install + PYTHONPATH=/repo); "
                 "XRMC_REPO=<dir> redirects them to a scratch worktree for mutation runs (never set in registered commands).",
    }
    with open(os.path.join(HERE, "MANIFEST.json"), "w") as f:
        json.dump(m, f, indent=1)
        f.write("\n")


if __name__ == "__main__":
    main()
