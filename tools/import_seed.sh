#!/bin/bash
# tools/import_seed.sh Cxx mN [root=/tmp/seed] [tag] : copy a sub-agent's seeded change into /verif/seeded/Cxx-mN/ (patch, demo, notes)
p="$1"; m="$2"; root="${3:-/tmp/seed}"; tag="${4:-}"; src="$root/$p/out/$m"; dst="/verif/seeded/$p-$tag$m"
[ -f "$src/patch.diff" ] && [ -f "$src/demo.py" ] || { echo "missing $src"; exit 1; }
mkdir -p "$dst"; cp "$src/patch.diff" "$src/demo.py" "$dst/"; [ -f "$src/notes.md" ] && cp "$src/notes.md" "$dst/notes.md"
echo "imported $dst"
