#!/bin/bash
# tools/import_seed.sh Cxx mN : copy a sub-agent's seeded change into /verif/seeded/Cxx-mN/ (patch, demo, notes)
p="$1"; m="$2"; src="/tmp/seed/$p/out/$m"; dst="/verif/seeded/$p-$m"
[ -f "$src/patch.diff" ] && [ -f "$src/demo.py" ] || { echo "missing $src"; exit 1; }
mkdir -p "$dst"; cp "$src/patch.diff" "$src/demo.py" "$dst/"; [ -f "$src/notes.md" ] && cp "$src/notes.md" "$dst/notes.md"
echo "imported $dst"
