#!/bin/bash
# run the quick check of every seeded change that has no detection record yet (sequentially)
for d in /verif/seeded/*/; do
  id=$(basename "$d")
  [ -f "$d/detect_quick.txt" ] && continue
  /verif/tools/seeded.sh "$id" quick > "$d/detect_quick.txt.tmp" 2>&1
  mv "$d/detect_quick.txt.tmp" "$d/detect_quick.txt"
  tail -1 "$d/detect_quick.txt"
done
