#!/bin/bash
# tools/seeded.sh <seeded-id> [tier] [extra ./check args]
# Applies /verif/seeded/<id>/patch.diff to a scratch worktree of /repo's HEAD (outside /repo and /verif), runs the
# quick (or given tier) check of the property named in meta.json against it via XRMC_REPO, and removes the worktree.
set -u
id="$1"; tier="${2:-quick}"; shift; shift || true
d="/verif/seeded/$id"
prop="${PROP:-${id%%-*}}"     # PROP=Cxx runs another property's check against the same change
wt="/tmp/xrmc_seeded_$id.$$"
git -C /repo worktree add -q --detach "$wt" HEAD || exit 2
trap 'git -C /repo worktree remove --force "$wt" >/dev/null 2>&1; rm -rf "$wt"' EXIT
git -C "$wt" apply "$d/patch.diff" || { echo "patch does not apply"; exit 2; }
cd /verif
out=$(XRMC_REPO="$wt" ./check "$prop" --tier "$tier" "$@" 2>/dev/null)
rc=$?
echo "$out" | grep -E "^VIOLATION|^KNOWN|^HARNESS|violation classes|^ +[0-9]+  " | head -20
echo "$out" | grep -E "^C[0-9]+ (quick|thorough):"
echo "seeded=$id property=$prop tier=$tier exit=$rc detected=$([ $rc -eq 1 ] && echo yes || echo no)"
exit 0
