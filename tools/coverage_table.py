#!/usr/bin/env python3
"""Prints a per-property coverage summary (markdown) from /verif/evidence/*.json."""
import glob, json
print("| id | tier | cases (states) | impl calls / tasks (transitions) | validated | ties | distinct outcomes | spaces | wall s | exhaustive |")
print("|---|---|---|---|---|---|---|---|---|---|")
for f in sorted(glob.glob("/verif/evidence/C*.json")):
    e = json.load(open(f)); c = e["coverage"]
    print("| %s | %s | %d | %d | %d | %d | %d | %d | %.0f | %s |" % (e["property_id"], e["tier"], c["states"], c["transitions"],
          c["traces_validated_against_impl"], c.get("tie_skipped", 0), c.get("distinct_outcomes", 0), len(c.get("spaces", [])),
          e["wall_s"], c.get("exhaustive")))
