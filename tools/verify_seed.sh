#!/bin/bash
# tools/verify_seed.sh <seeded-id> : independent confirmation in a scratch worktree (outside /repo and /verif):
#  patch applies; demo exits 0 on the unchanged tree and !=0 with the change; the repository's own suite still gives
#  the baseline result with the change.  Writes /verif/seeded/<id>/verify.json
id="$1"; d="/verif/seeded/$id"; wt="/tmp/xrmc_verify_$id.$$"
git -C /repo worktree add -q --detach "$wt" HEAD || exit 2
trap 'git -C /repo worktree remove --force "$wt" >/dev/null 2>&1; rm -rf "$wt"' EXIT
cd "$wt"
PYTHONPATH="$wt" timeout 900 /venv/bin/python "$d/demo.py" > "$d/demo_clean.txt" 2>&1; rc_clean=$?
git apply "$d/patch.diff" || { echo "{\"id\":\"$id\",\"applies\":false}" > "$d/verify.json"; exit 1; }
files=$(git diff --name-only | tr '\n' ' ')
PYTHONPATH="$wt" timeout 900 /venv/bin/python "$d/demo.py" > "$d/demo_mutated.txt" 2>&1; rc_mut=$?
PYTHONPATH="$wt" timeout 3000 /venv/bin/python -m pytest -q -p no:cacheprovider --timeout=900 xrspatial/tests > "$d/suite.txt" 2>&1
summary=$(tail -1 "$d/suite.txt")
failed=$(grep -E "^FAILED" "$d/suite.txt" | tr '\n' ';')
echo "{\"id\":\"$id\",\"applies\":true,\"files\":\"$files\",\"demo_exit_clean\":$rc_clean,\"demo_exit_mutated\":$rc_mut,\"suite_summary\":\"$summary\",\"suite_failed\":\"$failed\"}" > "$d/verify.json"
cat "$d/verify.json"
