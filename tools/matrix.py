#!/usr/bin/env python3
"""Prints the seeded-change x check detection matrix (markdown) from /verif/seeded/*/meta.json."""
import glob, json
rows = []
for f in sorted(glob.glob("/verif/seeded/*/meta.json")):
    m = json.load(open(f))
    det = m.get("detection", {})
    cells = []
    for k in sorted(det):
        d = det[k]
        cells.append("%s %s: %s" % (d["check"], d["tier"], "DETECTED" if d["detected"] else "missed"))
    rows.append("| %s | %s | %s | %s | %s |" % (m["id"], m["property_broken"], m["change"], m["needs_to_manifest"], "; ".join(cells)))
print("| seeded change | property | change | needs to manifest | checks run against it |\n|---|---|---|---|---|")
print("\n".join(rows))
