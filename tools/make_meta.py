#!/usr/bin/env python3
"""Writes /verif/seeded/<id>/meta.json from verify.json + detection records + the table below."""
import glob, json, os, re

NEEDS = {
 "C01-m1": ("C01", "focal.apply/focal_stats on Dask: column halo taken from the kernel's HEIGHT", "kernel wider than tall (3x5, 1x5) and the column axis split into >= 2 chunks"),
 "C01-m2": ("C01", "slope on Dask: float32 cast dropped before map_overlap(boundary=nan)", "integer-dtype Dask raster (NaN halo becomes int-min): outer ring finite instead of NaN"),
 "C02-m1": ("C02", "stats: zone column in request order, statistics in ascending order", "zone_ids with >= 2 existing ids out of ascending order, NumPy backend, DataFrame return"),
 "C02-m2": ("C02", "_sort_and_stride strips non-finite zones by a tail slice", "a -inf zone cell (sorts to the front)"),
 "C03-m1": ("C03", "Dask crosstab: shortcut for blocks without requested zones returns columns sharing ONE zero array; block 0 is the in-place accumulator", "first block without any requested zone, >= 2 categories"),
 "C03-m2": ("C03", "Dask stats: per-block partials combined in groups of 4 with an off-by-one range", "number of blocks = 4k+1 > 4 (5, 9, 13, ...) and a zone with valid cells in the last block"),
 "C04-m1": ("C04", "3-D crosstab: layer index taken from the position among the SELECTED categories", "3-D values and cat_ids that skip a layer"),
 "C04-m2": ("C04", "2-D crosstab: isfinite mask dropped, relying on sort order", "a -inf value cell in a selected zone (sorts to the front, strides never advance)"),
 "C05-m1": ("C05", "viewshed sweep set-up passes (ns_res, ew_res) swapped for the cells due east of the observer", "non-square cells, >= 2 cells east of the observer, a target whose gradient lies between the right and wrong interpolated values"),
 "C05-m2": ("C05", "status tree: predecessor walk descends right at most once", "enough simultaneously active cells for a left child with a right-right chain (>= 6x4 from a corner) and a sole blocker"),
 "C06-m1": ("C07", "Dask proximity: halo depths computed from the other axis' cell size (property C07's mechanism)", "non-square cells, finite max_distance, >= 2 chunks on the under-padded axis"),
 "C06-m2": ("C06", "proximity scan-line buffer allocated as float32: target test on rounded values", "cell values / target_values that are not float32-representable (0.3, ids >= 2**24, |v| < 1e-45 or > 3.4e38)"),
 "C07-m1": ("C07", "Dask proximity: x/y cell sizes swapped when sizing the halo", "non-square cells where the two halo depths differ, target in the band between wrong and right halo"),
 "C07-m2": ("C07", "Dask proximity: halo clamped to the smallest chunk", "a chunk thinner than the halo (ragged last chunk, tiny chunks)"),
 "C08-m1": ("C08", "calc_res mixes up rows and columns", "cell size from coordinates (no res attr) on a non-square raster"),
 "C08-m2": ("C01", "aspect on Dask skips the halo when there is one block of rows (property C01's mechanism)", "one row block and >= 2 column blocks"),
 "C09-m1": ("C09", "focal apply: window buffer reset only when the window overhangs, with the right-edge test using the row half-size", "kernel wider than tall near the right edge, NumPy backend"),
 "C09-m2": ("C01", "focal.mean on Dask: all passes fused behind one halo, NaN padding becomes ordinary cells (property C01's mechanism)", "Dask raster, passes >= 2, excludes without NaN"),
 "C10-m1": ("C10", "natural_breaks sorts an integer C-contiguous input raster in place (ravel view + skipped mask copy)", "integer dtype, C-contiguous writable, no sub-sampling, unsorted values"),
 "C10-m2": ("C10", "focal.mean astype(copy=False): passes=0 returns the input's own buffer", "passes=0 and float64 input"),
 "C11-m1": ("C11", "generate_terrain caches its sampling lattice keyed on (height, width) only", "two calls with the same shape and different windows of a full_extent in one process"),
 "C11-m2": ("C11", "natural_breaks sub-sampling RNG hoisted into a default argument (created once at import)", "second sub-sampling call (num_sample < size) in a process"),
 "C12-m1": ("C12", "reclassify: bin edges cast to the raster's float dtype", "float32 raster, bin edge not float32-representable, cell between the edge and its rounding"),
 "C12-m2": ("C12", "equal_interval pins the last cut BEFORE trimming an overshooting arange", "(min, max, k) for which arange yields k+1 cuts, e.g. (2,4,3)"),
 "C13-m1": ("C01", "SAVI Dask graph keys built from the bands only (soil_factor left out) (Dask mechanism: C01)", "two savi results on the same Dask bands with different soil_factor computed in one graph"),
 "C13-m2": ("C13", "true_color alpha mask evaluated on the float32 copy of red", "red within float32 resolution of nodata (float64 nextafter(1), ints above 2**24)"),
 "C14-m1": ("C14", "_get_pixel_id assumes a north-up raster (signed offset from the top-left corner)", "ascending y and/or descending x coordinates"),
 "C14-m2": ("C14", "A*: parent pointer written only when a cell is first opened", "connectivity 8, grid >= 3x4, a path cell first reached diagonally and later improved"),
 "C15-m1": ("C15", "polygonize _is_close: tolerance atol + rtol*reference (no abs)", "float raster with negative values"),
 "C15-m2": ("C15", "polygonize: identity-transform shortcut ignores the offsets", "pure translation transform (1,0,dx,0,1,dy)"),
 "C16-m1": ("C16", "regions merge pass: relabel sweep starts at row y-1", "concave component with an arm >= 3 cells above the joining row (>= 4x3)"),
 "C16-m2": ("C16", "regions first pass stops scanning neighbours at index n//2 (8-window is column-major)", "neighborhood=8, anti-diagonal corner link away from the border (>= 4x4)"),
 "C17-m1": ("C17", "local._cell_tuples walks the dataset's variables instead of data_vars (order lost)", "explicit data_vars in an order different from the dataset's"),
 "C17-m2": ("C17", "rank: heapq.nsmallest(ref) before the NaN guard", "every NaN of the cell in a layer position > ref"),
 "C18-m1": ("C18", "crop: scans bounded by top/left with a stale cursor", "all selected cells in a single row (column) that is not the last"),
 "C18-m2": ("C18", "trim: exclusion values cast to the integer raster's dtype", "integer raster and an exclusion value its dtype cannot represent (0.5, 256, -1)"),
 "C19-m1": ("C19", "_ellipse_kernel memoised + annulus subtracts in place into the cached disc", "annulus_kernel followed by circle_kernel / annulus_kernel with the same outer half-sizes in one process"),
 "C19-m2": ("C19", "great_circle_distance: exact-antipode branch returns pi * EARTH_RADIUS instead of pi * radius", "non-default radius and an exactly antipodal pair"),

 # ---- wave 2 (agents were told the wave-1 ideas for their property and asked for different mechanisms) ----
 "C01-w2m1": ("C01", "focal.mean on Dask fuses all passes into one overlap of depth `passes` with a NaN boundary", "Dask, passes >= 2, excludes without NaN"),
 "C01-w2m2": ("C01", "perlin on Dask derives block coordinates from block_id * chunksize (largest chunk)", "non-uniform chunking with a non-last chunk smaller than the largest"),
 "C02-w2m1": ("C02", "nodata matched with np.isclose instead of !=", "a valid value within 1e-8 + 1e-5*|nodata| of nodata_values"),
 "C02-w2m2": ("C03", "Dask stats filters unique_zones to the requested ids before the per-block strides (property C03's mechanism)", "Dask, zone_ids given, a block holding a smaller unrequested id next to a requested one"),
 "C03-w2m1": ("C03", "Dask stats: mean combined as the mean of per-block means", "a zone split over blocks with different valid-cell counts and different block means"),
 "C03-w2m2": ("C03", "3-D crosstab aligns values to zones via chunksize (largest chunk) instead of the chunk tuples", "irregular zones chunks with values chunked differently"),
 "C04-w2m1": ("C04", "_sort_and_stride flattens with ravel(order='K')", "zones and values with different memory layouts (one Fortran-ordered / transposed)"),
 "C04-w2m2": ("C04", "crosstab zone selection by np.searchsorted without a membership test", "a requested zone id that is absent and smaller than the largest zone"),
 "C05-w2m1": ("C05", "viewshed: duplicate-looking gradient call removed, target_elev leaks into the blockers' centre gradient", "target_elev > 0 and a sight line the raised centre can cut"),
 "C05-w2m2": ("C05", "corner-elevation bounds test uses n_cols for the row index", "more rows than columns and relief in rows >= n_cols - 1"),
 "C06-w2m1": ("C06", "proximity bottom-up pass loses the per-line reset of the nearest-target indices", "cells taller than wide and a target directly below a cell whose nearest target is horizontally closer (allocation/direction only)"),
 "C06-w2m2": ("C06", "max_distance clamped to the corner-to-corner distance", "GREAT_CIRCLE, unbounded max_distance, high-latitude raster wider than tall or near-global longitude span"),
 "C07-w2m1": ("C07", "Dask proximity map_overlap boundary=0 instead of NaN", "0 among target_values, finite max_distance, coordinate origin near the raster"),
 "C07-w2m2": ("C07", "explicit Dask task name tokenised without the closure's parameters", "two calls on the same Dask raster differing in function / targets / metric / max_distance (same halo) computed in one graph"),
 "C08-w2m1": ("C01", "slope on Dask: float32 cast dropped before map_overlap (property C01's mechanism)", "integer-dtype Dask raster"),
 "C08-w2m2": ("C08", "aspect treats gradients below float32 eps as flat", "non-zero gradients below 1.19e-7"),
 "C09-w2m1": ("C09", "focal_stats computes layers in dict order but labels them in request order", ">= 2 stats requested in a non-canonical order"),
 "C09-w2m2": ("C01", "Dask convolution builds its NaN halo in the raster's dtype (property C01's mechanism)", "integer-dtype Dask raster"),
 "C10-w2m1": ("C10", "normalized-ratio kernel writes its result into its first argument", "Dask backend, float32 first band (same-dtype astype is a no-op), result computed"),
 "C10-w2m2": ("C10", "a_star_search output built from the two dimension coordinates only", "input carrying scalar / non-index coordinates"),
 "C11-w2m1": ("C11", "Dask proximity coordinate grids created with fixed graph names", "two Dask calls on rasters with different coordinates computed in one graph"),
 "C11-w2m2": ("C11", "hotspots normalises the caller's float64 kernel in place", "the same float64 kernel object reused after a hotspots() call"),
 "C12-w2m1": ("C12", "natural_breaks fits Jenks on the de-duplicated sample", "ties with uneven multiplicities and > k distinct values"),
 "C12-w2m2": ("C12", "binary: np.searchsorted on the (unsorted) values list", "values list not in ascending order"),
 "C13-w2m1": ("C10", "GCI kernel writes its result into the nir array it was handed (property C10's mechanism)", "Dask backend with a float32 nir band"),
 "C13-w2m2": ("C13", "normalized-ratio kernel flattened with ravel(): writes go to a copy for Fortran-ordered first band", "NumPy backend, Fortran-ordered / transposed first band"),
 "C14-w2m1": ("C14", "barrier lookup by np.searchsorted on an unsorted barrier list", "barriers list of >= 2 values not in ascending order"),
 "C14-w2m2": ("C14", "start == goal fast path before the crossability test", "start and goal resolving to the same barrier / NaN cell, snapping off"),
 "C15-w2m1": ("C15", "polygonize flattens raster and mask with ravel(order='K')", "Fortran-ordered or transposed-view raster"),
 "C15-w2m2": ("C15", "nx == 1 padding uses mask[0] instead of mask[:, 0]", "Nx1 raster with a mask that is not constant down the column"),
 "C16-w2m1": ("C16", "regions merge pass: tolerance 1e-8 + 1e-5*val without abs", "negative-valued component needing more than one provisional label"),
 "C16-w2m2": ("C16", "regions merge pass: NaN centre -> break instead of continue", "a NaN left of where two arms of a component join"),
 "C17-w2m1": ("C17", "cell_stats writes results into an array of the layers' result_type", "all layers integer and a non-integral (mean/std/median) or overflowing (sum) result"),
 "C17-w2m2": ("C17", "frequency operators walk the reference layer with np.nditer (memory order)", "non-constant reference layer that is not C-contiguous"),
 "C18-w2m1": ("C18", "trim scans data.T for Fortran-ordered rasters but slices un-transposed", "Fortran-ordered / transposed raster with an asymmetric window"),
 "C18-w2m2": ("C18", "crop: misplaced break, the left-edge scan only consults zones_ids[0]", ">= 2 ids and the leftmost selected column holding no cell of the first-listed id"),
 "C19-w2m1": ("C19", "great_circle_distance range checks: first-point latitude compared with 180", "first-point latitude with 90 < |y1| <= 180"),
 "C19-w2m2": ("C19", "circle_kernel swaps half-width and half-height for non-square cells", "int(r/cellsize_x) != int(r/cellsize_y)"),
 # ---- wave 3 (agents were told the four earlier ideas and the trigger dimensions already used) ----
 "C01-w3m1": ("C01", "generate_terrain on Dask builds the y axis from the scaled x window", "Dask, full_extent given, x/y windows at different relative positions"),
 "C01-w3m2": ("C01", "hillshade on Dask forwards its options through `if v` (falsy 0 dropped)", "Dask and azimuth == 0 or angle_altitude == 0"),
 "C02-w3m1": ("C03", "validate_arrays compares chunksize (largest chunk) instead of the chunk tuples (property C03's mechanism)", "Dask zones/values with equal largest chunk but different block boundaries"),
 "C02-w3m2": ("C02", "stats: absent zone_ids located by np.searchsorted without an equality check", "a requested id that is absent and smaller than the largest zone (NumPy)"),
 "C03-w3m1": ("C03", "Dask stats selects requested rows by dropna(how='all') instead of by zone id", "zone_ids given and a requested zone whose cells are all invalid"),
 "C03-w3m2": ("C03", "_sort_and_stride vectorised: break offsets not carried forward over ids missing from a block", "a block holding ids a and c but no cell of an existing id b, a < b < c"),
 "C04-w3m1": ("C04", "3-D crosstab matches layers to the SORTED layer labels", "3-D values whose layer labels are not ascending"),
 "C04-w3m2": ("C04", "percentage denominator summed over the selected category columns", "agg='percentage' with cat_ids omitting a category present in a selected zone"),
 "C05-w3m1": ("C05", "observer cell located by truncating index arithmetic instead of nearest centre", "observer x/y off the cell centre with fractional part >= 0.5"),
 "C05-w3m2": ("C05", "shortcut: observer eye above the raster maximum => every cell visible", "eye strictly above the highest cell and relief that hides cells"),
 "C06-w3m1": ("C07", "Dask proximity map_overlap boundary=0 (property C07's mechanism)", "0 among target_values, finite max_distance, origin near the raster"),
 "C06-w3m2": ("C06", "`max_distance = max_distance or inf`", "max_distance exactly 0"),
 "C07-w3m1": ("C07", "Dask path regenerates coordinates with linspace(first, last, n)", "a coordinate axis that is not evenly spaced"),
 "C07-w3m2": ("C07", "Dask empty-chunk shortcut tests np.nansum(img) == 0", "default targets of both signs cancelling inside a padded chunk"),
 "C08-w3m1": ("C08", "hillshade: `azimuth = azimuth or 225`, `angle_altitude = angle_altitude or 25`", "a sun angle exactly 0"),
 "C08-w3m2": ("C08", "hillshade small-raster guard `min(shape) <= 3` returns all NaN", "raster with exactly 3 rows or columns (or 1-thick interior Dask chunks)"),
 "C09-w3m1": ("C01", "Dask focal apply clamps its halo to the smallest chunk (property C01's mechanism)", "kernel half-size larger than the smallest chunk"),
 "C09-w3m2": ("C09", "hotspots p-value tier loses abs(): -99 never produced", "neighbourhood z-score below -2.58"),
 "C10-w3m1": ("C10", "get_dataarray_resolution normalises a negative res component in place", "attrs['res'] a mutable sequence with negative y"),
 "C10-w3m2": ("C10", "validate_arrays snaps the other rasters' coordinates onto the first raster's", "two raster arguments whose coordinates are close but not identical"),
 "C11-w3m1": ("C11", "perlin: `if seed:` instead of `is not None` - seed 0 does not re-seed", "perlin(seed=0)"),
 "C11-w3m2": ("C11", "focal_stats de-duplicates stats_funcs through set() (hash-randomised order)", "duplicate stat names, compared across interpreters with different PYTHONHASHSEED"),
 "C12-w3m1": ("C12", "equal_interval constant-raster guard uses np.isclose(max, min)", "value range tiny relative to magnitude (1e6 .. 1e6+8)"),
 "C12-w3m2": ("C12", "natural_breaks sorts the caller's raster in place (ravel view, conditional copy)", "NaN-free unsorted C-contiguous raster, no sub-sampling"),
 "C13-w3m1": ("C13", "SIPI kernel vectorised without the zero-denominator guard", "nir == red and nir != blue"),
 "C13-w3m2": ("C13", "true_color: `if not nodata:` replaces an explicit nodata=0", "nodata == 0 and red in (0, 1]"),
 "C14-w3m1": ("C14", "snap scan: column pruning uses break instead of continue", "snapped end point in column >= 2 with the nearest crossable cell in a later row"),
 "C14-w3m2": ("C14", "open-cell sentinel lowered to height + width", "a route whose cost reaches height + width (winding corridors)"),
 "C15-w3m1": ("C15", "region id compaction resolves only ids inside the merge table", "> 64 provisional regions and an earlier merge"),
 "C15-w3m2": ("C15", "boundary scan exits once all regions are done", "a hole starting at a masked cell / diagonal crossing after the last region's first cell"),
 "C16-w3m1": ("C16", "merge pass: relabel loops folded, running minimum not updated", "neighborhood 8, three arms meeting diagonally at one interior cell (>= 4x6)"),
 "C16-w3m2": ("C16", "regions() result built from the dimension coordinates only", "input with scalar / auxiliary coordinates"),
 "C17-w3m1": ("C17", "default data_vars: `var not in ref_var` (substring test on the name)", "a data layer whose name is a proper substring of the reference name"),
 "C17-w3m2": ("C17", "highest_position scans with a zero-initialised running maximum", "a cell whose values are all <= 0 with the first layer not the maximum"),
 "C18-w3m1": ("C18", "trim: empty exclusion set replaced by (NaN,)", "values=() / [] and all-NaN border rows or columns"),
 "C18-w3m2": ("C18", "crop fast path compares a count with multiplicity to the number of distinct zones", "zones_ids with repeated ids"),
 "C19-w3m1": ("C19", "great_circle_distance antimeridian wrap subtracts pi", "longitudes differing by more than 180 degrees"),
 "C19-w3m2": ("C19", "_get_distance returns bare numeric strings before the non-positive check", "unit-less zero / small negative radius"),
}

# first detection run (before the checks were extended): which seeded changes the quick tier of the responsible check missed,
# and which extension closed the gap
FIRST_MISS = {
 "C03-m2": "no raster with 5 or 9 blocks existed -> C03 block_count_sweep (1xN one-cell blocks, N=1..12; 3x3)",
 "C04-m2": "no +-inf among the category values -> C04 nf/nfa/csel spaces (values {0,1,NaN,-inf,+inf})",
 "C06-m2": "all cell values were float32-representable -> C06 precision_* spaces (0.3 vs float32(0.3), 2**24+1 vs 2**24, 1e-60, 1e200)",
 "C09-m2": "C09 is NumPy-only; C01's mean ops all listed NaN in excludes -> C01 op mean_p2_excl_nonan",
 "C10-m2": "only passes=2 was exercised -> C10 degenerate parameterisations (passes=0, 1x1 kernels, start=goal)",
 "C11-m1": "alphabet had a single generate_terrain letter -> C11 letters terrain_full_extent_ne/sw (same shape, different window)",
 "C11-m2": "no letter reached the sub-sampling branch -> C11 letters natural_breaks_sample*; RNG-like default arguments added to the state vector",
 "C12-m1": "bin edges were float32-representable -> C12 reclassify_edge_* / binary_nf32 spaces",
 "C13-m1": "results were only computed one at a time -> C01 joint_compute_parameter_families (dask.compute(a, b, ...))",
 "C13-m2": "no red value within float32 resolution of nodata -> C13 true_color_nodata_edge",
 "C14-m2": "quick had no grid >= 3x4 -> C14 paths_3x4_fb_le3",
 "C15-m1": "no negative float values -> C15 *_neg* spaces",
 "C15-m2": "no pure translation among the transforms -> C15 transform set {identity, translate, flip_y, scale_shift, general}",
 "C18-m2": "exclusion values were always representable in the raster dtype -> C18 trimx spaces",
 "C02-w2m1": "no value close to (but different from) nodata -> C02 near_nd* spaces (nextafter, +5e-9, x(1+5e-6))",
 "C04-w2m1": "all rasters were C-ordered -> C02/C04 mem* spaces (zones/values independently C, F, transposed view)",
 "C04-w2m2": "absent requested ids were only larger than all zones -> C02 gap_* / C04 asel_* spaces (absent ids below, between, above)",
 "C05-w2m2": "quick had only square or wide terrains -> C05 full_3x2 / 4x2 / dev_6x4 spaces (every shape family tall and wide)",
 "C07-w2m1": "only default targets were used on Dask (extension made on reading the report, before a detection run) -> C07 explicit_target_values_3x4 (0 among target_values)",
 "C07-w2m2": "results were only computed one at a time (extension made on reading the report) -> C07 joint_compute_proximity_family",
 "C11-w2m1": "results were only computed one at a time -> C07 joint_compute_proximity_family group different_coordinates",
 "C08-w2m2": "all gradients were >= 1/8 -> C08 scaled_4L (vertical scales 1e-9, 1e-6, 1e3)",
 "C13-w2m2": "bands were always C-ordered -> C13 <index>_mem spaces (per-band C / F / transposed / strided)",
 "C14-w2m1": "barrier lists were ascending -> C14 paths_2x2_fb3_lists (every permutation of 2-3 barrier values)",
 "C15-w2m1": "rasters and masks were always C-ordered -> C15 *_rF/_rT/_rS layout spaces",
 "C18-w2m1": "rasters were always C-ordered -> C18 layout parameter (C, F, T) on trim and crop spaces",
 "C01-w3m1": "generate_terrain was never given full_extent (extension made on reading the report) -> C01 op generate_terrain_full_extent (different relative x / y windows)",
 "C01-w3m2": "hillshade angles never 0 on Dask (extension made on reading the report) -> C01 ops hillshade_az0_alt0 / az360_alt90",
 "C04-w3m1": "layer labels were always ascending -> C04 layo_* spaces (non-ascending numeric and string labels)",
 "C05-w3m1": "observer always given at the cell centre -> C05 offset_* spaces (displaced by +-0.3 / +-0.49 cell)",
 "C06-w3m2": "max_distance 0 was not generated -> C06 config_max0_* spaces (and 0.0 in C07's halo grid)",
 "C07-w3m1": "coordinates were always evenly spaced (extension made on reading the report) -> C07 non_uniform_coordinates_3x4",
 "C07-w3m2": "target values were all positive (extension made on reading the report) -> C07 signed_default_targets_3x4",
 "C10-w3m1": "res attr was an immutable tuple with positive entries (extension made on reading the report) -> C10 input_attrs_and_coords_variants",
 "C10-w3m2": "all raster arguments shared identical coordinates (extension made on reading the report) -> C10 input_attrs_and_coords_variants",
 "C11-w3m1": "no seed at the boundary value 0 (extension made on reading the report) -> C11 letter perlin_s0 (+ C01 op perlin_s0_f31)",
 "C11-w3m2": "PYTHONHASHSEED was pinned to 0 in every interpreter -> C11 environment grid now varies PYTHONHASHSEED; letter focal_stats_dup_names",
 "C12-w3m1": "value ranges were never tiny relative to magnitude -> C12 equal_interval grid shifted by +-1e6 and scaled by 2^-30",
 "C15-w3m1": "no raster had > 64 provisional regions -> C15 CheckerSpace (checkerboards 5x16 .. 9x9 + one merging motif)",
 "C16-w3m1": "three-arm merges need an interior 4x6 pattern -> C16 rasters embedded in a margin (border vs interior dimension)",
 "C16-w3m2": "inputs carried dimension coordinates only -> C16 inputs carry scalar and auxiliary coordinates",
 "C17-w3m1": "variable names were unrelated strings -> C17 *_names_* spaces (substring / superstring names)",
 "C17-w3m2": "no negative layer values -> C17 signed alphabets",
 "C18-w3m1": "the empty exclusion set was not generated -> C18 trim with () and []",
 "C18-w3m2": "id lists had no repeated ids -> C18 crop +d / +d2 lists",
 "C19-m1": "detected, but the per-case replay could not reproduce a history-dependent failure (HARNESS-ERROR) -> runner confirms by replaying the shard prefix as a history",
}


def main():
    for d in sorted(glob.glob("/verif/seeded/*/")):
        sid = os.path.basename(d.rstrip("/"))
        if sid not in NEEDS:
            continue
        prop, what, needs = NEEDS[sid]
        meta = {"id": sid, "seeded_against": sid.split("-")[0], "property_broken": prop, "change": what,
                "needs_to_manifest": needs, "origin": "fresh sub-agent given only the property text and a scratch worktree"}
        vf = os.path.join(d, "verify.json")
        if os.path.exists(vf):
            v = json.load(open(vf))
            meta["confirmed_by_me"] = {"scratch_worktree": "/tmp/xrmc_verify_<id> (removed)", "patch_applies": v.get("applies"),
                                       "files": v.get("files", "").split(), "demo_exit_unchanged_tree": v.get("demo_exit_clean"),
                                       "demo_exit_with_change": v.get("demo_exit_mutated"), "repo_suite_with_change": v.get("suite_summary"),
                                       "repo_suite_failures_with_change": v.get("suite_failed"),
                                       "commands": ["tools/verify_seed.sh " + sid]}
        det = {}
        for f in sorted(glob.glob(os.path.join(d, "detect_*.txt"))):
            txt = open(f).read()
            m = re.search(r"seeded=\S+ property=(\S+) tier=(\S+) exit=(\d+) detected=(\w+)", txt)
            if m:
                classes = re.findall(r"^\s+(\d+)\s+(\S.*)$", txt, re.M)[:6]
                det[os.path.basename(f)[7:-4]] = {"check": m.group(1), "tier": m.group(2), "exit": int(m.group(3)),
                                                  "detected": m.group(4) == "yes", "violation_classes": [c[1] + " x" + c[0] for c in classes]}
        meta["detection"] = det
        if sid in FIRST_MISS:
            meta["first_detection_run"] = {"detected": False, "gap_and_extension": FIRST_MISS[sid]}
        else:
            meta["first_detection_run"] = {"detected": True}
        json.dump(meta, open(os.path.join(d, "meta.json"), "w"), indent=1)
    print("ok")

if __name__ == "__main__":
    main()
